#!/usr/bin/env python3
"""Print the prompt given to an independent mutation-seeding sub-agent for one property."""
import json, sys
pid, tag = sys.argv[1], sys.argv[2]
n = int(sys.argv[3]) if len(sys.argv) > 3 else 3
p = next(json.loads(l) for l in open('/verif/properties.jsonl') if json.loads(l)['id'] == pid)
wt = f"/tmp/wt/{pid}{tag}"
out = f"/tmp/seedout/{pid}{tag}"
print(f"""You are given a scratch git worktree of a Rust workspace at {wt} (project ALPHA-g-Experiment/alpha-g: crates `detector` (alpha_g_detector), `physics` (alpha_g_physics), `analysis` (binaries)). The sandbox has NO network: always pass `--offline` to cargo and `export CARGO_TARGET_DIR={wt}/target`. Work ONLY inside {wt} and {out}; never touch /repo or /verif (do not read /verif either).

Here is a semantic property the project is supposed to satisfy:

ID: {p['id']} — {p['title']}
Statement: {p['statement']}
Quantifier: {p['quantifier']['text']}
Why the existing tests cannot settle it: {p['why_tests_cant']}
Code anchors: {json.dumps(p['anchors'].get('files'))}
Mechanisms: {json.dumps(p['anchors'].get('mechanism'))}

Your job: produce {n} DIFFERENT, independent, realistic source changes ("mutations") to the workspace, each of which BREAKS this property while the workspace still compiles and the whole existing test suite (`cargo test --workspace --offline`, 372 tests) still passes. Think of plausible maintainer slips or refactors: an off-by-one in a guard, a wrong constant/mask, a check dropped or moved after its use, a comparison loosened, a swapped index/field/operand, a wrong table entry, a container type changed, a helper that looks equivalent but is not, two cooperating sites that each look fine alone. Prefer changes that need something specific to manifest (an unusual input, a boundary value, a particular ordering/permutation, a multi-step sequence, a specific run number or board) — NOT ones that any ordinary use would expose at once, and not ones the existing tests catch. Make the {n} mutations differ in kind and location (different functions / different clauses of the property). Keep each mutation small (a few lines) and make it look natural: no comments announcing it, no dead code, no test edits.

For each mutation k = 1..{n}:
 1. Start from a clean tree (`git -C {wt} checkout -- . && git -C {wt} clean -fdq -e target`).
 2. Make the change. Run `cargo test --workspace --offline` and confirm all tests pass (if a test fails, pick another mutation).
 3. Write a demonstration: a Rust integration test file (e.g. `{wt}/detector/tests/demo.rs` or `{wt}/physics/tests/demo.rs`; for the analysis binaries a shell/python script that builds and runs the binary on a synthetic input is fine) that FAILS with the mutation and PASSES on the clean tree. Confirm both by actually running it (note: tests that build a `MainEvent` need `RUST_MIN_STACK=268435456` in debug builds because the struct is large).
 4. Save into `{out}/{{k}}/`: `patch.diff` (output of `git -C {wt} diff` for the mutation only, WITHOUT the demo file), the demo file(s), and `README.md` with: which clause of the property is broken, what specific input/condition is needed to manifest it, the exact commands you ran for (a) the test suite with the mutation, (b) the demo with the mutation (failing), (c) the demo without it (passing), and their observed results.
Finally restore the worktree to clean state (keep `target/`), and reply with a short summary (under 250 words) listing for each mutation: file/function changed, one-line description, and whether all three confirmations succeeded. If you cannot find a mutation that passes the suite for some k, say so rather than submitting a weak one.""")
