#!/bin/bash
# with_patch.sh <patch> <command...>: run a command (e.g. ./agv check C02, python3 script) against a scratch copy of
# /repo with the patch applied (AGV_REPO / AGV_EVID point at the copy); the copy is removed afterwards.
p=$(realpath "$1"); shift
d=$(mktemp -d /tmp/agv-wp-XXXXXX)
mkdir -p $d/evid
rsync -a --exclude target --exclude .git /repo/ $d/repo/
( cd $d/repo && patch -p1 -s -f -i "$p" ) || { echo "patch does not apply"; rm -rf $d; exit 2; }
AGV_REPO=$d/repo AGV_EVID=$d/evid "$@"
rc=$?
rm -rf $d
exit $rc
