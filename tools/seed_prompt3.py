#!/usr/bin/env python3
"""seed_prompt3.py <property> <tag> [n]: prompt for a sub-agent that produces n behaviour-preserving refactors only"""
import json, sys
pid, tag = sys.argv[1], sys.argv[2]
n = int(sys.argv[3]) if len(sys.argv) > 3 else 4
p = next(json.loads(l) for l in open('/verif/properties.jsonl') if json.loads(l)['id'] == pid)
wt = f"/tmp/wt/{pid}{tag}"
out = f"/tmp/seedout/{pid}{tag}"
print(f"""You are given a scratch git worktree of a Rust workspace at {wt} (project ALPHA-g-Experiment/alpha-g: crates `detector` (alpha_g_detector), `physics` (alpha_g_physics), `analysis` (binaries)). The sandbox has NO network: always pass `--offline` to cargo and `export CARGO_TARGET_DIR={wt}/target`. Work ONLY inside {wt} and {out}; never touch /repo or /verif (do not read /verif either). Do not use `git stash` (the worktree shares its git directory with other worktrees).

Here is a semantic property the project satisfies:

ID: {p['id']} — {p['title']}
Statement: {p['statement']}
Code anchors: {json.dumps(p['anchors'].get('files'))}
Mechanisms: {json.dumps(p['anchors'].get('mechanism'))}

Your job: produce {n} DIFFERENT behaviour-PRESERVING refactors of the code this property is about (the anchored functions, or the helpers / tables / accessors they use). Each is the kind of change a maintainer makes for readability, style or modest performance and that provably leaves the observable behaviour — and therefore the property — completely unchanged for EVERY input: same results, same errors in the same cases, panics possible in exactly the same cases. Make the {n} refactors differ in kind and touch different functions where possible. Ideas (use others too): reorder independent statements or independent side-effect-free `&&` / `||` operands; `if`/`else` <-> `match` <-> early return <-> `let .. else`; `a < b` <-> `b > a`; `x == c` <-> `c == x`; a `for` loop with an early return <-> `iter().find/position/any/all`; an iterator chain <-> an explicit loop with `push`; `iter().take(n)` <-> `[..n].iter()`; `match opt {{..}}` <-> `map/ok_or/?/unwrap_or`; extract a small private helper function or method, or inline one; introduce or remove a local / a named constant; algebraically identical integer arithmetic that cannot overflow differently; `&x[a..][..n]` <-> `&x[a..a+n]` where in-range; a mask test written with a shift instead; `u32::from(x)` <-> `x.into()`; a tuple <-> two locals; struct-update or field-init shorthand; change the order of `match` arms that do not overlap. Each refactor must change executable code inside the anchored functions (not only comments, whitespace or renames), should be substantial enough to be worth a commit (typically 5-30 changed lines), and must keep the full test suite passing. Be careful and conservative: if you are not sure it is exactly equivalent for all inputs (including error precedence, integer overflow in debug builds, char boundaries, empty inputs), pick another refactor.

For each refactor j = 1..{n}:
 1. Start from a clean tree (`git -C {wt} checkout -- . && git -C {wt} clean -fdq -e target`).
 2. Make the change. Run `cargo test --workspace --offline` and confirm all tests pass (372 unit tests + doctests).
 3. Save `git -C {wt} diff` as `{out}/benign{{j}}/patch.diff` plus `{out}/benign{{j}}/README.md` with a short argument why behaviour is identical for every input.
Finally restore the worktree to a clean state (keep `target/`), and reply with a short summary (under 200 words) listing for each refactor: file/function changed and a one-line description.""")
