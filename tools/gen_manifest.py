#!/usr/bin/env python3
"""Regenerate /verif/MANIFEST.json from the table below (claimed checks = rule packs that exist)."""
import json
import os

V = "/verif"
props = [json.loads(l) for l in open(os.path.join(V, "properties.jsonl"))]

CLAIMS = {
    "C01": dict(level="proof", design="§0.1, §5 C01",
                text="Panic-obligation analysis of the dev-profile MIR of every body of the detector crate except derive/fmt impls and lazy_static initialisers (decoders, id conversions, bank-name parsers, map lookups, accessors, closures; inputs unconstrained): every MIR Assert (bounds/overflow/div), every std call with a documented panic condition (unwrap, index, copy_from_slice, split_at, from_str_radix, sum, with_capacity, operator traits, ...), every explicit panic and every loop is an obligation that must be discharged for ALL inputs from dominating guard atoms (or on every acyclic path), symbol ranges, constructor-census type invariants and exact linear arithmetic; an undischarged obligation or an unmodelled external callee is a violation naming the site. The thorough tier also runs 107 engine controls (functions with a known verdict).",
                note="Trusted: rustc MIR construction, the documented panic conditions / audited-total list of std callees, crc32c and winnow contracts, five audited implications whose premises are re-checked on every run (DESIGN §0.1). Decides panic/overflow/termination freedom; says nothing about which inputs are accepted (C02-C07). lazy_static initialisers are census only.",
                technique="static analysis: panic-site obligations over MIR discharged by guard atoms, reaching-definition value naming, interval + Fourier-Motzkin arithmetic and constructor-census type invariants"),
    "C02": dict(level="other", design="§5 C02",
                text="Accept-path description of AdcV3Packet::try_from extracted from MIR (guard atoms on the Ok paths, provenance of every stored field as (offset,width,endianness,sign)) compared with the documented byte table and the property's decision table; accessor pass-through and wrapper forwarding by all-returns analysis.",
                note="Decides layout/guard structure (necessary conditions of exact decoding); arithmetic equivalence of the floor-mean is checked on term shape.",
                technique="MIR dataflow: field provenance + guard-atom census on accept paths"),
    "C03": dict(level="other", design="§5 C03",
                text="Region analysis of Chunk::try_from: the CRC-32C'd regions and the compared CRC words must tile [0,len) and both comparisons must guard the Ok path with the inverted CRC; accept atoms (length, alignment, flags, chunk-length window, zero padding) and field provenance vs the documented layout; writer/reader agreement of header_crc32c()/payload_crc32c().",
                note="CRC-32C's error-detection strength itself is trusted (property of the polynomial/crate); decided: no accepted byte escapes a CRC and both comparisons are on the accept path.",
                technique="MIR dataflow: slice-region provenance + dominance of CRC guards"),
    "C04": dict(level="other", design="§5 C04",
                text="Dominance and dataflow-shape rules on the MIR of the reassembly function: every order-dependent use of the chunk vector is dominated by a sort keyed on chunk_id; pre-sort uses are permutation-invariant predicates; dense-id, end-of-message, equal-size and non-empty guards dominate the Ok return; decoded bytes are the in-order concatenation of payloads and the result is returned unchanged.",
                note="Trusted: std sort/iterator semantics. The rules are necessary structural conditions; together with unique keys on the accept path they imply order independence.",
                technique="CFG dominance + symbolic def-use terms (typestate: sorted-before-positional-use)"),
    "C05": dict(level="other", design="§5 C05",
                text="Field provenance and accept atoms of PwbV2Packet::try_from vs the documented little-endian layout; bit-79 guards; ChannelId readout-index bijection by piecewise-affine partition; data-length equation and per-channel guards; sibling agreement between the decoder's bytes_per_channel and waveform_at's index arithmetic.",
                note="Mask->list equality rests on the recognised leading_zeros loop shape (audited implication).",
                technique="MIR dataflow: field provenance, guard atoms, polynomial comparison of sibling index formulas"),
    "C06": dict(level="proof", design="§5 C06",
                text="Bit-level account of the single accept path of TrgV3Packet::try_from: every one of the 640 input bits is stored in a field, forced by a guard, or tied by an equality; forced set compared bit-for-bit with the property's reserved/mark set; ordering guards with strictness; accessor pass-through.",
                note="Trusted: rustc MIR, from_le_bytes/try_into summaries.",
                technique="abstract interpretation with per-bit provenance over a straight-line decoder"),
    "C07": dict(level="other", design="§5 C07",
                text="The winnow combinator tree of chronobox_fifo is reconstructed from resolved calls and types; width analysis (every alternative of fifo_entry consumes 4 bytes, scalers_block 244), classification constants and masks, backtracking-only combinators (the unwrap cannot fail), in-order accumulation.",
                note="Longest-prefix / remainder / split-invariance as behaviours rest on winnow's checkpoint contract (trusted); decided: the grammar widths, constants, totality and order.",
                technique="grammar reconstruction from MIR + width/constant analysis"),
    "C08": dict(level="other", design="§5 C08",
                text="Literal-table checks on the typed constants (uniqueness, permutations, cross-table membership, device_id = le32(mac[0..4])); run-number dispatch tables of every map/calibration function (simulation cell = cell of run 5000, no gap, no shadowed arm, below-first-map => error); bank-name grammar atoms; wire/pad index arithmetic constants; the (chip, channel) -> (pad column, pad row) table built by the INV_PADS_0 loop nest is total, injective and onto 4 x 72 (path formulas of the loop body evaluated over the finite iteration domain); equality / hashing / ordering impls of the detector crate's identity types are derived or call only comparison and hashing on their fields.",
                note="Numerical phi/z values of the position accessors and the physical correctness of table entries / run-number thresholds are not decided.",
                technique="constant-table analysis + dispatch-partition analysis of switchInt/compare chains + guard atoms; callee census of the identity types' Eq/Hash/Ord impls"),
    "C09": dict(level="proof", design="§5 C09",
                text="Event assembly (MainEvent::try_from_banks, timestamp and the physics functions they reach): every MIR Assert, panicking std call, explicit panic and loop is discharged as in C01, using constructor-census type invariants and three audited implications (Some-unless-empty, member lookup, table values); detector callees are delegated to C01 (inputs unconstrained there). Reconstruction kernels (avalanches, vertex): the same obligations are collected; the kernel functions that are fully discharged today (committed list) must stay fully discharged; for the others the undischarged integer/index/unwrap sites are counted per function and class on the pinned tree and a count above the committed census is reported (a discharged site stays discharged); the pad centroid is only computed for a strict local maximum (no ln(1)=0 in the denominator, hence no NaN z reaching DriftTables::at); result discipline of try_from_banks.",
                note="Proof level holds for event assembly only. In the kernels the float pipeline (Cholesky/argmin unwraps, partial_cmp, NaN asserts) is a census of undecided sites, and 63 integer/index sites in 19 kernel functions (loop-carried indices, table-shape dependent lookups, values flowing through local collections) are undecided by this analysis: no panic-freedom claim is made for avalanches()/vertex().",
                technique="abstract interpretation of MIR (guard atoms + interval/Fourier-Motzkin prover) with constructor-census type invariants; per-function obligation census for the kernels; dominating-guard comparison for the centroid"),
    "C10": dict(level="other", design="§5 C10",
                text="Dataflow-shape rules on try_from_banks: slot index term = position map of the packet's own (board,channel)/(board,chip,channel); name/payload agreement guards; duplicate guards dominate stores; calibration expression (elem - baseline) * gain after skip(delay) with same-kind lookups at the same position; bank-kind action table; TRG timestamp pass-through; call-graph rule on the 11 lazy calibration tables (no table initialiser reads another table; MAP_<tag> built from BYTES_<tag>) and on the four element lookups (a missing entry is an error, never a default).",
                note="Numerical equality of samples follows from the expression shape and IEEE arithmetic (not separately analysed); calibration file contents trusted.",
                technique="symbolic def-use terms + dominance on the event-assembly function; resolved call graph of the calibration table initialisers"),
    "C11": dict(level="other", design="§5 C11",
                text="Census of every iteration over std HashMap/HashSet in the workspace classified by sink (commutative vs order-leaking; slot stores inside such a loop must be test-and-set per slot, the set not skippable after the test); loop-carried state of the bank loop; nondeterminism-source census (rand/time/thread/env/pointer casts) in the event closure; faer Parallelism::None.",
                note="Bit-for-bit float reproducibility given identical operation order is a hardware/libm property (trusted).",
                technique="type-resolved call census + sink classification + loop-carried-state analysis"),
    "C13": dict(level="other", design="§5 C13",
                text="Necessary structural conditions of the rotation/mirror symmetry, decided exhaustively on the finite index domains: complete input/output tables of wire_to_pad_column (256 wires), pad_column_to_wires (32 columns), range_to_indices/range_to_len (all 65k block descriptors) and TpcPadRow::z (576 rows), obtained by evaluating the formulas of every return path; rotation equivariance / inverse / cyclic-order / antisymmetry relations checked on those tables; label and column wiring of avalanches(), wire_range_deconvolution, y_matrix by term shape; symbolic shift-invariance (Toeplitz) and symmetry of the induction-matrix index; ring-distance coupling of a full-ring block; the three-row window of pad_hits_at_t (seeds, one-row slide on every iteration, hit built from the window) by dominance and reaching definitions; the two-cursor block scan of contiguous_ranges (cursor updates and push with their guards, role vocabulary); fresh per-column scratch state in avalanches().",
                note="Bit-identical equivariance of the floating-point kernels, a scan of contiguous_ranges that is not in the two-cursor form and the mirror image of the centroid formula in floating point are NOT decided. Known finding F7: a block covering all 256 wires is solved with a Toeplitz (non-circulant) induction matrix, so the full-ring case of the property fails (KNOWN-FINDING line; demo findings/f7_full_ring_rotation.rs).",
                technique="finite-domain evaluation of extracted path formulas (complete function tables) + symbolic substitution on index polynomials + def-use term shape"),
    "C14": dict(level="other", design="§5 C14",
                text="NaN-guard dominance: divisions by h in Helix::closest_t dominated by the |h| >= eps edge; collinearity and theta==0 guards in the initial-guess code; constant agreement min cluster size >= 3; Track::try_from error discipline; t range (C16).",
                note="That NaN never reaches the cost functions / sorts is NOT decided (continuous numerics).",
                technique="CFG dominance of float-division guards + constant agreement"),
    "C15": dict(level="other", design="§5 C15",
                text="Thresholds passed by the public wrappers (13 points, 3 cm), push of a Cluster dominated by the size guard, who-may-construct Cluster, primary vertex built only behind the >1-track filter; SpacePoint::distance is the Euclidean distance (x = r cos phi, y = r sin phi); the flood fill of largest_cluster as two cursors with their updates and guards (role vocabulary); the Hough accumulator's add / remove_unchecked bookkeeping (the point itself, the position of the equal element, bins of get_bins(point)); remainder bookkeeping and the one-cluster-per-track loop of beamline_clusters.",
                note="Partition/conservation over all multisets is NOT decided (dynamic container reasoning).",
                technique="who-may-construct census + dominance + constant-argument check + loop-carried cursor tables and value formulas compared with a spec"),
    "C16": dict(level="other", design="§5 C16",
                text="all-returns analysis of Helix::closest_t (under |h| < eps the signed angle atan2(cross, dot) at the circle's centre between the t = 0 point and the query point, else clamp(-PI,PI) of the stationary-point expression); the Kepler mechanism (mean anomaly, eccentricity from the distance to the helix axis, residual, Newton step, stop criterion, start values) equals the stationarity condition of the distance; field writers of Track.t_inner/t_outer and VertexInfo.tracks are closest_t results on the right helix and the fitted position.",
                note="Decides 'in [-pi,pi] or NaN' and 'the equation solved is the stationarity condition'; never-NaN, convergence of the Newton iteration and global minimality within 1e-9 m are NOT decided.",
                technique="all-returns provenance with dominating guards + field-writer census + comparison of extracted formulas (helpers expanded, role vocabulary) with the derived equation"),
    "C18": dict(level="other", design="§5 C18",
                text="Guard/value tables of DriftTables::at, DriftTable::at and SpacePoint::try_from (range guards with strictness and error variants, slice and bracket choice, linear interpolation, phi - correction), z used only through abs() (non-interference), and the clauses that depend on the embedded drift table itself (ascending bounds and times, non-increasing radius, < 0.5 mm step per 8 ns, non-negative correction), read from the byte constant the table is deserialised from.",
                note="Known finding F6: 135 adjacent knots of the embedded table differ by 0.5 mm or more (reported as KNOWN-FINDING lines). Ulp-level interpolation arithmetic is not analysed.",
                technique="guard/value table comparison + def-use non-interference + static analysis of the embedded data table"),
    "C19": dict(level="other", design="§5 C19",
                text="sort_run_files dominance and internals (sort key, run-number and duplicate guards, extension match), one-row-per-main-event pipeline shape (filter/map/scan returning Some on all paths), ordered rayon API allow-list, wrapping_sub time arithmetic, sibling agreement of the two binaries, declared columns (names, order, types) of the serialised Row structs.",
                note="Byte-identical output across thread counts rests on rayon's ordering contract (trusted); lz4/CSV formatting not analysed.",
                technique="pipeline-shape analysis over resolved iterator/rayon calls + all-returns + dominance"),
    "C20": dict(level="other", design="§5 C20",
                text="Validate-before-write dominance (File::create after the collect ? of all boards; ensure!(input.is_empty()), epoch-0 marker, top-bit guard), chronobox_time accept atoms and formula, stream assembly (event id, bank name as the only condition on an appended bank, BTreeMap), element conservation in the row loop (split_last arms), row fields and the declared columns (names, order, types) of the serialised Row struct.",
                note="Equality with true edge times over all hardware histories is NOT decided.",
                technique="CFG dominance + term-shape comparison + pattern-arm conservation"),
}

NA = {
    "C12": "statistical accuracy bound (percentiles of |dz| over a population from an external forward model) on a numerical pipeline; nothing in the shape of the code bounds those quantities — no sound static argument in reach",
    "C17": "numerical equivalence of an optimised float loop with its definition, exact power-of-two covariance and recovery tolerances are relations between numerical executions; a static sign domain loses the residuals at the first subtraction",
}

checks = []
na = []
for p in props:
    pid = p["id"]
    pack = os.path.join(V, "agvlib", "rules", pid.lower() + ".py")
    if pid in CLAIMS and os.path.exists(pack):
        c = CLAIMS[pid]
        checks.append({
            "property_id": pid,
            "quick_cmd": "./agv check %s --tier quick" % pid,
            "thorough_cmd": "./agv check %s --tier thorough" % pid,
            "evidence_file": "/verif/evidence/%s.json" % pid,
            "replay_cmd_template": "./agv explain {path}",
            "engine": "agv",
            "level_claimed": {"category": c["level"], "text": c["text"], "design_ref": "DESIGN.md " + c["design"]},
            "level_note": c["note"],
            "technique": "static analysis: " + c["technique"],
        })
    elif pid in NA:
        na.append({"property_id": pid, "reason": NA[pid]})
    else:
        na.append({"property_id": pid, "reason": "static check designed (DESIGN.md §5 %s) but its rule pack is not built yet; not claimed" % pid})

m = {
    "version": 1,
    "setup_cmd": "./agv setup",
    "hooks": {
        "guard": "alpha_g_verif",
        "enable": "none needed: the analysis reads the type-checked program (MIR) of /repo's working tree; no hook commits exist",
        "baseline_off_cmd": "cd /repo && cargo test --workspace --no-fail-fast --offline",
        "source_commits": [],
        "add_only": True,
    },
    "engines": [{
        "name": "agv", "path": "/verif/agv",
        "serves_properties": [c["property_id"] for c in checks],
        "kind_free_text": "repo-specific static analyser: rustc_private driver (tools/driver) dumping resolved MIR / type / constant facts of the whole workspace from /repo's current tree; Python rule packs (agvlib/rules) built on CFG dominance, symbolic def-use terms, call-graph census and an abstract interpreter",
    }],
    "checks": checks,
    "not_applicable": na,
    "notes": "All checks are static: they never execute /repo's code. `./agv check Cxx` rebuilds facts from /repo's working tree whenever its content hash changes. Known findings: /verif/known_findings.json.",
}
json.dump(m, open(os.path.join(V, "MANIFEST.json"), "w"), indent=1)
print("checks:", [c["property_id"] for c in checks])
print("not_applicable:", [n["property_id"] for n in na])
