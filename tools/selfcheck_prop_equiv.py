#!/usr/bin/env python3
"""Self-check of accept.prop_equivalent against brute-force truth tables on random DNFs over five atoms of the canonical
vocabulary (development aid, run by tools/regress.sh): it must never call two inequivalent formulas equivalent."""
import itertools, os, random, sys
sys.path.insert(0, os.path.dirname(os.path.dirname(os.path.abspath(__file__))))
from agvlib import accept
random.seed(7)
VARS = ["a == 0", "b >= 0", "bit c = 1", "pred d True", "e is Some"]


def rand_dnf():
    rows = []
    for _ in range(random.randint(0, 4)):
        vs = random.sample(VARS, random.randint(0, 3))
        rows.append(frozenset(random.choice([v, accept.complement(v)]) for v in vs))
    return rows


def ev(dnf, asg):
    for r in dnf:
        ok = True
        for a in r:
            for v in VARS:
                if a == v:
                    ok &= asg[v]
                elif a == accept.complement(v):
                    ok &= not asg[v]
        if ok:
            return True
    return False


unsound = incomplete = 0
for _ in range(4000):
    A, B = rand_dnf(), rand_dnf()
    truth = all(ev(A, dict(zip(VARS, bits))) == ev(B, dict(zip(VARS, bits))) for bits in itertools.product([False, True], repeat=len(VARS)))
    got = accept.prop_equivalent(A, B)
    unsound += got and not truth
    incomplete += truth and not got
print("prop_equivalent self-check: %d unsound, %d incomplete of 4000" % (unsound, incomplete))
sys.exit(1 if unsound else 0)
