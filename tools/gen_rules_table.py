#!/usr/bin/env python3
"""Rewrite the rule table of DESIGN.md §5.0 from the current evidence files."""
import glob, json, os, re
V = os.path.dirname(os.path.dirname(os.path.abspath(__file__)))
rows = []
for f in sorted(glob.glob(os.path.join(V, "evidence", "C*.json"))):
    d = json.load(open(f))
    for k, v in d["coverage"]["rules"].items():
        rows.append("| %s | %s | %d / %d |" % (k, v["desc"].replace("|", "\\|"), v["instances"], v["floor"]))
tab = "| rule | what it checks (as built) | instances today / floor |\n|---|---|---|\n" + "\n".join(rows) + "\n"
p = os.path.join(V, "DESIGN.md")
s = open(p).read()
a = s.index("| rule | what it checks (as built) | instances today / floor |")
b = s.index("\nDifferences from the plan that apply to several subsections")
s = s[:a] + tab + s[b:]
open(p, "w").write(s)
print(len(rows), "rules")
