#!/usr/bin/env python3
"""Systematic mutation scan of the anchored functions (development tool, not a MANIFEST check).

For every target region, apply one small source mutation at a time (relational operator, boolean connective,
integer literal +-1, hex mask bit, byte order, +/-), rebuild the facts for the mutated scratch copy and run the checks
that cover the file.  A mutant that does not compile is discarded; one that no check reports is a *survivor* and is
written to <out>/survivors/ for triage (equivalent mutant, killed by the test suite, or a gap of the checks).

usage: mutscan.py <out-dir> [-jN] [--limit N] [--only <substring of file>]
"""
import json
import os
import random
import re
import subprocess
import sys
import tempfile
from concurrent.futures import ThreadPoolExecutor

VERIF = os.path.dirname(os.path.dirname(os.path.abspath(__file__)))
sys.path.insert(0, VERIF)
from agvlib import selftest  # noqa

# file -> (checks that cover it, [(first line, last line)] regions = anchored functions)
TARGETS = {
    "detector/src/alpha16.rs": (["C01", "C02", "C08", "C09", "C10"], [(680, 900)]),
    "detector/src/padwing.rs": (["C01", "C03", "C04", "C05", "C08", "C09", "C10", "C11"], [(560, 680), (1320, 1500), (1535, 1600)]),
    "detector/src/trigger.rs": (["C01", "C06"], [(462, 612)]),
    "detector/src/chronobox.rs": (["C01", "C07", "C20"], [(60, 200)]),
    "detector/src/midas.rs": (["C01", "C08", "C10"], [(130, 560)]),
    "detector/src/alpha16/aw_map.rs": (["C01", "C08", "C09", "C10"], [(100, 195)]),
    "detector/src/padwing/map.rs": (["C01", "C08", "C09", "C10"], [(100, 130), (180, 200), (380, 392), (560, 640)]),
    "physics/src/lib.rs": (["C09", "C10", "C11", "C13", "C18"], [(116, 140), (240, 380)]),
    "physics/src/drift.rs": (["C09", "C18"], [(20, 72)]),
    "detector/src/alpha16.rs#rest": (["C01", "C02", "C08"], [(40, 679), (900, 1300)]),
    "detector/src/padwing.rs#rest": (["C01", "C03", "C04", "C05", "C08"], [(40, 559), (681, 1319), (1601, 2040)]),
    "detector/src/trigger.rs#rest": (["C01", "C06"], [(90, 461), (613, 900)]),
    "detector/src/chronobox.rs#rest": (["C01", "C07", "C08", "C20"], [(200, 340)]),
    "detector/src/alpha16/aw_map.rs#rest2": (["C01", "C08", "C09", "C10"], [(1, 99), (196, 400)]),
    "detector/src/padwing/map.rs#rest2": (["C01", "C08", "C09", "C10"], [(1, 99), (131, 179), (201, 379), (393, 559), (641, 900)]),
    "physics/src/lib.rs#rest2": (["C09", "C10", "C11", "C15", "C18"], [(1, 115), (141, 239), (381, 470)]),
    "physics/src/matching.rs": (["C08", "C09", "C10", "C13"], [(1, 130)]),
    "physics/src/deconvolution/wires.rs": (["C09", "C13"], [(1, 200)]),
    "physics/src/calibration/pads/gain.rs": (["C08", "C10"], [(1, 80)]),
    "physics/src/calibration/pads/baseline.rs": (["C08", "C10"], [(1, 80)]),
    "physics/src/calibration/pads/delay.rs": (["C08", "C10"], [(1, 60)]),
    "physics/src/calibration/wires/gain.rs": (["C08", "C10"], [(1, 80)]),
    "physics/src/calibration/wires/baseline.rs": (["C08", "C10"], [(1, 80)]),
    "physics/src/calibration/wires/delay.rs": (["C08", "C10"], [(1, 60)]),
    "physics/src/reconstruction.rs": (["C09", "C14", "C16"], [(140, 260)]),
    "physics/src/reconstruction/track_finding.rs": (["C09", "C11", "C14", "C15"], [(20, 210)]),
    "physics/src/reconstruction/track_fitting.rs": (["C09", "C14", "C16"], [(20, 200)]),
    "physics/src/reconstruction/vertex_fitting.rs": (["C09", "C14", "C15", "C16"], [(20, 190)]),
    "analysis/src/lib.rs": (["C19", "C20"], [(1, 200)]),
    "analysis/src/bin/alpha-g-chronobox-timestamps/main.rs": (["C20"], [(30, 230)]),
    "analysis/src/bin/alpha-g-vertices/main.rs": (["C19"], [(40, 180)]),
    "analysis/src/bin/alpha-g-trg-scalers/main.rs": (["C19"], [(40, 200)]),
}

REL = [(" < ", " <= "), (" <= ", " < "), (" > ", " >= "), (" >= ", " > "), (" == ", " != "), (" != ", " == ")]


def mutants_of_line(line):
    """[(description, new line)]"""
    out = []
    code = line.split("//")[0]
    if not code.strip() or code.strip().startswith(("#", "///", "use ", "pub use", "mod ")):
        return out
    if "--no-table-rows" in sys.argv and re.match(r"^\s*[\(\[]\s*[\"\[\d]", code):
        return out      # literal table rows: entries can only be checked for internal consistency
    # payload fields of error values are not part of any property (only accept / reject / decoded fields are)
    if re.match(r"^\s*(found|expected|min_expected|max_expected|min|max|limit|header|footer|value|input|position|run_number|board_id|bank_name)\s*:", code) \
            or re.match(r"^\s*(found|expected|min_expected|max_expected)\b", code.strip()):
        return out
    for a, b in REL:
        for m in re.finditer(re.escape(a), code):
            out.append(("%s->%s" % (a.strip(), b.strip()), line[:m.start()] + b + line[m.end():]))
    for a, b in ((" && ", " || "), (" || ", " && ")):
        for m in re.finditer(re.escape(a), code):
            out.append(("%s->%s" % (a.strip(), b.strip()), line[:m.start()] + b + line[m.end():]))
    for m in re.finditer(r"(?<![\w.])(\d+)(?![\w.]|\s*=>)", code):
        n = int(m.group(1))
        if n > 70000:
            continue
        for d in (1, -1):
            if n + d < 0:
                continue
            out.append(("%d->%d" % (n, n + d), line[:m.start(1)] + str(n + d) + line[m.end(1):]))
    for m in re.finditer(r"0x([0-9A-Fa-f_]+)", code):
        v = int(m.group(1).replace("_", ""), 16)
        if v == 0:
            continue
        low = v & -v
        high = 1 << (v.bit_length() - 1)
        for nv, what in ((v ^ low, "clear-low-bit"), (v ^ high, "clear-high-bit"), (v | (high << 1), "set-next-bit")):
            out.append(("0x%X %s" % (v, what), line[:m.start()] + ("0x%X" % nv) + line[m.end():]))
    for a, b in (("from_le_bytes", "from_be_bytes"), ("from_be_bytes", "from_le_bytes")):
        if a in code:
            out.append(("%s->%s" % (a, b), line.replace(a, b, 1)))
    for a, b in ((" + ", " - "), (" - ", " + ")):
        for m in re.finditer(re.escape(a), code):
            out.append(("%s->%s" % (a.strip(), b.strip()), line[:m.start()] + b + line[m.end():]))
    m = re.search(r"\bif !", code)
    if m:
        out.append(("drop-negation", line[:m.start()] + "if " + line[m.end():]))
    return out


def structural_mutants(src, i):
    """second operator set: disable an early-return guard, drop an adapter line of an iterator chain, swap a tuple
    field index, drop a `?`-less statement such as a flag assignment"""
    out = []
    line = src[i]
    code = line.split("//")[0]
    st = code.strip()
    # `if cond {` whose block starts with `return Err(`  ->  `if false {`
    if re.match(r"^\s*(\} else )?if .*\{\s*$", code) and i + 1 < len(src) and src[i + 1].strip().startswith("return Err("):
        ind = re.match(r"^(\s*)", line).group(1)
        prefix = "} else " if st.startswith("} else") else ""
        out.append(("guard-disabled", ind + prefix + "if false {"))
    # a lone adapter line in an iterator chain
    if re.match(r"^\.(skip|rev|take|filter|skip_while|take_while|copied|cloned)\(.*\)\s*$", st):
        out.append(("adapter-dropped", re.match(r"^(\s*)", line).group(1)))
    # tuple field index
    for m in re.finditer(r"\.([01])\b(?!\.\d)", code):
        if re.search(r"\d\.[01]\b", code[max(0, m.start() - 2):m.end()]):
            continue   # float literal
        other = "1" if m.group(1) == "0" else "0"
        out.append(("tuple-index .%s->.%s" % (m.group(1), other), line[:m.start(1)] + other + line[m.end(1):]))
    # plain flag / slot assignment statement
    if re.match(r"^[A-Za-z_][\w\[\]\.]*\s*=\s*(true|false|Some\(.*\));$", st):
        out.append(("assignment-dropped", re.match(r"^(\s*)", line).group(1)))
    return out


def make_patches(outdir, only=None, limit=None, seed=1):
    allm = []
    structural = "--structural" in sys.argv
    for f, (checks, regions) in TARGETS.items():
        if only and not any(o in f for o in only.split(",")):
            continue
        f = f.split("#")[0]
        src = open(os.path.join("/repo", f)).read().split("\n")
        in_test = False
        for (lo, hi) in regions:
            for i in range(lo - 1, min(hi, len(src))):
                cands = structural_mutants(src, i) if structural else mutants_of_line(src[i])
                for desc, new in cands:
                    if new != src[i]:
                        allm.append((f, i, desc, new, checks))
    random.Random(seed).shuffle(allm)
    if limit:
        allm = allm[:limit]
    os.makedirs(os.path.join(outdir, "patches"), exist_ok=True)
    out = []
    for k, (f, i, desc, new, checks) in enumerate(allm):
        src = open(os.path.join("/repo", f)).read().split("\n")
        old = src[i]
        ctx_lo, ctx_hi = max(0, i - 3), min(len(src), i + 4)
        patch = ["--- a/%s" % f, "+++ b/%s" % f, "@@ -%d,%d +%d,%d @@" % (ctx_lo + 1, ctx_hi - ctx_lo, ctx_lo + 1, ctx_hi - ctx_lo)]
        for j in range(ctx_lo, ctx_hi):
            if j == i:
                patch.append("-" + old)
                patch.append("+" + new)
            else:
                patch.append(" " + src[j])
        p = os.path.join(outdir, "patches", "m%04d.patch" % k)
        with open(p, "w") as fh:
            fh.write("# expect: none\n" + "\n".join(patch) + "\n")
        out.append({"id": "m%04d" % k, "patch": p, "file": f, "line": i + 1, "mutation": desc, "old": old.strip(), "new": new.strip(), "checks": checks})
    return out


def run_one(m):
    try:
        r = selftest.run_patch(m["patch"], m["checks"])
    except SystemExit as e:
        return dict(m, status="no-compile", detail=str(e)[:200])
    except Exception as e:
        return dict(m, status="error", detail=repr(e)[:200])
    if "error" in r:
        return dict(m, status="error", detail=r["error"][:200])
    fired = sorted(r["fired"])
    allkeys = [x for v in r["fired"].values() for x in v]
    if allkeys and all(".build|" in x for x in allkeys):
        return dict(m, status="no-compile")
    internal = sorted(set(x for x in allkeys if ".internal|" in x))
    return dict(m, status="fired" if fired else "survived", fired=fired, internal=internal)


def main(argv):
    outdir = argv[0]
    jobs, limit, only = 8, None, None
    for i, a in enumerate(argv):
        if a.startswith("-j"):
            jobs = int(a[2:])
        if a == "--limit":
            limit = int(argv[i + 1])
        if a == "--only":
            only = argv[i + 1]
    ms = make_patches(outdir, only, limit)
    print("%d mutants" % len(ms), flush=True)
    res = []
    with ThreadPoolExecutor(max_workers=jobs) as ex:
        for k, r in enumerate(ex.map(run_one, ms)):
            res.append(r)
            if (k + 1) % 25 == 0:
                c = {}
                for x in res:
                    c[x["status"]] = c.get(x["status"], 0) + 1
                print(k + 1, c, flush=True)
    json.dump(res, open(os.path.join(outdir, "results.json"), "w"), indent=1)
    c = {}
    for x in res:
        c[x["status"]] = c.get(x["status"], 0) + 1
    print("TOTAL", c)
    for x in res:
        if x["status"] == "survived":
            print("SURVIVOR %s %s:%d [%s]  %s  =>  %s" % (x["id"], x["file"], x["line"], x["mutation"], x["old"][:70], x["new"][:70]))


if __name__ == "__main__":
    main(sys.argv[1:])
