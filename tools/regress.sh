#!/bin/bash
# quick regression after an engine change: every check on the unchanged tree + the engine controls
cd "$(dirname "$0")/.."
rc=0
for c in C01 C02 C03 C04 C05 C06 C07 C08 C09 C10 C11 C13 C14 C15 C16 C18 C19 C20; do
  out=$(./agv check $c 2>&1); r=$?
  if [ $r -ne 0 ]; then echo "$out" | tail -3; rc=1; fi
done
./agv controls 2>&1 | grep -v "^ok" | tail -8
./agv controls > /dev/null 2>&1 || rc=1
python3 tools/selfcheck_prop_equiv.py || rc=1
echo "regress rc=$rc"
exit $rc
