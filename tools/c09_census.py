#!/usr/bin/env python3
"""Regenerate tables/c09_decided.json: the kernel functions (closures folded in) whose panic obligations are all
discharged today.  Review the diff: a function may only leave the list for a stated reason."""
import json, os, sys
sys.path.insert(0, os.path.dirname(os.path.dirname(os.path.abspath(__file__))))
from agvlib import facts
from agvlib.rules import c09
prog = facts.load()
sa, _ = c09.physics_scope(prog, c09.ASSEMBLY)
sk, _ = c09.physics_scope(prog, c09.KERNELS, exclude=set(sa.bodies))
got = c09.kernel_census(prog, sk)
dec = {f: g["obligations"] for f, g in sorted(got.items()) if g["obligations"] and not g["open"]}
json.dump({"note": "kernel functions with at least one panic obligation, all discharged (value = number of obligations when listed)",
           "functions": dec}, open(c09.DECIDED, "w"), indent=1, sort_keys=True)
print(len(dec), "decided of", len(got), "top-level kernel functions")
for f, g in sorted(got.items()):
    if g["open"]:
        print("  undecided", f, g["open"])
