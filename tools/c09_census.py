#!/usr/bin/env python3
"""Regenerate tables/c09_census.json: the kernel obligations the analysis cannot decide today (review the diff!)."""
import json, os, sys
sys.path.insert(0, os.path.dirname(os.path.dirname(os.path.abspath(__file__))))
from agvlib import facts
from agvlib.rules import c09
prog = facts.load()
sa, _ = c09.physics_scope(prog, c09.ASSEMBLY)
sk, _ = c09.physics_scope(prog, c09.KERNELS, exclude=set(sa.bodies))
got, tot = c09.kernel_census(prog, sk)
out = {}
for p, g in sorted(got.items()):
    out[p] = {k: v for k, v in sorted(g.items()) if k != "_where" and not k.endswith("/float")}
    if not out[p]:
        del out[p]
json.dump({"note": "undecided integer/index/loop obligations per kernel function (count per kind); float-pipeline sites are not listed",
           "functions": out}, open(c09.CENSUS, "w"), indent=1, sort_keys=True)
print(dict(tot), sum(sum(v.values()) for v in out.values()), "integer sites in", len(out), "functions")
