#!/usr/bin/env python3
"""Bootstrap helper for tables/spec/c19.json (committed spec = reviewed version)."""
import sys, json
sys.path.insert(0,'/verif')
from agvlib import facts
from agvlib.rules import c19
prog=facts.load()
got=c19.collect(prog)
spec={"source":"transcribed from properties.jsonl C19 in the vocabulary of agvlib/sym.py",
 "rayon_allow":["ThreadPoolBuilder::new","ThreadPoolBuilder::<S>::stack_size","ThreadPoolBuilder::<S>::num_threads","ThreadPoolBuilder::<S>::build_global","IntoParallelIterator::into_par_iter","ParallelIterator::filter","ParallelIterator::map","ParallelExtend::par_extend"]}
spec.update(got)
if '--write' in sys.argv:
    json.dump(spec,open('/verif/tables/spec/c19.json','w'),indent=1)
print(json.dumps(got,indent=1))
