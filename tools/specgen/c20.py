#!/usr/bin/env python3
"""Bootstrap helper: print/write the current tables of the C20 anchors in the spec's vocabulary.
The committed tables/spec/c20.json is the *reviewed* version (each row checked against the property text)."""
import sys, json
sys.path.insert(0,'/verif')
from agvlib import facts, accept, guards, sym
from agvlib.rules import c20
from agvlib.terms import strip, short, cname
prog=facts.load()
MAIN=c20.MAIN
INPUT="mut(Index::index(arg2.1,RangeFull{}))"
FIFO="mut(alpha_g_detector::chronobox::chronobox_fifo(INPUT))"
EPOCH="Context::context(Iterator::position(mut(<impl [T]>::iter(FIFO)),closure{2 ret}),'missing epoch 0 marker in chronobox `{name}`')"
TAIL="Vec::<T, A>::split_off(FIFO,EPOCH0?)"
BOARD="(Iterator::next(mut(Context::context(Iterator::collect(Iterator::map(mut(BTreeMap::<K, V>::new()),closure{4 ret})),'failed to parse FIFO data')?)) as Some).0"
PIECE="var<(Option<WrapAroundMarker>, &[FifoEntry])>"
TSC="((Iterator::next(mut(PIECE.1)) as Some).0 as TimestampCounter).0"
alias=[[INPUT,"INPUT"],[FIFO,"FIFO"],[EPOCH,"EPOCH0"],[TAIL,"TAIL"],[BOARD,"BOARD"],[PIECE,"PIECE"],[TSC,"TSC"]]
al=[tuple(a) for a in alias]
bc=[p for p,b in prog.bodies.items() if p.startswith(MAIN+'::{closure') and p.count('{closure')==1 and any(cname(t)==c20.FIFO for _,t in b.calls())][0]
spec={"source":"transcribed from properties.jsonl C20 in the vocabulary of agvlib/sym.py (INPUT = the board's byte buffer as advanced by chronobox_fifo, FIFO = parsed entries, EPOCH0 = index of the first counter-0 marker, TAIL = entries from that marker on, BOARD = (name, entries) of one board, PIECE = (next marker, timestamps) of one split piece, TSC = one timestamp entry)",
 "alias":alias}
spec["board_closure"]=[[a,c20.trim_fmt(v)] for a,v in accept.ret_table(prog,bc,alias=al)]
pos=[p for p in prog.bodies if p.startswith(bc+'::{closure')]
spec["epoch0_predicates"]=[json.loads(x) for x in sorted(json.dumps([[a,v] for a,v in accept.ret_table(prog,p)]) for p in pos)]
spec["chronobox_time"]=[[a,v] for a,v in accept.ret_table(prog,c20.TIME)]
b=prog.body(MAIN); an=guards.analysis(prog,b); sy=sym.Sym(prog,an,slice_param=99)
ft=[]
for bb,t in b.calls():
    if short(cname(t))=='Iterator::filter':
        c=strip(an.terms.operand(t['args'][1]))
        ft.append([[a,v] for a,v in accept.ret_table(prog,c[1][8:])])
spec["event_filter"]=ft
for bb,t in b.calls():
    if short(cname(t))=='<impl [T]>::split_inclusive':
        c=strip(an.terms.operand(t['args'][1]))
        spec["split_predicate"]=[[a,v] for a,v in accept.ret_table(prog,c[1][8:])]
    if short(cname(t))=='Writer::<W>::serialize':
        row=strip(an.terms.operand(t['args'][1]))
        names=[accept.apply_alias(sy.guarded_name(x),al) for x in row[2]]
        names[3]=c20.trim_fmt(names[3])
        spec["row"]=names
prev=[l for l in range(len(b.locals)) if sy.short_ty(b.locals[l]['ty'])=='Option<WrapAroundMarker>' and len(an.terms.defs.whole[l])==2]
spec["previous_marker_defs"]=sorted(accept.apply_alias(sy.name(an.terms.rvalue(x)),al) for (bi,si,x) in an.terms.defs.whole[prev[0]] if si!='t')
if '--write' in sys.argv:
    json.dump(spec,open('/verif/tables/spec/c20.json','w'),indent=1)
print(json.dumps({k:v for k,v in spec.items() if k not in ('alias','source')},indent=1))
