#!/usr/bin/env python3
"""confirm_seed.py <property> <seedout-dir> <worktree> [name]

Independently confirm a seeded mutation produced by a sub-agent:
  (a) with the patch applied, `cargo test --workspace --offline` passes;
  (b) with the patch applied, the demonstration fails;
  (c) without the patch, the demonstration passes.
On success copy patch.diff + demo + meta.json to /verif/seeded/<name>/.
"""
import json
import os
import re
import shutil
import subprocess
import sys

prop, sdir, wt = sys.argv[1:4]
name = sys.argv[4] if len(sys.argv) > 4 else "%s-%s" % (prop, os.path.basename(sdir.rstrip("/")))
env = dict(os.environ, CARGO_TARGET_DIR=os.path.join(wt, "target"), CARGO_NET_OFFLINE="true",
           RUST_MIN_STACK="268435456")


def sh(cmd, cwd=wt, timeout=3000):
    p = subprocess.run(cmd, shell=True, cwd=cwd, env=env, stdout=subprocess.PIPE, stderr=subprocess.STDOUT, text=True, timeout=timeout)
    return p.returncode, p.stdout


def clean():
    sh("git checkout -q -- . && git clean -fdq -e target")


patch = os.path.join(sdir, "patch.diff")
readme = open(os.path.join(sdir, "README.md")).read() if os.path.exists(os.path.join(sdir, "README.md")) else ""
demos = [f for f in sorted(os.listdir(sdir)) if f not in ("patch.diff", "README.md", "meta.json") and not f.endswith(".csv") and not f.endswith(".mid")
         and not os.path.isdir(os.path.join(sdir, f))]
ptxt = open(patch).read()
rs = [d for d in demos if d.endswith(".rs")]
scripts = [d for d in demos if d.endswith(".sh") or d.endswith(".py")]
log = {}
clean()
if rs:
    crate = "physics" if ("physics/tests" in readme or ("physics/" in ptxt and "detector/tests" not in readme)) else "detector"
    if "analysis/tests" in readme:
        crate = "analysis"
    pkg = {"physics": "alpha_g_physics", "detector": "alpha_g_detector", "analysis": "alpha-g-analysis"}[crate]
    tdir = os.path.join(wt, crate, "tests")

    def put_demo():
        os.makedirs(tdir, exist_ok=True)
        for d in rs:
            shutil.copy(os.path.join(sdir, d), os.path.join(tdir, "seed_demo_%s" % d.replace("-", "_")))
        for d in os.listdir(sdir):
            # helper modules of the demo (`mod common;` -> tests/common/mod.rs)
            if os.path.isdir(os.path.join(sdir, d)):
                shutil.copytree(os.path.join(sdir, d), os.path.join(tdir, d), dirs_exist_ok=True)
    tests = " ".join("--test seed_demo_%s" % d[:-3].replace("-", "_") for d in rs)
    demo_cmd = "cargo test --offline -p %s %s" % (pkg, tests)
elif scripts:
    demo_cmd = None
else:
    print("no demo found in", sdir)
    sys.exit(2)

# (a) suite with mutation
rc, out = sh("git apply %s" % patch)
if rc != 0:
    print("patch does not apply:", out[-500:])
    sys.exit(2)
rc, out = sh("cargo test --workspace --offline 2>&1 | grep -E '^test result|FAILED|panicked|error(\\[|:)' | head -40")
passed = sum(int(m) for m in re.findall(r"test result: ok\. (\d+) passed", out))
failed = "FAILED" in out or "error" in out
log["suite_with_mutation"] = {"passed": passed, "failed": failed, "tail": out[-600:]}
if failed or passed < 372:
    print("SUITE FAILS with mutation (passed=%d)" % passed)
    print(out[-1500:])
    clean()
    sys.exit(1)
# (b) demo with mutation
if rs:
    put_demo()
    rc_b, out_b = sh(demo_cmd + " 2>&1 | tail -40")
    fails_b = ("test result: FAILED" in out_b) or ("panicked" in out_b and "test result: ok" not in out_b) or "SIGABRT" in out_b
    log["demo_with_mutation"] = {"fails": fails_b, "tail": out_b[-800:]}
    clean()
    put_demo()
    rc_c, out_c = sh(demo_cmd + " 2>&1 | tail -40")
    pass_c = "test result: ok" in out_c and "FAILED" not in out_c
    log["demo_without_mutation"] = {"passes": pass_c, "tail": out_c[-800:]}
    clean()
    ok = fails_b and pass_c
else:
    # script demos: README documents how; run `<script> ` with the worktree as cwd / first argument
    pref = [x for x in scripts if x.startswith("demo")]
    pref = [x for x in pref if x.endswith(".sh")] or pref       # a demo.sh wrapper builds the binary and calls demo.py
    s = (pref or scripts)[0]
    runner = "bash" if s.endswith(".sh") else "python3"
    rc_b, out_b = sh("bash -o pipefail -c '%s %s %s 2>&1 | tail -40'" % (runner, os.path.join(sdir, s), wt))
    log["demo_with_mutation"] = {"rc": rc_b, "tail": out_b[-800:]}
    clean()
    rc_c, out_c = sh("bash -o pipefail -c '%s %s %s 2>&1 | tail -40'" % (runner, os.path.join(sdir, s), wt))
    log["demo_without_mutation"] = {"rc": rc_c, "tail": out_c[-800:]}
    clean()
    ok = rc_b != 0 and rc_c == 0
print(json.dumps({k: {kk: vv for kk, vv in v.items() if kk != "tail"} for k, v in log.items()}))
if not ok:
    print("NOT CONFIRMED")
    print(json.dumps(log, indent=1)[-3000:])
    sys.exit(1)
dst = os.path.join("/verif/seeded", name)
os.makedirs(dst, exist_ok=True)
shutil.copy(patch, os.path.join(dst, "patch.diff"))
for d in demos:
    shutil.copy(os.path.join(sdir, d), os.path.join(dst, d))
for d in os.listdir(sdir):
    if os.path.isdir(os.path.join(sdir, d)):
        shutil.copytree(os.path.join(sdir, d), os.path.join(dst, d), dirs_exist_ok=True)
if readme:
    shutil.copy(os.path.join(sdir, "README.md"), os.path.join(dst, "README.md"))
m = re.search(r"(?im)^#+\s*.*?(needed|needs|manifest|condition).*?\n(.+?)(\n#|\Z)", readme, re.S)
meta = {
    "property": prop,
    "name": name,
    "source": "independent sub-agent given only the property text and a scratch worktree",
    "needs_to_manifest": (m.group(2).strip()[:600] if m else "see README.md"),
    "confirmed_by": "tools/confirm_seed.py in a scratch worktree: suite with mutation passes (%d tests), demo fails with mutation, demo passes without" % passed,
    "commands": {"suite": "cargo test --workspace --offline", "demo": demo_cmd or ("%s <worktree>" % scripts[0])},
    "log": {k: {kk: vv for kk, vv in v.items() if kk != "tail"} for k, v in log.items()},
    "files_changed": sorted(set(re.findall(r"^\+\+\+ b/(\S+)", ptxt, re.M))),
}
json.dump(meta, open(os.path.join(dst, "meta.json"), "w"), indent=1)
print("CONFIRMED ->", dst)
