#!/usr/bin/env python3
"""oblig_dump.py <fn-substring>...: list the panic obligations of matching bodies with verdict and reason (development aid)"""
import sys
sys.path.insert(0, '/verif')
from agvlib import facts, oblig
prog = facts.load()
for pat in sys.argv[1:]:
    for p, b in sorted(prog.bodies.items()):
        if pat in p and "::tests::" not in p:
            ctx = oblig.Ctx(prog, b)
            obs = oblig.collect(ctx)
            print("== %s (%s): %d obligation(s)" % (p, b.where(), len(obs)))
            for o in obs:
                oblig.discharge(ctx, o)
                print("   %-5s %-6s %-40s %s  %s" % (o.verdict, o.kind, o.desc[:40], o.where, (o.how or "")[:260]))
