#!/usr/bin/env python3
"""mkmut.py <name> <expect: Cxx[,Cyy]|none> <file-relative-to-repo> <old> <new> [<file> <old> <new> ...]
Create /verif/selftest/{mutations|benign}/<name>.patch by exact, unique string replacement."""
import difflib, os, sys
name, expect = sys.argv[1], sys.argv[2]
rest = sys.argv[3:]
assert len(rest) % 3 == 0
out = []
files = {}
for i in range(0, len(rest), 3):
    f, old, new = rest[i:i+3]
    old = old.encode().decode('unicode_escape') if '\\n' in old else old
    new = new.encode().decode('unicode_escape') if '\\n' in new else new
    src = files.get(f) or open(os.path.join('/repo', f)).read()
    if src.count(old) != 1:
        sys.exit("mkmut: %r occurs %d times in %s" % (old, src.count(old), f))
    files[f] = src.replace(old, new)
for f, new in files.items():
    a = open(os.path.join('/repo', f)).read().splitlines(True)
    b = new.splitlines(True)
    out.extend(difflib.unified_diff(a, b, 'a/' + f, 'b/' + f))
d = 'benign' if expect == 'none' else 'mutations'
p = '/verif/selftest/%s/%s.patch' % (d, name)
with open(p, 'w') as fh:
    fh.write("# expect: %s\n" % expect)
    fh.writelines(out)
print(p)
