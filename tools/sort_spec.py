#!/usr/bin/env python3
"""sort_spec.py <spec.json>...: put guard/value tables of a spec file into the engine's row order (rows sorted by
(sorted guard list, value)) after guard atoms were respelled; content is unchanged"""
import json, sys
def is_row(r):
    return isinstance(r, list) and len(r) == 2 and isinstance(r[0], list) and all(isinstance(a, str) for a in r[0]) and isinstance(r[1], str)
def walk(x):
    if isinstance(x, dict):
        return {k: walk(v) for k, v in x.items()}
    if isinstance(x, list):
        x = [walk(v) for v in x]
        if x and all(is_row(r) for r in x):
            x = sorted([[sorted(r[0]), r[1]] for r in x])
        return x
    return x
for p in sys.argv[1:]:
    d = json.load(open(p))
    d2 = walk(d)
    if d2 != d:
        json.dump(d2, open(p, "w"), indent=1)
        print("sorted", p)
