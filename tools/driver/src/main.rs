// agv-driver: rustc_private driver that dumps, for one crate, a structured JSON
// description of the type-checked program: every MIR body (with resolved
// callees), ADT definitions, and evaluated constants / literal tables.
//
// Used as RUSTC_WORKSPACE_WRAPPER under `cargo +nightly check`.  One JSON file
// per rustc process is written to $AGV_FACTS_DIR/<crate>-<pid>.json (one write).
#![feature(rustc_private)]
#![allow(clippy::all)]
extern crate rustc_abi;
extern crate rustc_ast;
extern crate rustc_driver;
extern crate rustc_hir;
extern crate rustc_interface;
extern crate rustc_middle;
extern crate rustc_span;

use rustc_driver::Compilation;
use rustc_hir::def::DefKind;
use rustc_hir::def_id::{DefId, LOCAL_CRATE};
use rustc_middle::mir::{
    self, AggregateKind, BasicBlockData, Body, CastKind, Const, ConstValue, Operand, Place,
    ProjectionElem, Rvalue, StatementKind, TerminatorKind,
};
use rustc_middle::ty::{self, Instance, Ty, TyCtxt, TypingEnv};
use rustc_span::Span;
use std::fmt::Write as _;

// ---------------------------------------------------------------- JSON helpers
fn esc(s: &str) -> String {
    let mut o = String::with_capacity(s.len() + 2);
    o.push('"');
    for c in s.chars() {
        match c {
            '"' => o.push_str("\\\""),
            '\\' => o.push_str("\\\\"),
            '\n' => o.push_str("\\n"),
            '\r' => o.push_str("\\r"),
            '\t' => o.push_str("\\t"),
            c if (c as u32) < 0x20 => {
                let _ = write!(o, "\\u{:04x}", c as u32);
            }
            c => o.push(c),
        }
    }
    o.push('"');
    o
}
fn arr(items: Vec<String>) -> String {
    format!("[{}]", items.join(","))
}
fn obj(items: Vec<(&str, String)>) -> String {
    let v: Vec<String> = items.into_iter().map(|(k, v)| format!("{}:{}", esc(k), v)).collect();
    format!("{{{}}}", v.join(","))
}

struct Cx<'tcx> {
    tcx: TyCtxt<'tcx>,
}

impl<'tcx> Cx<'tcx> {
    fn fix_crate(&self, s: String) -> String {
        // `with_crate_prefix!` prints local items as `crate::..`; use the crate name instead
        if !s.contains("crate::") {
            return s;
        }
        let name = self.tcx.crate_name(LOCAL_CRATE).to_string();
        let b = s.as_bytes();
        let mut out = String::with_capacity(s.len() + 16);
        let mut i = 0;
        while i < b.len() {
            if s[i..].starts_with("crate::")
                && (i == 0 || !(b[i - 1].is_ascii_alphanumeric() || b[i - 1] == b'_'))
            {
                out.push_str(&name);
                out.push_str("::");
                i += 7;
            } else {
                let ch = s[i..].chars().next().unwrap();
                out.push(ch);
                i += ch.len_utf8();
            }
        }
        out
    }
    fn path(&self, did: DefId) -> String {
        self.fix_crate(ty::print::with_crate_prefix!(ty::print::with_no_trimmed_paths!(self.tcx.def_path_str(did))))
    }
    fn tys(&self, t: impl std::fmt::Display) -> String {
        self.fix_crate(ty::print::with_crate_prefix!(ty::print::with_no_trimmed_paths!(format!("{t}"))))
    }

    fn span_json(&self, sp: Span) -> String {
        let sm = self.tcx.sess.source_map();
        let lo = sm.lookup_char_pos(sp.lo());
        let hi = sm.lookup_char_pos(sp.hi());
        let file = format!("{}", lo.file.name.prefer_local_unconditionally());
        obj(vec![
            ("file", esc(&file)),
            ("lo", lo.line.to_string()),
            ("hi", hi.line.to_string()),
            ("exp", (sp.from_expansion()).to_string()),
        ])
    }
    fn line(&self, sp: Span) -> usize {
        let sm = self.tcx.sess.source_map();
        sm.lookup_char_pos(sp.lo()).line
    }

    // ------------------------------------------------------------ types
    fn ty_json(&self, t: Ty<'tcx>) -> String {
        self.ty_json_d(t, 0)
    }
    fn ty_json_d(&self, t: Ty<'tcx>, d: usize) -> String {
        if d > 6 {
            return obj(vec![("k", esc("deep")), ("s", esc(&self.tys(t)))]);
        }
        match t.kind() {
            ty::Bool => obj(vec![("k", esc("bool"))]),
            ty::Char => obj(vec![("k", esc("char"))]),
            ty::Int(i) => {
                let w = i.bit_width().unwrap_or(64);
                obj(vec![("k", esc("int")), ("w", w.to_string()), ("s", "true".into()), ("ptr", i.bit_width().is_none().to_string())])
            }
            ty::Uint(i) => {
                let w = i.bit_width().unwrap_or(64);
                obj(vec![("k", esc("int")), ("w", w.to_string()), ("s", "false".into()), ("ptr", i.bit_width().is_none().to_string())])
            }
            ty::Float(f) => obj(vec![("k", esc("float")), ("w", f.bit_width().to_string())]),
            ty::Str => obj(vec![("k", esc("str"))]),
            ty::Never => obj(vec![("k", esc("never"))]),
            ty::Ref(_, inner, m) => obj(vec![
                ("k", esc("ref")),
                ("m", m.is_mut().to_string()),
                ("t", self.ty_json_d(*inner, d + 1)),
            ]),
            ty::RawPtr(inner, m) => obj(vec![
                ("k", esc("ptr")),
                ("m", m.is_mut().to_string()),
                ("t", self.ty_json_d(*inner, d + 1)),
            ]),
            ty::Slice(inner) => obj(vec![("k", esc("slice")), ("t", self.ty_json_d(*inner, d + 1))]),
            ty::Array(inner, n) => {
                let n = n.try_to_target_usize(self.tcx);
                obj(vec![
                    ("k", esc("array")),
                    ("t", self.ty_json_d(*inner, d + 1)),
                    ("n", n.map(|v| v.to_string()).unwrap_or("null".into())),
                ])
            }
            ty::Tuple(ts) => obj(vec![
                ("k", esc("tuple")),
                ("ts", arr(ts.iter().map(|x| self.ty_json_d(x, d + 1)).collect())),
            ]),
            ty::Adt(adt, args) => obj(vec![
                ("k", esc("adt")),
                ("p", esc(&self.path(adt.did()))),
                ("a", arr(args.types().map(|x| self.ty_json_d(x, d + 1)).collect())),
                ("s", esc(&self.tys(t))),
            ]),
            ty::Closure(did, _) => obj(vec![("k", esc("closure")), ("p", esc(&self.path(*did)))]),
            ty::FnDef(did, args) => obj(vec![
                ("k", esc("fndef")),
                ("p", esc(&self.path(*did))),
                ("a", arr(args.types().map(|x| self.ty_json_d(x, d + 1)).collect())),
                ("s", esc(&self.tys(t))),
            ]),
            ty::FnPtr(..) => obj(vec![("k", esc("fnptr")), ("s", esc(&self.tys(t)))]),
            ty::Param(p) => obj(vec![("k", esc("param")), ("s", esc(p.name.as_str()))]),
            ty::Dynamic(..) => obj(vec![("k", esc("dyn")), ("s", esc(&self.tys(t)))]),
            _ => obj(vec![("k", esc("other")), ("s", esc(&self.tys(t)))]),
        }
    }

    // ------------------------------------------------------------ places / operands
    fn place_json(&self, p: &Place<'tcx>) -> String {
        let mut proj = Vec::new();
        for e in p.projection.iter() {
            let j = match e {
                ProjectionElem::Deref => obj(vec![("k", esc("deref"))]),
                ProjectionElem::Field(f, t) => obj(vec![
                    ("k", esc("field")),
                    ("i", f.as_usize().to_string()),
                    ("ty", self.ty_json(t)),
                ]),
                ProjectionElem::Index(l) => obj(vec![("k", esc("index")), ("l", l.as_usize().to_string())]),
                ProjectionElem::ConstantIndex { offset, min_length, from_end } => obj(vec![
                    ("k", esc("cindex")),
                    ("off", offset.to_string()),
                    ("min", min_length.to_string()),
                    ("end", from_end.to_string()),
                ]),
                ProjectionElem::Subslice { from, to, from_end } => obj(vec![
                    ("k", esc("subslice")),
                    ("from", from.to_string()),
                    ("to", to.to_string()),
                    ("end", from_end.to_string()),
                ]),
                ProjectionElem::Downcast(name, v) => obj(vec![
                    ("k", esc("downcast")),
                    ("v", v.as_usize().to_string()),
                    ("name", name.map(|s| esc(s.as_str())).unwrap_or("null".into())),
                ]),
                _ => obj(vec![("k", esc("otherproj"))]),
            };
            proj.push(j);
        }
        obj(vec![("l", p.local.as_usize().to_string()), ("pr", arr(proj))])
    }

    fn bytes_of_alloc(&self, alloc: &mir::interpret::Allocation, off: usize, len: usize) -> Option<Vec<u8>> {
        let range = off..off + len;
        if off + len > alloc.len() {
            return None;
        }
        if !alloc.provenance().ptrs().is_empty() {
            // may overlap pointers; be conservative
            for (o, _) in alloc.provenance().ptrs().iter() {
                let o = o.bytes() as usize;
                if o < off + len && o + 8 > off {
                    return None;
                }
            }
        }
        Some(alloc.inspect_with_uninit_and_ptr_outside_interpreter(range).to_vec())
    }

    fn const_json(&self, c: &Const<'tcx>, owner: DefId) -> String {
        let tcx = self.tcx;
        let ty = c.ty();
        let mut items: Vec<(&str, String)> = vec![("k", esc("const")), ("ty", self.ty_json(ty))];
        if let Const::Unevaluated(u, _) = c {
            if let Some(p) = u.promoted {
                items.push(("promoted", p.as_usize().to_string()));
            } else {
                items.push(("def", esc(&self.path(u.def))));
            }
        }
        if let ty::FnDef(did, args) = ty.kind() {
            items.push(("fn", esc(&self.path(*did))));
            let env = TypingEnv::post_analysis(tcx, owner);
            if let Ok(Some(inst)) = Instance::try_resolve(tcx, env, *did, args) {
                items.push(("fn_resolved", esc(&self.path(inst.def_id()))));
            }
            return obj(items);
        }
        let env = TypingEnv::post_analysis(tcx, owner);
        let val = c.eval(tcx, env, rustc_span::DUMMY_SP);
        match val {
            Ok(ConstValue::Scalar(mir::interpret::Scalar::Int(i))) => {
                let size = i.size();
                let bits = i.to_bits(size);
                let v: String = match ty.kind() {
                    ty::Int(_) => {
                        let sh = 128 - size.bits();
                        if size.bits() == 0 { "0".into() } else { (((bits as i128) << sh) >> sh).to_string() }
                    }
                    ty::Bool => (bits != 0).to_string(),
                    ty::Float(f) if f.bit_width() == 64 => {
                        items.push(("f", esc(&format!("{:?}", f64::from_bits(bits as u64)))));
                        bits.to_string()
                    }
                    ty::Float(f) if f.bit_width() == 32 => {
                        items.push(("f", esc(&format!("{:?}", f32::from_bits(bits as u32)))));
                        bits.to_string()
                    }
                    _ => bits.to_string(),
                };
                items.push(("v", v));
            }
            Ok(ConstValue::Scalar(mir::interpret::Scalar::Ptr(ptr, _))) => {
                let (prov, off) = ptr.prov_and_relative_offset();
                match tcx.global_alloc(prov.alloc_id()) {
                    mir::interpret::GlobalAlloc::Static(did) => {
                        items.push(("static", esc(&self.path(did))));
                    }
                    mir::interpret::GlobalAlloc::Memory(a) => {
                        let a = a.inner();
                        let off = off.bytes() as usize;
                        if a.len() - off > 4096 {
                            items.push(("mem_len", (a.len() - off).to_string()));
                        } else if let Some(b) = self.bytes_of_alloc(a, off, a.len() - off) {
                            items.push(("mem", arr(b.iter().map(|x| x.to_string()).collect())));
                        } else {
                            items.push(("mem", "null".into()));
                        }
                    }
                    mir::interpret::GlobalAlloc::Function { instance } => {
                        items.push(("fnptr", esc(&self.path(instance.def_id()))));
                    }
                    _ => {}
                }
            }
            Ok(ConstValue::ZeroSized) => {
                items.push(("zst", "true".into()));
            }
            Ok(ConstValue::Slice { alloc_id, meta }) => {
                if let mir::interpret::GlobalAlloc::Memory(a) = tcx.global_alloc(alloc_id) {
                    let a = a.inner();
                    let is_str = matches!(ty.kind(), ty::Ref(_, t, _) if t.is_str());
                    let is_u8 = matches!(ty.kind(), ty::Ref(_, t, _) if matches!(t.kind(), ty::Slice(e) if *e == tcx.types.u8));
                    if (is_str || is_u8) && meta > 4096 {
                        items.push(("slice_len", meta.to_string()));
                    } else if is_str || is_u8 {
                        if let Some(b) = self.bytes_of_alloc(a, 0, meta as usize) {
                            if is_str {
                                items.push(("str", esc(&String::from_utf8_lossy(&b))));
                            } else {
                                items.push(("bytes", arr(b.iter().map(|x| x.to_string()).collect())));
                            }
                        }
                    } else {
                        items.push(("slice_len", meta.to_string()));
                    }
                }
            }
            Ok(ConstValue::Indirect { alloc_id, offset }) => {
                if let mir::interpret::GlobalAlloc::Memory(a) = tcx.global_alloc(alloc_id) {
                    let a = a.inner();
                    let off = offset.bytes() as usize;
                    if a.len() - off <= 4096 {
                        if let Some(b) = self.bytes_of_alloc(a, off, a.len() - off) {
                            items.push(("mem", arr(b.iter().map(|x| x.to_string()).collect())));
                        }
                    }
                }
            }
            Err(_) => {
                items.push(("uneval", "true".into()));
            }
        }
        let mut dbg = format!("{c}"); if dbg.len() > 160 { dbg = dbg.chars().take(160).collect(); } items.push(("dbg", esc(&dbg)));
        obj(items)
    }

    fn operand_json(&self, o: &Operand<'tcx>, owner: DefId) -> String {
        match o {
            Operand::Copy(p) => obj(vec![("k", esc("copy")), ("p", self.place_json(p))]),
            Operand::Move(p) => obj(vec![("k", esc("move")), ("p", self.place_json(p))]),
            Operand::Constant(c) => self.const_json(&c.const_, owner),
            #[allow(unreachable_patterns)]
            _ => obj(vec![("k", esc("otherop")), ("dbg", esc(&format!("{o:?}")))]),
        }
    }

    fn rvalue_json(&self, rv: &Rvalue<'tcx>, owner: DefId) -> String {
        match rv {
            Rvalue::Use(o, _) => obj(vec![("k", esc("use")), ("o", self.operand_json(o, owner))]),
            Rvalue::Repeat(o, n) => obj(vec![
                ("k", esc("repeat")),
                ("o", self.operand_json(o, owner)),
                ("n", n.try_to_target_usize(self.tcx).map(|v| v.to_string()).unwrap_or("null".into())),
            ]),
            Rvalue::Ref(_, bk, p) => obj(vec![
                ("k", esc("ref")),
                ("m", matches!(bk, mir::BorrowKind::Mut { .. }).to_string()),
                ("p", self.place_json(p)),
            ]),
            Rvalue::RawPtr(_, p) => obj(vec![("k", esc("rawptr")), ("p", self.place_json(p))]),
            Rvalue::Cast(ck, o, t) => {
                let ck = match ck {
                    CastKind::IntToInt => "IntToInt".to_string(),
                    CastKind::FloatToInt => "FloatToInt".to_string(),
                    CastKind::FloatToFloat => "FloatToFloat".to_string(),
                    CastKind::IntToFloat => "IntToFloat".to_string(),
                    CastKind::PtrToPtr => "PtrToPtr".to_string(),
                    CastKind::Transmute => "Transmute".to_string(),
                    CastKind::PointerCoercion(pc, _) => format!("PointerCoercion::{pc:?}"),
                    other => format!("{other:?}"),
                };
                obj(vec![
                    ("k", esc("cast")),
                    ("ck", esc(&ck)),
                    ("o", self.operand_json(o, owner)),
                    ("ty", self.ty_json(*t)),
                ])
            }
            Rvalue::BinaryOp(op, b) => obj(vec![
                ("k", esc("binop")),
                ("op", esc(&format!("{op:?}"))),
                ("a", self.operand_json(&b.0, owner)),
                ("b", self.operand_json(&b.1, owner)),
            ]),
            Rvalue::UnaryOp(op, o) => obj(vec![
                ("k", esc("unop")),
                ("op", esc(&format!("{op:?}"))),
                ("o", self.operand_json(o, owner)),
            ]),
            Rvalue::Discriminant(p) => obj(vec![("k", esc("discr")), ("p", self.place_json(p))]),
            Rvalue::Aggregate(kind, ops) => {
                let mut items = vec![("k", esc("aggr"))];
                match &**kind {
                    AggregateKind::Array(t) => {
                        items.push(("ak", esc("array")));
                        items.push(("ety", self.ty_json(*t)));
                    }
                    AggregateKind::Tuple => items.push(("ak", esc("tuple"))),
                    AggregateKind::Adt(did, v, _, _, active) => {
                        items.push(("ak", esc("adt")));
                        items.push(("p", esc(&self.path(*did))));
                        items.push(("v", v.as_usize().to_string()));
                        let adt = self.tcx.adt_def(*did);
                        items.push(("vname", esc(adt.variant(*v).name.as_str())));
                        if let Some(a) = active {
                            items.push(("union_field", a.as_usize().to_string()));
                        }
                    }
                    AggregateKind::Closure(did, _) => {
                        items.push(("ak", esc("closure")));
                        items.push(("p", esc(&self.path(*did))));
                    }
                    AggregateKind::RawPtr(..) => items.push(("ak", esc("rawptr"))),
                    _ => items.push(("ak", esc("other"))),
                }
                items.push(("ops", arr(ops.iter().map(|o| self.operand_json(o, owner)).collect())));
                obj(items)
            }
            Rvalue::CopyForDeref(p) => obj(vec![("k", esc("copyderef")), ("p", self.place_json(p))]),
            Rvalue::ThreadLocalRef(d) => obj(vec![("k", esc("tls")), ("p", esc(&self.path(*d)))]),
            other => obj(vec![("k", esc("otherrv")), ("dbg", esc(&format!("{other:?}")))]),
        }
    }

    fn block_json(&self, body: &Body<'tcx>, bb: &BasicBlockData<'tcx>, owner: DefId) -> String {
        let tcx = self.tcx;
        let mut stmts = Vec::new();
        for s in &bb.statements {
            let line = self.line(s.source_info.span);
            let j = match &s.kind {
                StatementKind::Assign(b) => obj(vec![
                    ("k", esc("assign")),
                    ("p", self.place_json(&b.0)),
                    ("rv", self.rvalue_json(&b.1, owner)),
                    ("line", line.to_string()),
                ]),
                StatementKind::SetDiscriminant { place, variant_index } => obj(vec![
                    ("k", esc("setdiscr")),
                    ("p", self.place_json(place)),
                    ("v", variant_index.as_usize().to_string()),
                ]),
                StatementKind::StorageLive(_)
                | StatementKind::StorageDead(_)
                | StatementKind::Nop
                | StatementKind::FakeRead(..)
                | StatementKind::PlaceMention(..)
                | StatementKind::AscribeUserType(..)
                | StatementKind::Coverage(..)
                | StatementKind::ConstEvalCounter => continue,
                StatementKind::Intrinsic(i) => obj(vec![("k", esc("intrinsic")), ("dbg", esc(&format!("{i:?}")))]),
                #[allow(unreachable_patterns)]
                other => obj(vec![("k", esc("otherstmt")), ("dbg", esc(&format!("{other:?}")))]),
            };
            stmts.push(j);
        }
        let term = bb.terminator();
        let tline = self.line(term.source_info.span);
        let texp = term.source_info.span.from_expansion();
        let tj = match &term.kind {
            TerminatorKind::Goto { target } => obj(vec![("k", esc("goto")), ("t", target.as_usize().to_string())]),
            TerminatorKind::SwitchInt { discr, targets } => {
                let mut vs = Vec::new();
                for (v, t) in targets.iter() {
                    vs.push(format!("[{},{}]", v, t.as_usize()));
                }
                obj(vec![
                    ("k", esc("switch")),
                    ("d", self.operand_json(discr, owner)),
                    ("dty", self.ty_json(discr.ty(body, tcx))),
                    ("vs", arr(vs)),
                    ("otherwise", targets.otherwise().as_usize().to_string()),
                    ("line", tline.to_string()),
                ])
            }
            TerminatorKind::Return => obj(vec![("k", esc("return")), ("line", tline.to_string())]),
            TerminatorKind::Unreachable => obj(vec![("k", esc("unreachable"))]),
            TerminatorKind::UnwindResume => obj(vec![("k", esc("resume"))]),
            TerminatorKind::UnwindTerminate(_) => obj(vec![("k", esc("terminate"))]),
            TerminatorKind::Drop { place, target, .. } => obj(vec![
                ("k", esc("drop")),
                ("p", self.place_json(place)),
                ("t", target.as_usize().to_string()),
            ]),
            TerminatorKind::Assert { cond, expected, msg, target, .. } => {
                let (mk, mops): (String, Vec<String>) = match &**msg {
                    mir::AssertKind::BoundsCheck { len, index } => (
                        "bounds".into(),
                        vec![self.operand_json(len, owner), self.operand_json(index, owner)],
                    ),
                    mir::AssertKind::Overflow(op, a, b) => (
                        format!("overflow:{op:?}"),
                        vec![self.operand_json(a, owner), self.operand_json(b, owner)],
                    ),
                    mir::AssertKind::OverflowNeg(a) => ("overflow_neg".into(), vec![self.operand_json(a, owner)]),
                    mir::AssertKind::DivisionByZero(a) => ("div_zero".into(), vec![self.operand_json(a, owner)]),
                    mir::AssertKind::RemainderByZero(a) => ("rem_zero".into(), vec![self.operand_json(a, owner)]),
                    other => (format!("other:{other:?}"), vec![]),
                };
                obj(vec![
                    ("k", esc("assert")),
                    ("cond", self.operand_json(cond, owner)),
                    ("expected", expected.to_string()),
                    ("mk", esc(&mk)),
                    ("mops", arr(mops)),
                    ("t", target.as_usize().to_string()),
                    ("line", tline.to_string()),
                ])
            }
            TerminatorKind::Call { func, args, destination, target, fn_span, .. } => {
                let mut items = vec![("k", esc("call"))];
                let fty = func.ty(body, tcx);
                match fty.kind() {
                    ty::FnDef(did, gargs) => {
                        items.push(("callee", esc(&self.path(*did))));
                        items.push(("callee_full", esc(&self.tys(fty))));
                        items.push(("gargs", arr(gargs.types().map(|t| self.ty_json(t)).collect())));
                        let env = TypingEnv::post_analysis(tcx, owner);
                        match Instance::try_resolve(tcx, env, *did, gargs) {
                            Ok(Some(inst)) => {
                                let rd = inst.def_id();
                                items.push(("resolved", esc(&self.path(rd))));
                                items.push(("resolved_local", rd.is_local().to_string()));
                                items.push(("resolved_crate", esc(tcx.crate_name(rd.krate).as_str())));
                                let ik = match inst.def {
                                    ty::InstanceKind::Item(_) => "item",
                                    ty::InstanceKind::Intrinsic(_) => "intrinsic",
                                    ty::InstanceKind::Virtual(..) => "virtual",
                                    ty::InstanceKind::ClosureOnceShim { .. } => "closure_once_shim",
                                    ty::InstanceKind::FnPtrShim(..) => "fnptr_shim",
                                    ty::InstanceKind::DropGlue(..) => "drop_glue",
                                    ty::InstanceKind::CloneShim(..) => "clone_shim",
                                    ty::InstanceKind::ReifyShim(..) => "reify_shim",
                                    _ => "other",
                                };
                                items.push(("ikind", esc(ik)));
                            }
                            _ => {
                                items.push(("resolved", "null".into()));
                            }
                        }
                        // trait of the callee, if a trait method
                        if let Some(tr) = tcx.trait_of_assoc(*did) {
                            items.push(("trait", esc(&self.path(tr))));
                        }
                    }
                    _ => {
                        items.push(("callee", "null".into()));
                        items.push(("func", self.operand_json(func, owner)));
                        items.push(("fty", self.ty_json(fty)));
                    }
                }
                items.push(("args", arr(args.iter().map(|a| self.operand_json(&a.node, owner)).collect())));
                items.push(("dest", self.place_json(destination)));
                items.push(("t", target.map(|t| t.as_usize().to_string()).unwrap_or("null".into())));
                items.push(("line", self.line(*fn_span).to_string()));
                items.push(("exp", texp.to_string()));
                obj(items)
            }
            TerminatorKind::FalseEdge { real_target, .. } => obj(vec![("k", esc("goto")), ("t", real_target.as_usize().to_string())]),
            TerminatorKind::FalseUnwind { real_target, .. } => obj(vec![("k", esc("goto")), ("t", real_target.as_usize().to_string())]),
            other => obj(vec![("k", esc("otherterm")), ("dbg", esc(&format!("{other:?}")))]),
        };
        obj(vec![("s", arr(stmts)), ("t", tj), ("cleanup", bb.is_cleanup.to_string())])
    }

    fn body_json(&self, did: DefId, body: &Body<'tcx>, promoted_idx: Option<usize>) -> String {
        let tcx = self.tcx;
        let kind = tcx.def_kind(did);
        let mut items: Vec<(&str, String)> = Vec::new();
        let mut path = self.path(did);
        if let Some(i) = promoted_idx {
            path = format!("{path}::promoted[{i}]");
            items.push(("promoted_of", esc(&self.path(did))));
        }
        items.push(("path", esc(&path)));
        items.push(("kind", esc(&format!("{kind:?}"))));
        items.push(("span", self.span_json(body.span)));
        if matches!(kind, DefKind::Fn | DefKind::AssocFn) {
            items.push(("vis", esc(&format!("{:?}", tcx.visibility(did)))));
            items.push(("is_pub", tcx.visibility(did).is_public().to_string()));
        }
        if matches!(kind, DefKind::Closure) {
            items.push(("parent", esc(&self.path(tcx.typeck_root_def_id(did)))));
            items.push(("direct_parent", esc(&self.path(tcx.parent(did)))));
        }
        if matches!(kind, DefKind::AssocFn | DefKind::AssocConst { .. }) {
            let parent = tcx.parent(did);
            if matches!(tcx.def_kind(parent), DefKind::Impl { .. }) {
                let self_ty = tcx.type_of(parent).instantiate_identity().skip_norm_wip();
                items.push(("impl_self", self.ty_json(self_ty)));
                items.push(("impl_self_s", esc(&self.tys(self_ty))));
                if let Some(tr) = tcx.impl_opt_trait_ref(parent) {
                    let tr = tr.instantiate_identity().skip_norm_wip();
                    items.push(("impl_trait", esc(&self.path(tr.def_id))));
                    items.push(("impl_trait_full", esc(&self.tys(tr))));
                }
            }
            items.push(("name", esc(tcx.item_name(did).as_str())));
        }
        items.push(("argc", body.arg_count.to_string()));
        // locals
        let mut names: Vec<Option<String>> = vec![None; body.local_decls.len()];
        for vdi in &body.var_debug_info {
            if let mir::VarDebugInfoContents::Place(p) = &vdi.value {
                if p.projection.is_empty() {
                    names[p.local.as_usize()] = Some(vdi.name.to_string());
                }
            }
        }
        let mut locals = Vec::new();
        for (l, decl) in body.local_decls.iter_enumerated() {
            let mut li = vec![("ty", self.ty_json(decl.ty))];
            if let Some(n) = &names[l.as_usize()] {
                li.push(("name", esc(n)));
            }
            locals.push(obj(li));
        }
        items.push(("locals", arr(locals)));
        // captured upvars debug info (closures)
        let mut upv = Vec::new();
        for vdi in &body.var_debug_info {
            if let mir::VarDebugInfoContents::Place(p) = &vdi.value {
                if !p.projection.is_empty() {
                    upv.push(obj(vec![("name", esc(vdi.name.as_str())), ("p", self.place_json(p))]));
                }
            }
        }
        items.push(("upvars", arr(upv)));
        let mut blocks = Vec::new();
        for (_, bb) in body.basic_blocks.iter_enumerated() {
            blocks.push(self.block_json(body, bb, did));
        }
        items.push(("blocks", arr(blocks)));
        obj(items)
    }

    // ---------------------------------------------------------- HIR literal tree
    fn hir_expr_json(&self, e: &rustc_hir::Expr<'tcx>, owner: rustc_hir::def_id::LocalDefId, d: usize) -> String {
        use rustc_hir::ExprKind;
        if d > 8 {
            return obj(vec![("k", esc("deep"))]);
        }
        match &e.kind {
            ExprKind::Array(es) => obj(vec![
                ("k", esc("array")),
                ("e", arr(es.iter().map(|x| self.hir_expr_json(x, owner, d + 1)).collect())),
            ]),
            ExprKind::Tup(es) => obj(vec![
                ("k", esc("tuple")),
                ("e", arr(es.iter().map(|x| self.hir_expr_json(x, owner, d + 1)).collect())),
            ]),
            ExprKind::Lit(l) => self.lit_json(&l.node, false),
            ExprKind::Unary(rustc_hir::UnOp::Neg, inner) => {
                if let ExprKind::Lit(l) = &inner.kind {
                    self.lit_json(&l.node, true)
                } else {
                    obj(vec![("k", esc("expr"))])
                }
            }
            ExprKind::AddrOf(_, _, inner) => self.hir_expr_json(inner, owner, d + 1),
            ExprKind::Cast(inner, _) => obj(vec![("k", esc("cast")), ("e", self.hir_expr_json(inner, owner, d + 1))]),
            ExprKind::Path(qp) => {
                let res = self.tcx.typeck(owner).qpath_res(qp, e.hir_id);
                if let rustc_hir::def::Res::Def(_, did) = res {
                    obj(vec![("k", esc("path")), ("p", esc(&self.path(did)))])
                } else {
                    obj(vec![("k", esc("expr"))])
                }
            }
            ExprKind::Struct(qp, fields, _) => {
                let res = self.tcx.typeck(owner).qpath_res(qp, e.hir_id);
                let p = if let rustc_hir::def::Res::Def(_, did) = res { self.path(did) } else { "?".into() };
                let fs: Vec<String> = fields
                    .iter()
                    .map(|f| format!("[{},{}]", esc(f.ident.as_str()), self.hir_expr_json(f.expr, owner, d + 1)))
                    .collect();
                obj(vec![("k", esc("struct")), ("p", esc(&p)), ("f", arr(fs))])
            }
            ExprKind::Binary(op, a, b) => obj(vec![
                ("k", esc("binary")),
                ("op", esc(op.node.as_str())),
                ("a", self.hir_expr_json(a, owner, d + 1)),
                ("b", self.hir_expr_json(b, owner, d + 1)),
            ]),
            ExprKind::Block(b, _) if b.stmts.is_empty() && b.expr.is_some() => self.hir_expr_json(b.expr.unwrap(), owner, d + 1),
            _ => obj(vec![("k", esc("expr"))]),
        }
    }
    fn lit_json(&self, l: &rustc_ast::LitKind, neg: bool) -> String {
        use rustc_ast::LitKind;
        match l {
            LitKind::Str(s, _) => obj(vec![("k", esc("str")), ("v", esc(s.as_str()))]),
            LitKind::ByteStr(b, _) => obj(vec![
                ("k", esc("bytes")),
                ("v", arr(b.as_byte_str().iter().map(|x| x.to_string()).collect())),
            ]),
            LitKind::Byte(b) => obj(vec![("k", esc("int")), ("v", b.to_string())]),
            LitKind::Char(c) => obj(vec![("k", esc("char")), ("v", (*c as u32).to_string())]),
            LitKind::Int(i, _) => {
                let v = i.get();
                obj(vec![("k", esc("int")), ("v", if neg { format!("-{v}") } else { v.to_string() })])
            }
            LitKind::Float(s, _) => obj(vec![
                ("k", esc("float")),
                ("v", esc(&if neg { format!("-{}", s.as_str()) } else { s.as_str().to_string() })),
            ]),
            LitKind::Bool(b) => obj(vec![("k", esc("bool")), ("v", b.to_string())]),
            _ => obj(vec![("k", esc("lit"))]),
        }
    }
}

struct Cb;
impl rustc_driver::Callbacks for Cb {
    fn after_analysis<'tcx>(&mut self, _c: &rustc_interface::interface::Compiler, tcx: TyCtxt<'tcx>) -> Compilation {
        let Ok(dir) = std::env::var("AGV_FACTS_DIR") else { return Compilation::Continue };
        let crate_name = tcx.crate_name(LOCAL_CRATE).to_string();
        let only = std::env::var("AGV_CRATES").unwrap_or_default();
        if !only.is_empty() && !only.split(',').any(|c| c == crate_name) {
            return Compilation::Continue;
        }
        let cx = Cx { tcx };
        let mut bodies = Vec::new();
        for ldid in tcx.hir_body_owners() {
            let did = ldid.to_def_id();
            let kind = tcx.def_kind(did);
            match kind {
                DefKind::Fn | DefKind::AssocFn | DefKind::Closure => {
                    let body = tcx.optimized_mir(did);
                    bodies.push(cx.body_json(did, body, None));
                    for (i, p) in tcx.promoted_mir(did).iter_enumerated() {
                        bodies.push(cx.body_json(did, p, Some(i.as_usize())));
                    }
                }
                _ => {}
            }
        }
        // ADTs, consts, statics
        let mut adts = Vec::new();
        let mut consts = Vec::new();
        for ldid in tcx.hir_crate_items(()).definitions() {
            let did = ldid.to_def_id();
            let kind = tcx.def_kind(did);
            match kind {
                DefKind::Struct | DefKind::Enum => {
                    let adt = tcx.adt_def(did);
                    let mut variants = Vec::new();
                    let discrs: Vec<(usize, u128)> = if adt.is_enum() {
                        adt.discriminants(tcx).map(|(v, d)| (v.as_usize(), d.val)).collect()
                    } else {
                        vec![]
                    };
                    for (vi, v) in adt.variants().iter_enumerated() {
                        let mut fields = Vec::new();
                        for f in v.fields.iter() {
                            let fty = tcx.type_of(f.did).instantiate_identity().skip_norm_wip();
                            fields.push(obj(vec![
                                ("name", esc(f.name.as_str())),
                                ("ty", cx.ty_json(fty)),
                                ("pub", f.vis.is_public().to_string()),
                                ("vis", esc(&format!("{:?}", f.vis))),
                            ]));
                        }
                        let d = discrs.iter().find(|(i, _)| *i == vi.as_usize()).map(|(_, d)| d.to_string()).unwrap_or("null".into());
                        variants.push(obj(vec![
                            ("name", esc(v.name.as_str())),
                            ("discr", d),
                            ("fields", arr(fields)),
                        ]));
                    }
                    adts.push(obj(vec![
                        ("path", esc(&cx.path(did))),
                        ("kind", esc(if adt.is_enum() { "enum" } else { "struct" })),
                        ("is_pub", tcx.visibility(did).is_public().to_string()),
                        ("span", cx.span_json(tcx.def_span(did))),
                        ("variants", arr(variants)),
                    ]));
                }
                DefKind::Const { .. } | DefKind::Static { .. } | DefKind::AssocConst { .. } => {
                    let ty = tcx.type_of(did).instantiate_identity().skip_norm_wip();
                    let mut items = vec![
                        ("path", esc(&cx.path(did))),
                        ("kind", esc(&format!("{kind:?}"))),
                        ("ty", cx.ty_json(ty)),
                        ("span", cx.span_json(tcx.def_span(did))),
                    ];
                    // evaluated scalar value
                    let generic = tcx.generics_of(did).requires_monomorphization(tcx);
                    if !generic && matches!(kind, DefKind::Const { .. } | DefKind::AssocConst { .. }) {
                        let c = Const::from_unevaluated(tcx, did).instantiate_identity().skip_norm_wip();
                        items.push(("val", cx.const_json(&c, did)));
                    }
                    // literal tree
                    if let Some(bid) = tcx.hir_maybe_body_owned_by(ldid) {
                        items.push(("lit", cx.hir_expr_json(bid.value, ldid, 0)));
                    }
                    consts.push(obj(items));
                }
                _ => {}
            }
        }
        let out = obj(vec![
            ("crate", esc(&crate_name)),
            ("bodies", arr(bodies)),
            ("adts", arr(adts)),
            ("consts", arr(consts)),
        ]);
        let file = format!("{}/{}-{}.json", dir, crate_name, std::process::id());
        std::fs::write(&file, out).expect("agv-driver: cannot write facts");
        Compilation::Continue
    }
}

fn main() {
    let mut args: Vec<String> = std::env::args().collect();
    // RUSTC_WORKSPACE_WRAPPER passes the real rustc path as argv[1]
    if args.len() > 1 && !args[1].starts_with('-') && args[1].contains("rustc") {
        args.remove(1);
    }
    rustc_driver::run_compiler(&args, &mut Cb);
}
