#!/usr/bin/env python3
"""seed_prompt2.py <property> <tag> [n_breaking] [n_benign]

Prompt for an independent sub-agent (round c): n_breaking property-breaking changes AND n_benign behaviour-preserving
refactors of the same anchored code.  The agent sees only the property text and its own scratch worktree."""
import json, sys
pid, tag = sys.argv[1], sys.argv[2]
n = int(sys.argv[3]) if len(sys.argv) > 3 else 3
m = int(sys.argv[4]) if len(sys.argv) > 4 else 3
p = next(json.loads(l) for l in open('/verif/properties.jsonl') if json.loads(l)['id'] == pid)
wt = f"/tmp/wt/{pid}{tag}"
out = f"/tmp/seedout/{pid}{tag}"
print(f"""You are given a scratch git worktree of a Rust workspace at {wt} (project ALPHA-g-Experiment/alpha-g: crates `detector` (alpha_g_detector), `physics` (alpha_g_physics), `analysis` (binaries)). The sandbox has NO network: always pass `--offline` to cargo and `export CARGO_TARGET_DIR={wt}/target`. Work ONLY inside {wt} and {out}; never touch /repo or /verif (do not read /verif either).

Here is a semantic property the project is supposed to satisfy:

ID: {p['id']} — {p['title']}
Statement: {p['statement']}
Quantifier: {p['quantifier']['text']}
Why the existing tests cannot settle it: {p['why_tests_cant']}
Code anchors: {json.dumps(p['anchors'].get('files'))}
Mechanisms: {json.dumps(p['anchors'].get('mechanism'))}

PART A — {n} property-BREAKING changes. Produce {n} DIFFERENT, independent, realistic source changes to the workspace, each of which BREAKS this property while the workspace still compiles and the whole existing test suite (`cargo test --workspace --offline`, 372 tests) still passes. Think of plausible maintainer slips or well-meant refactors: an off-by-one in a guard, a wrong constant/mask, a check dropped or moved after its use, a comparison loosened, a swapped index/field/operand, a wrong table entry, a container or integer type changed, a helper that looks equivalent but is not, an "optimisation" that skips a case, a changed iteration order, two cooperating sites that each look fine alone, an edit in a function the anchored code CALLS rather than in the anchored function itself. Prefer changes that need something specific to manifest (an unusual input, a boundary value, a particular ordering/permutation, a multi-step sequence, a specific run number or board) — NOT ones that any ordinary use would expose at once, and not ones the existing tests catch. Make the {n} changes differ in kind and location (different functions / different clauses of the property). Keep each small (a few lines) and natural: no comments announcing it, no dead code, no test edits.

For each breaking change k = 1..{n}:
 1. Start from a clean tree (`git -C {wt} checkout -- . && git -C {wt} clean -fdq -e target`).
 2. Make the change. Run `cargo test --workspace --offline` and confirm all tests pass (if a test fails, pick another change).
 3. Write a demonstration: a Rust integration test file (e.g. `{wt}/detector/tests/demo.rs` or `{wt}/physics/tests/demo.rs`; for the analysis binaries a shell/python script that builds and runs the binary on a synthetic input is fine) that FAILS with the change and PASSES on the clean tree. Confirm both by actually running it (tests that build a `MainEvent` need `RUST_MIN_STACK=268435456` in debug builds because the struct is large).
 4. Save into `{out}/{{k}}/`: `patch.diff` (output of `git -C {wt} diff` for the change only, WITHOUT the demo file), the demo file(s), and `README.md` with: which clause of the property is broken, what specific input/condition is needed to manifest it, the exact commands you ran for (a) the test suite with the change, (b) the demo with the change (failing), (c) the demo without it (passing), and their observed results.

PART B — {m} behaviour-PRESERVING refactors. Produce {m} DIFFERENT source changes to the same anchored code (the functions the property is about, or the helpers/tables they use) that a maintainer might make for readability or style and that provably leave the behaviour — and therefore the property — completely unchanged for EVERY input: e.g. reorder independent statements or independent `&&` operands, replace an `if`/`else` by a `match` or an early return, `x == c` by `c == x`, a loop by the equivalent iterator chain (or back), inline or extract a small private helper, rename locals, replace an arithmetic expression by an algebraically identical one that cannot overflow differently, replace a `match` on an Option by `if let`/`map`/`ok_or`, change `a < b` into `b > a`, hoist a constant. Each must touch executable code in the anchored functions (not only comments/whitespace/renames), must NOT change any behaviour including which error is returned in which case and when panics can occur, and must keep the full test suite passing. Be careful and conservative: if you are not sure it is exactly equivalent for all inputs, pick another refactor.
 For each refactor j = 1..{m}: start from a clean tree, make the change, run `cargo test --workspace --offline` (must pass), save `git -C {wt} diff` as `{out}/benign{{j}}/patch.diff` plus a `README.md` with a short argument why behaviour is identical for every input.

Finally restore the worktree to clean state (keep `target/`), and reply with a short summary (under 300 words) listing for each change: file/function changed, one-line description, and whether the confirmations succeeded. If you cannot find a breaking change that passes the suite for some k, say so rather than submitting a weak one.""")
