"""Finite-domain evaluation of small pure functions (integer index maps, one-line float formulas).

For a function whose parameters range over a small finite domain (a wire number 0..256, a pad column 0..32, a pad row
0..576) the return paths are taken apart statically — guard atoms and the value term of each path, exactly as for the
accept tables — and those formulas are evaluated at every point of the domain.  The result is the function's complete
input/output table, on which relations between *pairs* of points (equivariance under a rotation, oddness under a
mirror, inverse maps) are decided exhaustively.  This is evaluation of formulas read off the program, not execution of
the program: a path whose guard or value cannot be evaluated makes the whole table `unknown` (fail closed)."""
import struct

from .finite import eval_poly
from .guards import analysis
from .sym import Sym, forward_paths, path_atoms
from .terms import strip, unmut, short


def f64_of_bits(b):
    return struct.unpack("<d", struct.pack("<Q", int(b)))[0]


def holds(sy, ats, env):
    """True / False / None (cannot evaluate)"""
    for a in ats:
        if a[0] == "rel":
            v = eval_poly(sy, a[2], env)
            if v is None:
                return None
            if not ((a[3] == ">=" and v >= 0) or (a[3] == "==" and v == 0) or (a[3] == "!=" and v != 0)):
                return False
        elif a[0] == "false":
            return False
        else:
            return None
    return True


def ev_value(prog, sy, t, env, depth=0):
    """value of a term: int, float, or a tuple ("Range", lo, hi) / ("tuple", ...); None if it cannot be evaluated"""
    if depth > 12:
        return None
    t0 = unmut(t)
    if t0[0] == "aggr":
        vals = [ev_value(prog, sy, x, env, depth + 1) for x in t0[2]]
        if any(v is None for v in vals):
            return None
        return (t0[1].split("::")[-1],) + tuple(vals)
    if t0[0] == "const" and t0[2] in ("f64", "f32") and isinstance(t0[1], int):
        return f64_of_bits(t0[1]) if t0[2] == "f64" else None
    if t0[0] == "cdef":
        try:
            v = prog.const_scalar(t0[1])
        except Exception:
            v = None
        if isinstance(v, float):
            return v
    if t0[0] == "cast" and t0[1] == "IntToFloat":
        v = ev_value(prog, sy, t0[2], env, depth + 1)
        return float(v) if isinstance(v, int) and abs(v) < (1 << 53) else None
    if t0[0] == "bin" and len(t0) == 5:
        a, b = ev_value(prog, sy, t0[2], env, depth + 1), ev_value(prog, sy, t0[3], env, depth + 1)
        if not isinstance(a, float) or not isinstance(b, float):
            return None
        op = t0[1]
        if op == "Add":
            return a + b
        if op == "Sub":
            return a - b
        if op == "Mul":
            return a * b
        if op == "Div" and b != 0.0:
            return a / b
        return None
    p = sy.poly(t)
    if p is None:
        return None
    v = eval_poly(sy, p, env)
    if v is None or v != int(v):
        return None
    return int(v)


def fn_table(prog, fn, names, domain):
    """{point: value} for every point of `domain` (iterable of tuples matching `names`, the engine's symbol names of
    the inputs, e.g. ["arg1"] or ["arg1.0", "arg1.1"]); returns (table, problems)"""
    body = prog.body(fn)
    an = analysis(prog, body)
    sy = Sym(prog, an, slice_param=99)
    per_path = []
    for rb in body.returns():
        ps = forward_paths(an, rb) if rb != 0 else [([], [0])]     # a one-block body is its own single path
        if ps is None:
            return {}, ["too many paths in %s" % fn]
        for path in ps:
            ats = path_atoms(sy, path)
            sy.set_path(path[1])
            try:
                defs = sy.var_defs(0) or []
            finally:
                sy.set_path(None)
            if len(defs) != 1:
                return {}, ["return value of %s has %d definitions on one path" % (fn, len(defs))]
            per_path.append((ats, path, defs[0]))
    table, problems = {}, []
    for pt in domain:
        env = dict(zip(names, pt))
        hits = []
        for ats, path, d in per_path:
            h = holds(sy, ats, env)
            if h is None:
                problems.append("a path guard of %s cannot be evaluated at %r" % (short(fn), pt))
                break
            if h:
                sy.set_path(path[1])
                try:
                    v = ev_value(prog, sy, d, env)
                finally:
                    sy.set_path(None)
                if v is None:
                    problems.append("the value of %s cannot be evaluated at %r" % (short(fn), pt))
                    break
                hits.append(v)
        else:
            if len(set(map(repr, hits))) == 1:
                table[pt] = hits[0]
            elif not hits:
                table[pt] = ("no-return",)     # every path is infeasible here: the function panics/diverges
            else:
                problems.append("several paths of %s with different values are feasible at %r" % (short(fn), pt))
        if len(problems) > 4:
            break
    return table, problems


# ---------------------------------------------------------------------------------------------------------------
# character / byte classes: the truth table of a small closure predicate over its single char or u8 argument

def _is_ascii(name, v):
    """value of char/u8::is_ascii_*(v) for a code point / byte v; None for predicates not in the table"""
    m = name.rsplit("::", 1)[-1]
    a = v < 128
    c = chr(v) if a else ""
    tbl = {
        "is_ascii": a,
        "is_ascii_digit": a and c.isdigit(),
        "is_ascii_alphabetic": a and c.isalpha(),
        "is_ascii_alphanumeric": a and c.isalnum(),
        "is_ascii_uppercase": a and "A" <= c <= "Z",
        "is_ascii_lowercase": a and "a" <= c <= "z",
        "is_ascii_hexdigit": a and c in "0123456789abcdefABCDEF",
        "is_ascii_whitespace": a and c in " \t\n\x0c\r",
        "is_ascii_punctuation": a and (33 <= v <= 47 or 58 <= v <= 64 or 91 <= v <= 96 or 123 <= v <= 126),
        "is_ascii_graphic": a and 33 <= v <= 126,
        "is_ascii_control": a and (v < 32 or v == 127),
    }
    return tbl.get(m)


def char_class(prog, cbody):
    """truth table of a closure `|c| ...` over one char / u8 argument that uses only is_ascii_* tests, comparisons with
    constants and boolean structure: (frozenset of accepted values in 0..256, accepts_non_ascii_char) — for a `char`
    argument the values 128..255 stand for "some non-ASCII character" and must all agree; None if the predicate is of
    another kind (Unicode classes, captured values, ...)"""
    try:
        an = analysis(prog, cbody)
        sy = Sym(prog, an, slice_param=99)
        if cbody.argc != 2:
            return None
        aty = cbody.locals[2]["ty"]
        while aty.get("k") == "ref":
            aty = aty["t"]
        is_char = aty.get("k") == "char"
        if not (is_char or (aty.get("k") == "int" and aty.get("w") == 8 and not aty.get("s"))):
            return None
        per_path = []
        for rb in cbody.returns():
            ps = forward_paths(an, rb) if rb != 0 else [([], [0])]
            if ps is None or len(ps) > 64:
                return None
            for path in ps:
                ats = path_atoms(sy, path)
                sy.set_path(path[1])
                try:
                    defs = sy.var_defs(0) or []
                    if len(defs) != 1:
                        return None
                    d = strip(defs[0])
                    if d[0] == "const" and isinstance(d[1], (bool, int)):
                        ret = bool(d[1])
                    else:
                        ret = sy.bool_atoms(d, True)
                finally:
                    sy.set_path(None)
                per_path.append((ats, ret))
        argn = {"arg2", "*arg2"}

        def atoms_hold(ats, v):
            for a in ats:
                if a[0] == "rel":
                    if not set(a[2].syms()) <= argn:
                        return None
                    val = eval_poly(sy, a[2], {n: v for n in argn})
                    if val is None:
                        return None
                    if not ((a[3] == ">=" and val >= 0) or (a[3] == "==" and val == 0) or (a[3] == "!=" and val != 0)):
                        return False
                elif a[0] == "pred" and isinstance(a[1], str) and a[1].endswith("(arg2)") or (a[0] == "pred" and isinstance(a[1], str) and a[1].endswith("(*arg2)")):
                    r = _is_ascii(a[1].split("(")[0], v)
                    if r is None:
                        return None
                    if r != a[2]:
                        return False
                elif a[0] == "switch" and a[1] in argn and a[2] in ("in", "notin"):
                    if (v in a[3]) != (a[2] == "in"):
                        return False
                elif a[0] == "false":
                    return False
                else:
                    return None
            return True
        acc = set()
        for v in range(256):
            hit = []
            for ats, ret in per_path:
                h = atoms_hold(ats, v)
                if h is None:
                    return None
                if h:
                    if isinstance(ret, bool):
                        hit.append(ret)
                    else:
                        r = atoms_hold(ret, v)
                        if r is None:
                            return None
                        hit.append(r)
            if len(set(hit)) != 1:
                return None
            if hit[0]:
                acc.add(v)
        if is_char:
            hi = {v for v in acc if v >= 128}
            if hi and len(hi) != 128:
                return None        # distinguishes between non-ASCII characters: not a class we can name
            return frozenset(v for v in acc if v < 128), bool(hi)
        return frozenset(acc), None
    except Exception:
        return None


def class_str(vals, lim=128):
    """[0-9A-Z] style rendering of a set of code points"""
    out = []
    vs = sorted(vals)
    i = 0
    while i < len(vs):
        j = i
        while j + 1 < len(vs) and vs[j + 1] == vs[j] + 1:
            j += 1

        def ch(c):
            return chr(c) if 48 <= c <= 57 or 65 <= c <= 90 or 97 <= c <= 122 else "\\x%02x" % c
        out.append(ch(vs[i]) if i == j else "%s-%s" % (ch(vs[i]), ch(vs[j])))
        i = j + 1
    return "[" + "".join(out) + "]"


def parse_class(sx):
    """inverse of the rendering `unit[ranges]+nonascii` -> (unit, frozenset, nonascii flag)"""
    import re
    m = re.match(r"^(elems|chars|bytes)\[(.*)\](\+nonascii)?$", sx)
    if not m:
        return None
    body = m.group(2)
    toks = re.findall(r"\\x[0-9a-f]{2}|.", body)

    def cp(t):
        return int(t[2:], 16) if t.startswith("\\x") else ord(t)
    vals = set()
    i = 0
    while i < len(toks):
        if i + 2 < len(toks) and toks[i + 1] == "-":
            vals.update(range(cp(toks[i]), cp(toks[i + 2]) + 1))
            i += 3
        else:
            vals.add(cp(toks[i]))
            i += 1
    return m.group(1), frozenset(vals), (True if m.group(3) else (None if m.group(1) == "bytes" else False))
