"""Run-number dispatch analysis: partition of a u32 parameter into cells and the outcome of each cell."""
import re

from . import accept
from .guards import analysis
from .sym import Sym, forward_paths, path_atoms, atom_str
from .terms import strip, short, cname

U32_MAX = (1 << 32) - 1


def run_param(body):
    """index of the (single) u32 parameter"""
    c = [i for i in range(1, body.argc + 1) if body.locals[i]["ty"] == {"k": "int", "w": 32, "s": False, "ptr": False}]
    return c[0] if len(c) == 1 else None


class RunSet:
    """finite union of closed intervals within [0, 2^32-1]"""

    def __init__(self, ivs=None):
        self.ivs = ivs if ivs is not None else [(0, U32_MAX)]

    def intersect_interval(self, lo, hi):
        out = []
        for a, b in self.ivs:
            x, y = max(a, lo), min(b, hi)
            if x <= y:
                out.append((x, y))
        return RunSet(out)

    def remove_point(self, c):
        out = []
        for a, b in self.ivs:
            if a <= c <= b:
                if a <= c - 1:
                    out.append((a, c - 1))
                if c + 1 <= b:
                    out.append((c + 1, b))
            else:
                out.append((a, b))
        return RunSet(out)

    def remove_interval(self, lo, hi):
        out = []
        for a, b in self.ivs:
            if b < lo or a > hi:
                out.append((a, b))
                continue
            if a < lo:
                out.append((a, lo - 1))
            if b > hi:
                out.append((hi + 1, b))
        return RunSet(out)

    def empty(self):
        return not self.ivs

    def contains(self, v):
        return any(a <= v <= b for a, b in self.ivs)

    def __repr__(self):
        return ",".join("%d" % a if a == b else "%d..=%d" % (a, b) for a, b in self.ivs) or "{}"


def constrain(rs, atom, sym_name):
    """apply one rel atom over the run symbol; returns (RunSet, used?)"""
    if atom[0] == "pred" and atom[2] is False:
        # `!(lo..hi).contains(&run)` / `!(lo..=hi).contains(&run)` with literal bounds: the runs outside the range
        import re as _re
        m = _re.match(r"^Range::<Idx>::contains\(Range\{(\d+),(\d+)\},%s\)$" % _re.escape(sym_name), str(atom[1]))
        if m:
            return rs.remove_interval(int(m.group(1)), int(m.group(2)) - 1), True
        m = _re.match(r"^RangeInclusive::<Idx>::contains\(RangeInclusive::<Idx>::new\((\d+),(\d+)\),%s\)$" % _re.escape(sym_name), str(atom[1]))
        if m:
            return rs.remove_interval(int(m.group(1)), int(m.group(2))), True
    if atom[0] != "rel":
        return rs, False
    p, op = atom[2], atom[3]
    if p.syms() != [sym_name]:
        return rs, False
    a = p.m.get((sym_name,), 0)
    c = p.m.get((), 0)
    if a not in (1, -1):
        return rs, False
    # a*x + c op 0
    if op == "==":
        v = int(-c / a)
        return rs.intersect_interval(v, v), True
    if op == "!=":
        return rs.remove_point(int(-c / a)), True
    if op == ">=":
        if a == 1:
            return rs.intersect_interval(int(-c), U32_MAX), True
        return rs.intersect_interval(0, int(c)), True
    return rs, False


def statics_on_path(body, blocks):
    out = set()

    def visit_op(o):
        if o.get("k") == "const":
            if "static" in o:
                out.add(o["static"])
            elif "def" in o and o["ty"]["k"] not in ("int", "bool", "float"):
                out.add(o["def"])

    def visit_rv(rv):
        for key in ("o", "a", "b"):
            if key in rv and isinstance(rv[key], dict):
                visit_op(rv[key])
        for o in rv.get("ops", []):
            visit_op(o)
    for b in blocks:
        blk = body.blocks[b]
        for s in blk["s"]:
            if s["k"] == "assign":
                visit_rv(s["rv"])
        t = blk["t"]
        if t["k"] == "call":
            for a in t["args"]:
                visit_op(a)
            r = t.get("resolved") or ""
            m = re.match(r"^<(alpha_g_[\w:]+::[A-Z][A-Z0-9_]+) as std::ops::Deref>::deref$", r)
            if m:
                out.add(m.group(1))
    return out


def dispatch(prog, fn_path, limit=20000):
    """list of {runs: RunSet, statics: set, ret: str, err: variant-or-None} over all feasible return paths"""
    body = prog.body(fn_path)
    an = analysis(prog, body)
    sy = Sym(prog, an, slice_param=99)
    rp = run_param(body)
    if rp is None:
        return None, None
    name = "arg%d" % rp
    rets = body.returns()
    out = []
    all_statics = set()
    for rb in rets:
        paths = forward_paths(an, rb, limit=limit)
        if paths is None:
            return None, None
        for path in paths:
            ats = accept.simplify(path_atoms(sy, path), sy.sym_box)
            if ats is None:
                continue
            rs = RunSet()
            for a in ats:
                rs, _ = constrain(rs, a, name)
            st = statics_on_path(body, path[1])
            all_statics |= st
            # return value on this path
            sy.set_path(path[1])
            defs = sy.var_defs(0) or []
            ret = None
            err = None
            if len(defs) == 1:
                d = strip(defs[0])
                if d[0] == "aggr" and d[1].endswith("Result::Err"):
                    e = strip(d[2][0])
                    err = e[1].split("::")[-1] if e[0] == "aggr" else "Err(?)"
                    ret = "Err(%s)" % err
                else:
                    ret = sy.name(d)
            sy.set_path(None)
            out.append({"runs": rs, "statics": st, "ret": ret, "err": err, "feasible": not rs.empty()})
    return out, all_statics


def cells(paths):
    """elementary cells of the run axis induced by all path run-sets"""
    cuts = {0, U32_MAX + 1}
    for p in paths:
        for a, b in p["runs"].ivs:
            cuts.add(a)
            cuts.add(b + 1)
    cs = sorted(cuts)
    return [(cs[i], cs[i + 1] - 1) for i in range(len(cs) - 1)]


def outcomes(paths, cell):
    lo, hi = cell
    sel = [p for p in paths if p["feasible"] and p["runs"].contains(lo)]
    return sel
