"""Audited implications (DESIGN §4.6): named lemmas `premises |- fact` whose premises are re-checked on every
run against the current program; only the implication itself is trusted.  Each returns facts / verdicts for
the obligation engine and a one-line statement for the evidence's trusted base.
"""
import re

from . import pp
from .guards import analysis, closure_info, closure_ret
from .sym import Poly, Sym
from .terms import strip, short, cname, unmut, walk

STATEMENTS = {
    "table-values": "a value looked up in a HashMap built by `for (k, v) in TABLE.iter() { m.insert(f(k), *v) }` (or `TABLE.iter().map(|(k, v)| (f(k), *v)).collect()`) from a literal table is one of the table's values; an element of a literal array is one of its values",
    "clears-top-bit": "`while x != 0 { ..; x ^= 1 << (BITS-1 - x.leading_zeros()) }` clears one set bit per iteration: x never exceeds its initial value, the loop runs at most bit_length(initial) times and terminates",
    "dense-ids": "if position(|(i, c)| usize::from(c.id) != i) over enumerate() is None and id is a u16, the sequence has at most 2^16 elements",
    "fifo-total": "separated_foldl1(repeat(0.., p), sep, f) over backtracking-only combinators on a complete &[u8] stream returns Ok (winnow contract; grammar premises = C07.R3)",
    "full-key-cover": "a HashMap filled by `for a in A_RANGE { for c in C_RANGE { m.insert((KA::try_from(a).unwrap(), KC::try_from(c).unwrap()), ..) } }` where the ranges are exactly the accepted sets of the two injective conversions contains every key of type (KA, KC)",
}


def lazy_init_body(prog, static_path):
    return prog.bodies.get("<%s as std::ops::Deref>::deref::__static_ref_initialize" % static_path)


def input_independent(prog):
    """bodies reachable only from lazy_static initialisers (they run once, on embedded data)"""
    callers = prog.callers()
    inits = set(p for p in prog.bodies if "__static_ref_initialize" in p or "::__stability" in p)
    out = set(inits)
    changed = True
    while changed:
        changed = False
        for p, b in prog.bodies.items():
            if p in out or b.kind not in ("Fn", "AssocFn", "Closure"):
                continue
            cs = callers.get(p, set())
            par = b.j.get("parent")
            if b.kind == "Closure" and par in out:
                out.add(p)
                changed = True
                continue
            if cs and all(c in out for c in cs) and not b.j.get("is_pub"):
                out.add(p)
                changed = True
    return out


def map_built_from_table(prog, static_path):
    """If `static_path` is a lazy HashMap initialised as F(TABLE) where F inserts, for each row (k, v) of its
    argument, `(g(k), *v)` unchanged, return the list of values v of the literal TABLE; else None."""
    ib = lazy_init_body(prog, static_path)
    if ib is None:
        return None
    an = analysis(prog, ib)
    rets = [strip(t) for _, t in an.ret_assignments()]
    if len(rets) != 1 or rets[0][0] != "call" or rets[0][1] not in prog.bodies or len(rets[0][2]) != 1:
        return None
    arg = strip(rets[0][2][0])
    if arg[0] != "cdef":
        return None
    fb = prog.bodies[rets[0][1]]
    fan = analysis(prog, fb)
    # exactly one insert, inside a loop over iter(param 1), value = *(elem.1)
    ins = [(bb, t) for bb, t in fb.calls() if short(cname(t)).endswith("::insert")]
    if not ins:
        # the same map as an iterator pipeline: `table.iter().map(|(k, v)| (g(k), *v)).collect()`
        from .guards import closure_info, closure_ret, subst_upvars
        rets_c = [unmut(x) for _, x in fan.ret_assignments()]
        if len(rets_c) != 1:
            return None
        c0 = rets_c[0]
        if not (c0[0] == "call" and short(c0[1]) == "Iterator::collect" and len(c0[2]) == 1):
            return None
        mp = unmut(c0[2][0])
        if not (mp[0] == "call" and short(mp[1]) == "Iterator::map" and len(mp[2]) == 2):
            return None
        it = unmut(mp[2][0])
        while it[0] == "call" and short(it[1]) in ("IntoIterator::into_iter", "<impl [T]>::iter") and it[2]:
            it = unmut(it[2][0])
        while it[0] == "cast":
            it = unmut(it[2])
        if it != ("param", 1):
            return None
        ci = closure_info(prog, fan, unmut(mp[2][1]))
        if not ci:
            return None
        cr = closure_ret(prog, ci[0])
        if len(cr) != 1:
            return None
        r0 = unmut(subst_upvars(cr[0], ci[1]))
        if not (r0[0] == "aggr" and r0[1] == "tuple" and len(r0[2]) == 2):
            return None
        v = unmut(r0[2][1])
        while v[0] in ("deref", "ref"):
            v = unmut(v[1])
        if not (v[0] == "field" and v[2] == 1):
            return None
        e = unmut(v[1])
        while e[0] in ("deref", "ref"):
            e = unmut(e[1])
        if e != ("carg", 0):
            return None
        table = prog.const_lit(arg[1])
        return [row[1] for row in table]
    if len(ins) != 1:
        return None
    for _, c in fb.calls():
        sc = short(cname(c))
        if sc.startswith("HashMap::") and sc not in ("HashMap::<K, V>::new", "HashMap::<K, V, S, A>::insert", "HashMap::<K, V>::with_capacity"):
            return None
    bb, t = ins[0]
    val = unmut(fan.terms.operand(t["args"][2]))
    # value: field 1 of the element produced by next(iter(arg1))
    ok = val[0] == "field" and val[2] == 1
    if ok:
        e = unmut(val[1])
        ok = e[0] == "field" and e[2] == 0 and unmut(e[1])[0] == "downcast"
        if ok:
            nx = unmut(unmut(e[1])[1])
            ok = nx[0] == "call" and short(nx[1]) == "Iterator::next"
            if ok:
                it = unmut(nx[2][0])
                while it[0] == "call" and short(it[1]) in ("IntoIterator::into_iter", "<impl [T]>::iter") and it[2]:
                    it = unmut(it[2][0])
                while it[0] == "cast":
                    it = unmut(it[2])
                ok = it == ("param", 1)
    if not ok:
        return None
    rets_f = [unmut(x) for _, x in fan.ret_assignments()]
    # the returned map is the one inserted into
    table = prog.const_lit(arg[1])
    return [row[1] for row in table]


LAZY_DEREF = re.compile(r"^<(alpha_g_[\w:]+) as std::ops::Deref>::deref$")


def table_value_facts(ctx, name):
    """facts for a symbol that denotes a looked-up table value; returns (list of Poly>=0, note)"""
    sy, prog = ctx.sy, ctx.prog
    t = sy.sym_terms.get(name)
    if t is None:
        return [], None
    t = unmut(t)
    # (*(MAP.get(k).ok_or(e)?)).comp   or   *(MAP.get(k).ok_or(e)?)
    comp = None
    x = t
    if x[0] == "field":
        comp, x = x[2], unmut(x[1])
    while x[0] == "deref":
        x = unmut(x[1])
    if x[0] == "try":
        x = unmut(x[1])
        if x[0] == "call" and short(x[1]) in ("Option::<T>::ok_or", "Option::<T>::ok_or_else"):
            x = unmut(x[2][0])
    elif x[0] == "downcast" and x[2] == "Some":
        x = unmut(x[1])
    elif x[0] == "field" and x[2] == 0 and unmut(x[1])[0] == "downcast" and unmut(x[1])[2] == "Some":
        x = unmut(unmut(x[1])[1])          # payload of `MAP.get(k)` bound by a pattern / by `.ok_or(e)?`
    else:
        x = None
    if x is not None and x[0] == "call" and short(x[1]) == "HashMap::<K, V, S, A>::get":
        m = unmut(x[2][0])
        maps = []
        cands = [m]
        if m[0] == "call" and LAZY_DEREF.match(m[1]):
            cands = [m]
        elif m[0] == "var":
            cands = [unmut(d) for d in (sy.var_defs(m[1]) or [])]
        for c in cands:
            while c[0] in ("ref", "deref"):
                c = unmut(c[1])
            mo = LAZY_DEREF.match(c[1]) if c[0] == "call" else None
            if not mo:
                return [], None
            maps.append(mo.group(1))
        xs = []
        for mp in maps:
            vals = map_built_from_table(prog, mp)
            if vals is None:
                return [], None
            xs += [v[comp] if comp is not None else v for v in vals]
        if xs and all(isinstance(v, int) for v in xs):
            return [Poly.sym(name) - Poly.const(min(xs)), Poly.const(max(xs)) - Poly.sym(name)], \
                "values of %s in [%d, %d]" % ("/".join(mp.split("::")[-1] for mp in maps), min(xs), max(xs))
        return [], None
    if t[0] == "index":
        base = unmut(t[1])
        while base[0] in ("deref", "ref"):
            base = unmut(base[1])
        defs = [base]
        if base[0] == "var":
            defs = [unmut(d) for d in (sy.var_defs(base[1]) or [])]
        tables = []
        for d in defs:
            while d[0] in ("deref", "ref"):
                d = unmut(d[1])
            if d[0] == "call" and d[1].endswith("::promoted"):
                d = unmut(d[2][0]) if d[2] else d
            if d[0] != "cdef":
                return [], None
            tables.append(d[1])
        xs = []
        for tb in tables:
            try:
                lit = prog.const_lit(tb)
            except Exception:
                return [], None
            if not isinstance(lit, list) or not all(isinstance(v, int) and not isinstance(v, bool) for v in lit):
                return [], None
            xs += lit
        if xs:
            return [Poly.sym(name) - Poly.const(min(xs)), Poly.const(max(xs)) - Poly.sym(name)], \
                "elements of %s in [%d, %d]" % ("/".join(tb.split("::")[-1] for tb in tables), min(xs), max(xs))
    return [], None


def fifo_total(prog):
    """premise of the chronobox_fifo unwrap: C07's grammar rules hold"""
    from . import report
    from .rules import c07
    sub = report.Result("C07", "other")
    c07.run(prog, "quick", sub)
    sub.check_floors()
    bad = [v for v in sub.violations if v.rule in ("C07.R3", "C07.R2", "C07.R1")]
    return not bad, ("C07.R1-R3 hold" if not bad else "premise broken: %s" % bad[0].what[:120])


def full_key_cover(prog, static_path):
    """premises of `full-key-cover` for a lazy HashMap<(KA, KC), V>"""
    from .rules.common import int_conversion_ranges, ranges_of
    ib = lazy_init_body(prog, static_path)
    if ib is None:
        return False, "no initialiser"
    an = analysis(prog, ib)
    sy = Sym(prog, an, slice_param=99)
    ins = [(bb, t) for bb, t in ib.calls() if short(cname(t)).endswith("::insert")]
    if len(ins) != 1:
        return False, "expected one insert, found %d" % len(ins)
    bb, t = ins[0]
    key = unmut(an.terms.operand(t["args"][1]))
    if key[0] != "aggr" or key[1] != "tuple" or len(key[2]) != 2:
        return False, "key is not a pair"
    loops = sorted(set(h for _, h in ib.back_edges()))
    if len(loops) != 2:
        return False, "expected two nested loops"
    ranges = []
    for comp in key[2]:
        c = unmut(comp)
        if not (c[0] == "call" and short(c[1]) in ("Result::<T, E>::unwrap", "Result::<T, E>::expect")):
            return False, "key component is not conv(..).unwrap()"
        conv = unmut(c[2][0])
        if conv[0] != "call":
            return False, "key component is not a conversion"
        fn = sy.call_sig(conv)
        if fn not in prog.bodies:
            return False, "key conversion %s is not a workspace function" % fn
        arg = unmut(conv[2][0])
        while arg[0] == "call" and (short(arg[1]) in ("From::from", "Into::into") or "impl std::convert::From<" in arg[1]):
            arg = unmut(arg[2][0])
        while arg[0] == "cast":
            arg = unmut(arg[2])
        # loop variable: (next(range iterator) as Some).0
        if not (arg[0] == "field" and arg[2] == 0 and unmut(arg[1])[0] == "downcast"):
            return False, "conversion argument is not a loop variable"
        nx = unmut(unmut(arg[1])[1])
        if not (nx[0] == "call" and short(nx[1]) == "Iterator::next"):
            return False, "conversion argument is not produced by a range iterator"
        it = unmut(nx[2][0])
        while it[0] == "call" and short(it[1]) == "IntoIterator::into_iter":
            it = unmut(it[2][0])
        rng = None
        if it[0] == "call" and short(it[1]) == "RangeInclusive::<Idx>::new":
            lo, hi = sy.poly(it[2][0]), sy.poly(it[2][1])
            if lo is not None and hi is not None and lo.is_const() and hi.is_const():
                rng = (int(lo.const_value()), int(hi.const_value()))
        elif it[0] == "aggr" and it[1].endswith("Range::Range"):
            lo, hi = sy.poly(it[2][0]), sy.poly(it[2][1])
            if lo is not None and hi is not None and lo.is_const() and hi.is_const():
                rng = (int(lo.const_value()), int(hi.const_value()) - 1)
        if rng is None:
            return False, "loop range is not constant"
        cb = prog.bodies[fn]
        cty = cb.locals[1]["ty"]
        if cty.get("k") != "int":
            return False, "conversion parameter is not an integer"
        dlo, dhi = (0, (1 << cty["w"]) - 1) if not cty["s"] else (-(1 << (cty["w"] - 1)), (1 << (cty["w"] - 1)) - 1)
        allowed, stored, unknown = int_conversion_ranges(prog, fn, dlo, dhi)
        if unknown:
            return False, "cannot summarise %s" % fn
        if ranges_of(allowed) != [[rng[0], rng[1]]]:
            return False, "loop range %s does not equal the accepted set %s of %s" % (rng, ranges_of(allowed), fn.split("::")[-3])
        ranges.append(rng)
        # every value of the key component type is the image of an accepted input
        mo = re.match(r"^<(alpha_g_[\w:]+) as std::convert::TryFrom<\w+>>::try_from$", fn)
        if not mo:
            return False, "cannot name the key type of %s" % fn
        adt = prog.adts.get(mo.group(1))
        if adt is None:
            return False, "unknown key type %s" % mo.group(1)
        if adt["kind"] == "enum":
            can = analysis(prog, cb)
            made = set()
            for _, okt in can.ok_sites():
                pay = unmut(okt[2][0]) if okt[2] else okt
                if pay[0] == "aggr" and pay[1].startswith("adt:" + mo.group(1) + "::"):
                    made.add(pay[1].split("::")[-1])
                else:
                    return False, "Ok payload of %s is not a variant literal" % fn
            names = [v if isinstance(v, str) else v.get("name") for v in adt["variants"]]
            if made != set(names) or len(allowed) != len(names):
                return False, "%s does not map its %d accepted inputs onto the %d variants" % (fn, len(allowed), len(names))
        else:
            from . import invariants
            fb_ = invariants.field_box(prog, mo.group(1), 0)
            if stored != ["arg1"] or fb_ is None or fb_[0] is None or fb_[1] is None or fb_[0] < rng[0] or fb_[1] > rng[1]:
                return False, "values of %s are not confined to the accepted inputs of %s (field range %s)" % (mo.group(1).split("::")[-1], fn, fb_)
    # the insert is on every iteration path of the inner loop, the inner loop on every iteration path of the outer one
    be = sorted(ib.back_edges(), key=lambda e: len(ib.natural_loop(e[0], e[1])))
    inner, outer = be[0], be[1]
    if bb not in ib.natural_loop(*inner) or not ib.natural_loop(*inner) < ib.natural_loop(*outer):
        return False, "insert is not inside two nested loops"
    if not ib.dominates(bb, inner[0]):
        return False, "insert can be skipped in an iteration"
    if not ib.dominates(inner[1], outer[0]):
        return False, "inner loop can be skipped in an outer iteration"
    return True, "keys = %s x %s, all inserted" % tuple(ranges)


STATEMENTS["some-unless-empty"] = ("if every constructor of a private struct stores Some(..) in field F or an empty Vec in field W, then for any value of "
                                   "the type, W non-empty implies F is Some (fields are private and no method mutates them)")


def field_accessors(prog, fn):
    """{variant or None: (struct adt, field index)} if `fn(&self)` returns a field of self, directly or through an enum
    wrapper whose every arm forwards to such an accessor of its payload; else None"""
    from .guards import accessor_field
    b = prog.bodies.get(fn)
    if b is None or b.argc != 1:
        return None
    sty = b.locals[1]["ty"]
    while sty.get("k") == "ref":
        sty = sty["t"]
    if sty.get("k") != "adt":
        return None
    fi = accessor_field(prog, fn)
    if fi is not None:
        return {None: (sty["p"], fi)}
    out = {}
    for r in closure_ret(prog, b):
        r = strip(r)
        if r[0] != "call" or r[1] not in prog.bodies or len(r[2]) != 1:
            return None
        a = strip(r[2][0])
        if not (a[0] == "field" and a[2] == 0 and strip(a[1])[0] == "downcast" and strip(strip(a[1])[1]) == ("param", 1)):
            return None
        inner = field_accessors(prog, r[1])
        if not inner or list(inner) != [None]:
            return None
        out[strip(a[1])[2]] = inner[None]
    a_ = prog.adts.get(sty["p"])
    if not out or a_ is None or a_["kind"] != "enum":
        return None
    names = set(v if isinstance(v, str) else v.get("name") for v in a_["variants"])
    if set(out) != names:
        return None
    return out


def struct_case_invariant(prog, adt, opt_field, vec_field):
    """every construction site of `adt` stores Some(..) in opt_field or an empty Vec in vec_field; no &mut self method
    writes either field"""
    from . import invariants
    if not invariants.is_private_struct(prog, adt):
        return False, "%s has public fields" % adt
    ss = invariants.sites(prog, adt)
    if not ss:
        return False, "no construction site of %s" % adt
    n_some = n_empty = 0
    for p, bi, s in ss:
        body = prog.bodies[p]
        an = analysis(prog, body)
        o = unmut(an.terms.operand(s["rv"]["ops"][opt_field]))
        w = unmut(an.terms.operand(s["rv"]["ops"][vec_field]))
        if o[0] == "aggr" and o[1].endswith("Option::Some"):
            n_some += 1
            continue
        if w[0] == "call" and short(w[1]) in ("Vec::<T>::new",) and not w[2]:
            n_empty += 1
            continue
        return False, "constructor in %s stores neither Some(..) in field %d nor an empty Vec in field %d" % (short(p), opt_field, vec_field)
    # no in-place mutation of the two fields: no statement assigns through a projection of a value of this type
    for p, body in prog.bodies.items():
        if "::tests::" in p:
            continue
        for bi, si, st in body.stmts():
            if st["k"] != "assign":
                continue
            lhs = st["p"]
            if st["rv"]["k"] == "ref" and st["rv"].get("m"):
                # a mutable borrow of one of the two fields counts as a write
                lhs = st["rv"]["p"]
            if not lhs["pr"]:
                continue
            ty = body.locals[lhs["l"]]["ty"]
            while ty.get("k") == "ref":
                ty = ty["t"]
            if ty.get("k") == "adt" and ty["p"] == adt and any(pr.get("k") == "field" and pr.get("i") in (opt_field, vec_field) for pr in lhs["pr"]):
                return False, "%s assigns field of %s in place" % (short(p), adt)
    return True, "%d constructor(s) with Some, %d with an empty Vec" % (n_some, n_empty)


def some_unless_empty(ctx, o):
    """unwrap of F(X) under a dominating `!G(X).is_empty()`"""
    sy, prog = ctx.sy, ctx.prog
    a = unmut(ctx.an.terms.operand(o.call["args"][0]))
    if a[0] != "call" or len(a[2]) != 1:
        return False, ""
    F = a[1] if a[1] in prog.bodies else sy.call_sig(a)
    fa = field_accessors(prog, F)
    if not fa:
        return False, ""
    xn = sy.arg_name(a[2][0])
    ge, ne, other = ctx.facts_at(o.bb)
    for at in other:
        if at[0] != "pred" or at[2] is not False:
            continue
        m = re.match(r"^(?:(?:<impl \[T\]>|Vec::<T, A>)::)?is_empty\((alpha_g_[\w:]+)\((.*)\)\)$", at[1])
        if not m or m.group(2) != xn:
            continue
        ga = field_accessors(prog, m.group(1))
        if not ga or set(ga) != set(fa):
            continue
        notes = []
        for v in fa:
            if fa[v][0] != ga[v][0]:
                break
            ok, note = struct_case_invariant(prog, fa[v][0], fa[v][1], ga[v][1])
            if not ok:
                return False, note
            notes.append("%s: %s" % (fa[v][0].split("::")[-1], note))
        else:
            return True, "; ".join(notes)
    return False, ""


STATEMENTS["member-lookup"] = ("if c is an element obtained by iterating the private field S of X, then S.iter().position(|x| *x == c) is Some "
                               "(derived, hence reflexive, PartialEq); a lookup F(X, c) that returns None only when that position is None returns Some")


def forwarders2(prog, fn):
    """{variant or None: inner fn} for a two-argument method that is either the real lookup or an enum wrapper whose arms
    forward (payload, arg2) to it"""
    b = prog.bodies.get(fn)
    if b is None or b.argc != 2:
        return None
    rets = [strip(r) for r in closure_ret(prog, b)]
    if rets and all(r[0] == "call" and r[1] in prog.bodies and len(r[2]) == 2 for r in rets):
        out = {}
        for r in rets:
            a = strip(r[2][0])
            if not (a[0] == "field" and a[2] == 0 and strip(a[1])[0] == "downcast" and strip(strip(a[1])[1]) == ("param", 1)):
                return {None: fn}
            if strip(r[2][1]) != ("param", 2):
                return None
            out[strip(a[1])[2]] = r[1]
        return out
    return {None: fn}


def member_lookup(ctx, o):
    from . import accept
    sy, prog = ctx.sy, ctx.prog
    a = unmut(ctx.an.terms.operand(o.call["args"][0]))
    if a[0] != "call" or len(a[2]) != 2:
        return False, ""
    F = a[1] if a[1] in prog.bodies else sy.call_sig(a)
    fw = forwarders2(prog, F)
    if not fw:
        return False, ""
    X, c = unmut(a[2][0]), unmut(a[2][1])
    # c is the element of a for-loop over G(X)
    if not (c[0] == "field" and c[2] == 0 and unmut(c[1])[0] == "downcast" and unmut(c[1])[2] == "Some"):
        return False, ""
    nx = unmut(unmut(c[1])[1])
    if not (nx[0] == "call" and short(nx[1]) == "Iterator::next"):
        return False, ""
    it = unmut(nx[2][0])
    while it[0] == "call" and short(it[1]) in ("IntoIterator::into_iter", "<impl [T]>::iter", "Iterator::copied", "Iterator::cloned") and it[2]:
        it = unmut(it[2][0])
    if it[0] != "call" or len(it[2]) != 1 or unmut(it[2][0]) != X:
        return False, "the looked-up key is not an element of a field of the same receiver"
    G = it[1] if it[1] in prog.bodies else sy.call_sig(it)
    ga = field_accessors(prog, G)
    if not ga or set(ga) != set(fw):
        return False, "%s is not a field accessor matching %s" % (short(G), short(F))
    notes = []
    for v, inner in fw.items():
        adt, fi = ga[v]
        rows = accept.ret_table(prog, inner)
        n_none = 0
        for atoms, val in rows:
            if val.startswith("None"):
                n_none += 1
                pat = r"^Iterator::position\(mut\(<impl \[T\]>::iter\(arg1\.%d\)\),\|x\| <(alpha_g_[\w:]+) as std::cmp::PartialEq>::eq\(x,arg2\)\) is None$" % fi
                pat_prim = r"^Iterator::position\(mut\(<impl \[T\]>::iter\(arg1\.%d\)\),\|x\| x Eq arg2\) is None$" % fi
                ms = [re.match(pat, s_) for s_ in atoms]
                ms = [m for m in ms if m]
                prim = any(re.match(pat_prim, s_) for s_ in atoms)
                if not ms and not prim:
                    return False, "%s can return None although the key is in field %d" % (short(inner), fi)
                if ms:
                    eqb = prog.bodies.get("<%s as std::cmp::PartialEq>::eq" % ms[0].group(1))
                    if eqb is None or not eqb.j["span"].get("exp"):
                        return False, "PartialEq of %s is not derived" % ms[0].group(1)
                else:
                    # `x == c` on a primitive: the element type must be an integer/bool/char (reflexive equality; not f32/f64)
                    ety = prog.bodies[inner].locals[2]["ty"] if prog.bodies[inner].argc >= 2 else {}
                    while ety.get("k") == "ref":
                        ety = ety["t"]
                    if ety.get("k") not in ("int", "bool", "char"):
                        return False, "equality of a non-integer primitive key may not be reflexive"
            elif not val.startswith("Some"):
                return False, "%s returns something other than Some/None literals" % short(inner)
        sb = prog.bodies[inner]
        sty = sb.locals[1]["ty"]
        while sty.get("k") == "ref":
            sty = sty["t"]
        if sty.get("p") != adt:
            return False, "receiver type mismatch"
        notes.append("%s returns None only if position(field %d == key) is None (%d None path(s))" % (short(inner), fi, n_none))
    return True, "; ".join(notes)
