"""Layer 1: guard atoms on dominating edges, return-value census, closure inlining."""
from . import terms as T
from .terms import Terms, cname, short, strip, same


class Analysis:
    """Per-body bundle: terms + guard atoms (memoised on the Program)."""

    def __init__(self, prog, body, positions=False):
        self.prog = prog
        self.body = body
        self.terms = Terms(body, prog, positions)
        self._edge_dom = {}

    # ------------------------------------------------------------------ edges
    def dominating_edges(self, bb):
        """All switch edges (s, t) such that every path entry ->* bb crosses s->t."""
        if bb in self._edge_dom:
            return self._edge_dom[bb]
        body = self.body
        out = []
        idom = body.idom()
        # candidate switch blocks: strict dominators of bb that end in a switch
        cands = []
        x = bb
        seen = set()
        while x in idom and x not in seen:
            seen.add(x)
            p = idom[x]
            if p == x:
                break
            if body.blocks[p]["t"]["k"] == "switch":
                cands.append(p)
            x = p
        for s in cands:
            for t in body.succ(s):
                reach = body.reach_from(0, avoid_edges={(s, t)})
                if bb not in reach:
                    out.append((s, t))
        self._edge_dom[bb] = out
        return out

    def edge_atom(self, s, t):
        """Normalised atom for switch edge s->t: (term, 'in'|'notin', frozenset(values))."""
        term = self.body.blocks[s]["t"]
        saved = self.terms._pos
        self.terms._pos = (s, "t")        # the discriminant is read by the switch itself
        try:
            d = self.terms.operand(term["d"])
        finally:
            self.terms._pos = saved
        vals = [v for v, tgt in term["vs"] if tgt == t]
        if term["otherwise"] == t and not vals:
            return (d, "notin", frozenset(v for v, _ in term["vs"]))
        if term["otherwise"] == t and vals:
            # both listed values and otherwise lead here: excluded = values leading elsewhere
            return (d, "notin", frozenset(v for v, tgt in term["vs"] if tgt != t))
        return (d, "in", frozenset(vals))

    def atoms_at(self, bb, _depth=0, drop_unfolded=False):
        dom_edges = list(self.dominating_edges(bb))
        out = [self.edge_atom(s, t) for (s, t) in dom_edges]
        if _depth >= 3:
            return out
        unfolded = []
        # a boolean local that is only ever assigned constants outside loops (`let a = matches!(x, P);`, `let ok = cond;`
        # lowered to branches): `a` being true at a later test means the one block that assigns `true` was executed, so
        # the guards that dominate that block held — `if a && b { .. }` then reads like the nested `if let` form
        extra = []
        for oi_, ((d, rel, vals), (test_blk, _)) in enumerate(zip(out, dom_edges)):
            d0 = d
            while d0[0] in ("ref", "deref"):
                d0 = d0[1]
            if d0[0] != "var":
                continue
            tr = truth_of(rel, vals)
            if tr is None:
                continue
            l = d0[1]
            ty = self.body.locals[l]["ty"]
            if ty.get("k") != "bool" or self.terms.defs.partial[l]:
                continue
            defs = self.terms.defs.whole[l]
            cand = []          # definitions that can make the local equal `tr`
            for (bi, si, x) in defs:
                if si != "t" and x.get("k") == "use" and x["o"].get("k") == "const" and isinstance(x["o"].get("v"), (bool, int)):
                    if bool(x["o"]["v"]) == tr:
                        cand.append((bi, si, None))
                else:
                    cand.append((bi, si, x))
            if len(defs) < 2 or len(cand) != 1:
                continue
            if any(self.in_loop(bi) for bi, _, _ in defs) and not self.assigned_this_iteration(test_blk, [bi for bi, _, _ in defs]):
                continue
            bi, si, x = cand[0]
            if bi == bb:
                continue
            extra += self.atoms_at(bi, _depth + 1)
            unfolded.append(oi_)
            if x is not None:
                # `a && b && c` as a value: the last operand is computed only when the others held, and is the value
                self.terms._pos = (bi, si)
                dt = self.terms.call_term(x, bi) if si == "t" else self.terms.rvalue(x)
                extra.append((dt, rel, vals))
        # the same for a local that only ever holds literal Option/Result variants (the result of an expanded helper with
        # `return None` / `Some(x)`): it being `Some` at a later test means the one block that builds `Some(..)` ran
        for (d, rel, vals), (test_blk, _) in zip(out, dom_edges):
            d0 = d
            while d0[0] in ("ref", "deref"):
                d0 = d0[1]
            if d0[0] != "discr":
                continue
            v0 = d0[1]
            while v0[0] in ("ref", "deref"):
                v0 = v0[1]
            if v0[0] != "var":
                continue
            l = v0[1]
            ty = self.body.locals[l]["ty"]
            if ty.get("k") != "adt" or self.terms.defs.partial[l]:
                continue
            tp = ty.get("p", "")
            if tp.endswith("option::Option"):
                names = {0: "None", 1: "Some"}
            elif tp.endswith("result::Result"):
                names = {0: "Ok", 1: "Err"}
            else:
                continue
            vs = sorted(vals)
            if rel == "in" and len(vs) == 1 and vs[0] in names:
                want = names[vs[0]]
            elif rel == "notin" and len(vs) == 1 and vs[0] in names:
                want = names[1 - vs[0]]
            else:
                continue
            defs = self.terms.defs.whole[l]
            if len(defs) < 2:
                continue
            match, okv = [], True
            for (bi, si, x) in defs:
                if si == "t" or x.get("k") != "aggr" or not str(x.get("p", "")).endswith(("option::Option", "result::Result")):
                    okv = False
                    break
                vn = x.get("vname")
                if vn is None:
                    vi = x.get("variant", x.get("v"))
                    vn = names.get(vi) if isinstance(vi, int) else None
                if vn is None:
                    okv = False
                    break
                if vn == want:
                    match.append(bi)
            if not okv or len(match) != 1 or match[0] == bb:
                continue
            if any(self.in_loop(bi) for bi, _, _ in defs) and not self.assigned_this_iteration(test_blk, [bi for bi, _, _ in defs]):
                continue
            extra += self.atoms_at(match[0], _depth + 1)
        seen = set()
        res = []
        if drop_unfolded and unfolded:
            # the test on the boolean local itself says nothing more than the atoms it was unfolded into
            out = [a for i_, a in enumerate(out) if i_ not in unfolded]
        for a in out + extra:
            k = (str(a[0]), a[1], tuple(sorted(a[2])) if hasattr(a[2], "__iter__") else a[2])
            if k not in seen:
                seen.add(k)
                res.append(a)
        return res

    def assigned_this_iteration(self, test_blk, def_blocks):
        """the local tested in `test_blk` (inside a loop) was assigned in the same iteration: the test and every
        definition lie in the same innermost loop, and the test cannot be reached from that loop's header without
        passing a definition"""
        loops = [(hd, set(self.body.natural_loop(tl, hd))) for (tl, hd) in self.body.back_edges()]
        byhd = {}
        for hd, lp in loops:
            byhd.setdefault(hd, set()).update(lp)
        inner = [(hd, lp) for hd, lp in byhd.items() if test_blk in lp]
        if not inner:
            return False
        hd, lp = min(inner, key=lambda x: len(x[1]))
        if any(b_ not in lp for b_ in def_blocks) or hd in def_blocks or test_blk in def_blocks:
            return False
        return not self.body.can_reach(hd, test_blk, avoid=def_blocks)

    def in_loop(self, bb):
        if not hasattr(self, "_loop_blocks"):
            lb = set()
            for (tl, hd) in self.body.back_edges():
                lb |= set(self.body.natural_loop(tl, hd))
            self._loop_blocks = lb
        return bb in self._loop_blocks

    def bool_atoms_at(self, bb):
        """Atoms as (term, truth) for boolean-like guards."""
        out = []
        for (d, rel, vals) in self.atoms_at(bb):
            tr = truth_of(rel, vals)
            if tr is not None:
                out.append((d, tr))
        return out

    # ------------------------------------------------------------------ sites
    def call_sites(self, pred):
        out = []
        for bb, t in self.body.calls():
            if pred(cname(t), t):
                out.append((bb, t))
        return out

    def ret_assignments(self):
        """(bb, term) for every whole assignment to _0 (the return place)."""
        out = []
        for (bi, si, x) in self.terms.defs.whole[0]:
            if si == "t":
                out.append((bi, self.terms.call_term(x, bi)))
            else:
                out.append((bi, self.terms.rvalue(x)))
        return out

    def ok_sites(self):
        return [(bb, t) for bb, t in self.ret_assignments()
                if t[0] == "aggr" and t[1].endswith("Result::Ok")]

    def err_sites(self):
        return [(bb, t) for bb, t in self.ret_assignments()
                if t[0] == "aggr" and t[1].endswith("Result::Err")]

    def some_sites(self):
        return [(bb, t) for bb, t in self.ret_assignments()
                if t[0] == "aggr" and t[1].endswith("Option::Some")]


def truth_of(rel, vals):
    if rel == "in" and vals == frozenset([0]):
        return False
    if rel == "notin" and vals == frozenset([0]):
        return True
    if rel == "in" and vals == frozenset([1]):
        return True
    if rel == "notin" and vals == frozenset([1]):
        return False
    return None


_AN = {}


def analysis(prog, body, positions=False):
    key = (id(prog), body.path, positions)
    a = _AN.get(key)
    if a is None:
        a = Analysis(prog, body, positions)
        _AN[key] = a
    return a


# ---------------------------------------------------------------------- comparison normalisation
FLIP = {"Lt": "Gt", "Gt": "Lt", "Le": "Ge", "Ge": "Le", "Eq": "Eq", "Ne": "Ne"}
NEG = {"Lt": "Ge", "Ge": "Lt", "Gt": "Le", "Le": "Gt", "Eq": "Ne", "Ne": "Eq"}
CMP_CALLS = {"PartialEq::eq": "Eq", "PartialEq::ne": "Ne", "PartialOrd::lt": "Lt", "PartialOrd::le": "Le",
             "PartialOrd::gt": "Gt", "PartialOrd::ge": "Ge"}


def impl_cmp(callee):
    import re as _re
    m = _re.match(r"^<.* as std::cmp::(PartialEq|PartialOrd)(?:<.*>)?>::(eq|ne|lt|le|gt|ge)$", callee)
    return {"eq": "Eq", "ne": "Ne", "lt": "Lt", "le": "Le", "gt": "Gt", "ge": "Ge"}[m.group(2)] if m else None


def as_cmp(term, truth=True):
    """Normalise a boolean term to (op, a, b) holding when the guard has the given truth;
    handles Not, MIR comparison binops and PartialEq/PartialOrd calls.  None if not a comparison."""
    t = term
    while t[0] == "un" and t[1] == "Not":
        t = t[2]
        truth = not truth
    if t[0] == "bin" and t[1] in FLIP:
        op, a, b = t[1], t[2], t[3]
        if len(t) == 5 and not truth and op not in ("Eq", "Ne"):
            # floats: !(a < b) is not (a >= b) when a NaN is involved; keep the negation explicit
            return ("Not" + op, a, b)
    elif t[0] == "call" and short(t[1]) in CMP_CALLS and len(t[2]) == 2:
        op, a, b = CMP_CALLS[short(t[1])], strip(t[2][0]), strip(t[2][1])

    else:
        return None
    if not truth:
        op = NEG[op]
    return (op, a, b)


def cmp_matches(c, op, pa, pb):
    """Does comparison c = (op', a, b) state `pa(a) op pb(b)` (or the flipped form)?"""
    if c is None:
        return False
    o, a, b = c
    if o == op and pa(a) and pb(b):
        return True
    if FLIP[o] == op and pa(b) and pb(a):
        return True
    return False


# ---------------------------------------------------------------------- closures
def closure_info(prog, parent_an, term):
    """For a term ("aggr", "closure:<path>", ops) return (closure body, captured terms)."""
    if term[0] != "aggr" or not term[1].startswith("closure:"):
        return None
    path = term[1][len("closure:"):]
    body = prog.bodies.get(path)
    if body is None:
        return None
    return body, term[2]


def closure_ret(prog, cbody):
    """Return-term(s) of a closure / small function body: list of terms assigned to _0."""
    an = analysis(prog, cbody)
    return [t for _, t in an.ret_assignments()]


def subst_upvars(t, captured):
    """Replace closure upvar accesses field(deref(param1), i) / field(param1, i) by captured[i]
    and closure arguments param k (k>=2) by ("carg", k-2)."""
    if not isinstance(t, tuple) or not t or not isinstance(t[0], str):
        return t
    if t[0] == "field" and t[1] in (("param", 1), ("deref", ("param", 1))) and t[2] < len(captured):
        return captured[t[2]]
    if t[0] == "param":
        if t[1] == 1:
            return ("cenv",)
        return ("carg", t[1] - 2)
    if t[0] == "call":
        # the call site belongs to the closure's body, not to the body the term is inlined into
        site = t[3] if isinstance(t[3], tuple) else ("cl", t[3])
        return ("call", t[1], tuple(subst_upvars(y, captured) if isinstance(y, tuple) else y for y in t[2]), site)
    out = [t[0]]
    for x in t[1:]:
        if isinstance(x, tuple) and x and isinstance(x[0], str):
            out.append(subst_upvars(x, captured))
        elif isinstance(x, tuple):
            out.append(tuple(subst_upvars(y, captured) if isinstance(y, tuple) else y for y in x))
        else:
            out.append(x)
    return tuple(out)


def field_index(prog, adt_path, field_name, variant=0):
    a = prog.adts.get(adt_path)
    if a is None:
        from .facts import AnchorMissing
        raise AnchorMissing("adt not found: %s" % adt_path)
    for i, f in enumerate(a["variants"][variant]["fields"]):
        if f["name"] == field_name:
            return i
    from .facts import AnchorMissing
    raise AnchorMissing("field %s not found in %s" % (field_name, adt_path))


def accessor_field(prog, fn_path):
    """If fn is `fn f(&self) -> T { self.<field> }` (possibly with copy/clone/ref), return the field
    index; else None."""
    b = prog.bodies.get(fn_path)
    if b is None or b.argc != 1:
        return None
    rets = closure_ret(prog, b)
    if len(rets) != 1:
        return None
    t = strip(rets[0])
    if t[0] == "field" and strip(t[1]) == ("param", 1):
        return t[2]
    return None


def is_field_of(prog, t, base_pred, adt_path, field_name):
    """t is `base.field` directly or through an accessor method returning that field."""
    t = strip(t)
    fi = field_index(prog, adt_path, field_name)
    if t[0] == "field" and t[2] == fi and base_pred(strip(t[1])):
        return True
    if t[0] == "call" and len(t[2]) == 1 and t[1] in prog.bodies:
        if accessor_field(prog, t[1]) == fi and base_pred(strip(t[2][0])):
            return True
    return False


def option_test(d, rel, vals):
    """If the switch edge `d rel vals` tests whether an Option value X is Some/None — through `X.is_some()`,
    `X.is_none()` or a `match`/`if let` on its discriminant — return (X, "some"|"none"); else None."""
    x = strip(d)
    tr = truth_of(rel, vals)
    if x[0] == "call" and len(x[2]) == 1 and short(x[1]) in ("Option::<T>::is_some", "Option::<T>::is_none") and tr is not None:
        some = (short(x[1]).endswith("is_some")) == tr
        return strip(x[2][0]), ("some" if some else "none")
    if x[0] == "discr":
        vs = sorted(vals)
        if (rel == "in" and vs == [1]) or (rel == "notin" and vs == [0]):
            return strip(x[1]), "some"
        if (rel == "in" and vs == [0]) or (rel == "notin" and vs == [1]):
            return strip(x[1]), "none"
    return None


def canon_cmp(c):
    """spell `a > b` as `b < a` and `a >= b` as `b <= a` (also for the float NotGt/NotGe forms)"""
    if c is None:
        return None
    op, a, b = c
    m = {"Gt": "Lt", "Ge": "Le", "NotGt": "NotLt", "NotGe": "NotLe"}
    if op in m:
        return (m[op], b, a)
    return c
