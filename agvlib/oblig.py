"""Layer 2: panic obligations of MIR bodies and their discharge.

Every MIR `Assert`, every call with a documented panic condition, every explicit panic and every
loop is an obligation.  An obligation is discharged from the *facts at the site*: the guard atoms on
dominating edges (canonical polynomials, sym.py), the value ranges of the symbols involved, and a few
structural summaries.  Anything else is OPEN (a violation) unless it matches an audited implication
whose premises are re-checked here.
"""
import re
from fractions import Fraction

from . import pp
from .guards import analysis, truth_of, as_cmp, closure_info
from .prover import Prover, poly_interval
from .sym import Sym, Poly, atom_str, INT_OP_CALL
from .terms import strip, short, cname, unmut, walk, same, show

INT_TYS = {"u8": (8, False), "u16": (16, False), "u32": (32, False), "u64": (64, False), "u128": (128, False), "usize": (64, False),
           "i8": (8, True), "i16": (16, True), "i32": (32, True), "i64": (64, True), "i128": (128, True), "isize": (64, True)}


def ty_range(ty):
    if ty is None:
        return None
    if ty.get("k") == "int":
        w, s = ty["w"], ty["s"]
        return (-(1 << (w - 1)), (1 << (w - 1)) - 1) if s else (0, (1 << w) - 1)
    return None


class Ob:
    def __init__(self, fn, bb, kind, desc, where):
        self.fn, self.bb, self.kind, self.desc, self.where = fn, bb, kind, desc, where
        self.verdict = None
        self.how = ""

    def key(self):
        return "%s:%s" % (self.kind, self.desc)


class Ctx:
    """analysis context of one body"""

    def __init__(self, prog, body, extra_facts=None, param_notes=None):
        self.prog = prog
        self.body = body
        self.an = analysis(prog, body, positions=True)
        sp = 99
        for i in range(1, body.argc + 1):
            ty = body.locals[i]["ty"]
            if ty.get("k") == "ref" and ty["t"].get("k") in ("slice", "str"):
                sp = i
                break
        self.sy = Sym(prog, self.an, slice_param=sp)
        self.sy.unique_locals = True
        self.extra = list(extra_facts or [])       # Poly >= 0 facts valid everywhere in the body
        self.notes = dict(param_notes or {})
        self._facts = {}
        self.alternatives = []     # alternative fact sets (one must hold): see param_invariants
        self.volatile = self.volatile_names()
        self._tv = {}
        self.used_audited = {}     # audited implication -> set of instance notes
        self._path = None
        self._path_facts = None
        if body.kind == "Closure":
            try:
                self.closure_context()
            except Exception:
                pass
        self.param_invariants()

    GROW_ONLY = ("Vec::<T, A>::push", "Vec::<T, A>::extend_from_slice", "Extend::extend", "Vec::<T, A>::insert", "Vec::<T, A>::reserve",
                 "<impl [T]>::sort_unstable_by_key", "<impl [T]>::sort_by_key", "<impl [T]>::sort_unstable", "<impl [T]>::sort",
                 "<impl [T]>::sort_unstable_by", "<impl [T]>::sort_by", "<impl [T]>::iter_mut", "IndexMut::index_mut", "<impl [T]>::reverse",
                 "<impl [T]>::swap", "<impl [T]>::copy_from_slice", "<impl [T]>::fill", "DerefMut::deref_mut", "Vec::<T, A>::as_mut_slice",
                 "IntoIterator::into_iter", "<impl [T]>::chunks_exact_mut", "<impl [T]>::last_mut", "<impl [T]>::first_mut", "<impl [T]>::get_mut",
                 "Iterator::next", "Iterator::by_ref", "String::push", "String::push_str")

    def volatile_names(self):
        """canonical names of sequence locals whose length may SHRINK somewhere in this body (a `&mut` borrow of the
        local reaches a call that is not known to only grow / permute it).  The analysis names values, not program
        points, so a length fact established before such a call would be applied after it: every fact that mentions
        such a local is discarded instead (sound, imprecise)."""
        out = set()
        body, tm = self.body, self.an.terms

        def base_local(t):
            while True:
                if t[0] in ("ref", "deref"):
                    t = t[1]
                elif t[0] == "mut":
                    return ("mut", t[1]), t
                elif t[0] in ("param", "var"):
                    return (t[0], t[1]), t
                elif t[0] == "call" and short(t[1]) in ("DerefMut::deref_mut", "Deref::deref", "Vec::<T, A>::as_mut_slice") and t[2]:
                    t = t[2][0]
                else:
                    return None, None

        def seq_ty(l):
            ty = body.locals[l]["ty"]
            while ty.get("k") == "ref":
                ty = ty["t"]
            return ty.get("k") in ("slice", "str") or (ty.get("k") == "adt" and ty.get("p", "").split("::")[-1] in ("Vec", "String", "VecDeque"))
        for bb, t in body.calls():
            s_ = short(cname(t))
            for i, a in enumerate(t["args"]):
                if a.get("k") not in ("move", "copy"):
                    continue
                l0 = a["p"]["l"]
                lty = body.locals[l0]["ty"]
                if not (lty.get("k") == "ref" and lty.get("m")):
                    continue
                term = tm.operand(a)
                key, bt = base_local(term)
                if key is None or not seq_ty(key[1]):
                    continue
                if s_ in self.GROW_ONLY and i == 0:
                    continue
                if s_ == "Vec::<T, A>::append" and i == 0:
                    continue
                out.add(self.sy.name(bt))
        # places overwritten through a reference or inside a parameter (`*input = &input[2..]`, `c.pos += 1`): the
        # canonical name of the place denotes both the old and the new value
        for bi, si, st in body.stmts():
            if st["k"] != "assign":
                continue
            pl = st["p"]
            if not pl["pr"]:
                continue
            if any(e["k"] == "deref" for e in pl["pr"]) or 1 <= pl["l"] <= body.argc:
                try:
                    out.add(self.sy.name(tm.place(pl)))
                except Exception:
                    pass
        # a local redefined in terms of itself outside a loop (`t = &t[3..]`)
        for l in range(body.argc + 1, len(body.locals)):
            defs = tm.defs.whole[l]
            if len(defs) < 2:
                continue
            for (bi, si, x) in defs:
                try:
                    dt = tm.call_term(x, bi) if si == "t" else tm.rvalue(x)
                except Exception:
                    continue
                if any(y[0] in ("var", "mut") and y[1] == l for y in walk(dt)):
                    out.add(self.sy.name(("var", l)))
                    break
        return out

    def mentions_volatile(self, text):
        for nm in self.volatile:
            if re.search(r"(?<![\w.])%s(?![\w])" % re.escape(nm), text):
                return True
        return False

    def param_invariants(self):
        """facts that hold for parameters of a private-struct type (constructor census)"""
        from . import invariants
        for i in range(1, self.body.argc + 1):
            ty = self.body.locals[i]["ty"]
            while ty.get("k") == "ref":
                ty = ty["t"]
            if ty.get("k") != "adt" or ty["p"] not in self.prog.adts:
                continue
            adt = ty["p"]
            if not invariants.is_private_struct(self.prog, adt):
                continue
            # do not use a type's invariant while analysing its own constructor
            if any(p == self.body.path for p, _, _ in invariants.sites(self.prog, adt)):
                continue
            cf = invariants.constructor_facts(self.prog, adt, "arg%d" % i)
            if cf:
                if len(cf) == 1:
                    self.extra.extend(cf[0][0])
                else:
                    # the value was built along one of several paths: obligations must hold under each alternative
                    self.alternatives = [facts for facts, _ in cf] if not self.alternatives else \
                        [x + y for x in self.alternatives for (y, _) in cf][:16]
                for facts, boxes in cf:
                    for k, v in boxes.items():
                        old_ = self.sy.sym_box.get(k)
                        if old_ is None:
                            self.sy.sym_box[k] = v
                        else:
                            lo_ = None if old_[0] is None or v[0] is None else min(old_[0], v[0])
                            hi_ = None if old_[1] is None or v[1] is None else max(old_[1], v[1])
                            self.sy.sym_box[k] = (lo_, hi_)
            a = self.prog.adts[adt]
            for fi, f in enumerate(a["variants"][0]["fields"]):
                if f["ty"].get("k") == "adt" and f["ty"]["p"].endswith("::Vec"):
                    lb = invariants.len_box(self.prog, adt, fi)
                    if lb is not None:
                        nm = "len(arg%d.%d)" % (i, fi)
                        old = self.sy.sym_box.get(nm, (0, (1 << 63) - 1))
                        lo = lb[0] if lb[0] is not None else old[0]
                        hi = lb[1] if lb[1] is not None else old[1]
                        self.sy.sym_box[nm] = (lo, hi)

    # ------------------------------------------------------------------ closures
    def closure_context(self):
        """facts about a closure's parameters / captures from the (single) call that receives it"""
        prog, body = self.prog, self.body
        parent_path = body.j.get("direct_parent") or body.j.get("parent")
        parent = prog.bodies.get(parent_path)
        if parent is None:
            return
        inl = getattr(prog, "inlined", {}).get(parent_path)
        if inl:
            # the helper that builds this closure was expanded into its caller(s): the closure is constructed there
            # (with one caller the context is that caller's; with several, none is assumed)
            if len(inl) != 1:
                return
            parent = prog.bodies.get(next(iter(inl)))
            if parent is None:
                return
        pctx = Ctx(prog, parent)
        pan, psy = pctx.an, pctx.sy
        site = None
        for bb, t in parent.calls():
            for i, a in enumerate(t["args"]):
                term = strip(pan.terms.operand(a))
                if term[0] == "aggr" and term[1] == "closure:" + body.path:
                    site = (bb, t, i, term)
        if site is None:
            return
        bb, t, argi, cterm = site
        consumer = short(cname(t))
        src = unmut(pan.terms.operand(t["args"][0])) if argi > 0 else None
        # element facts
        if src is not None and consumer in ("Iterator::map", "Iterator::for_each", "Iterator::filter", "Iterator::any", "Iterator::all", "Iterator::position", "Iterator::find", "Iterator::filter_map"):
            def unref(x):
                while x[0] in ("ref", "deref"):
                    x = x[1]
                return x

            def step(x):
                x = unref(x)
                # iterator temporaries are `mut`-marked; look through the marker for iterator values only
                if x[0] == "mut" and strip(x[2])[0] == "call" and (short(strip(x[2])[1]).startswith("Iterator::") or short(strip(x[2])[1]) in ("IntoIterator::into_iter", "<impl [T]>::iter")):
                    x = unref(x[2])
                return x
            base = step(pan.terms.operand(t["args"][0]))
            while base[0] == "call" and short(base[1]) in ("Iterator::rev", "IntoIterator::into_iter", "Iterator::copied", "Iterator::cloned", "Iterator::take", "Iterator::skip", "<impl [T]>::iter") and base[2]:
                if short(base[1]) == "<impl [T]>::iter":
                    break
                base = step(base[2][0])
            if base[0] == "call" and short(base[1]) == "<impl [T]>::chunks_exact" and len(base[2]) == 2:
                k = psy.poly(base[2][1])
                if k is not None and k.is_const():
                    kk = int(k.const_value())
                    self.extra.append(Poly.sym("L") - Poly.const(kk))
                    self.extra.append(Poly.const(kk) - Poly.sym("L"))
            # elements of a Vec filled by pushes: range of the pushed values
            if base[0] == "mut":
                init = strip(base[2])
                if init[0] == "call" and short(init[1]) in ("Vec::<T>::new", "Vec::<T>::with_capacity"):
                    lo_hi = None
                    for pb_, pt in parent.calls():
                        if short(cname(pt)) == "Vec::<T, A>::push":
                            a0 = pan.terms.operand(pt["args"][0])
                            while a0[0] in ("ref", "deref"):
                                a0 = a0[1]
                            if a0[0] == "mut" and a0[1] == base[1]:
                                vp = psy.poly(pan.terms.operand(pt["args"][1]))
                                if vp is None:
                                    lo_hi = (None, None)
                                    continue
                                pr, _, _ = pctx.prover_at(pb_, [vp])
                                lo, hi = poly_interval(vp, pr.box)
                                lo_hi = (lo, hi) if lo_hi is None else (None if lo is None or lo_hi[0] is None else min(lo, lo_hi[0]),
                                                                        None if hi is None or lo_hi[1] is None else max(hi, lo_hi[1]))
                    if lo_hi is not None:
                        nm = "arg2"
                        old = self.sy.sym_box.get(nm)
                        self.param_box = {nm: lo_hi}
        # captured values: lengths known at the call site in the parent
        caps = cterm[2]
        pr_ge, pr_ne, pr_other = pctx.facts_at(bb)
        pr_ge = list(pr_ge) + pctx.derived(bb, pr_ge, pr_ne, pr_other, [])
        from .invariants import tighten as _tighten
        upv = body.j.get("upvars") or []
        for i, cap in enumerate(caps):
            # integer captured by value or by shared reference: its proven range at the closure's creation
            mut_cap = False
            for uv in upv:
                for pr_ in uv["p"]["pr"]:
                    if pr_.get("k") == "field" and pr_.get("i") == i and (pr_.get("ty") or {}).get("k") == "ref" and pr_["ty"].get("m"):
                        mut_cap = True
            if not mut_cap:
                pc = psy.poly(cap)
                if pc is not None:
                    prc, _, _ = pctx.prover_at(bb, [pc])
                    lo_c, hi_c = poly_interval(pc, prc.box)
                    lo_c, hi_c = _tighten(prc, pc, lo_c, hi_c)
                    if lo_c is not None or hi_c is not None:
                        nm_c = "arg1.%d" % i
                        old_c = self.sy.sym_box.get(nm_c, (None, None))
                        self.sy.sym_box[nm_c] = (lo_c if old_c[0] is None else (old_c[0] if lo_c is None else max(lo_c, old_c[0])),
                                                 hi_c if old_c[1] is None else (old_c[1] if hi_c is None else min(hi_c, old_c[1])))
                        self.cap_box = getattr(self, "cap_box", {})
                        self.cap_box[nm_c] = self.sy.sym_box[nm_c]
        for i, cap in enumerate(caps):
            cname_ = psy.name(unmut(cap))
            for f in pr_ge:
                for sname in f.syms():
                    if sname == "len(%s)" % cname_:
                        # rename to the closure's view of the capture
                        new = "len(arg1.%d)" % i
                        self.sy.sym_box.setdefault(new, (0, (1 << 63) - 1))
                        g = Poly({tuple(new if x == sname else x for x in m): c for m, c in f.m.items()})
                        if all(x == new for m in g.m for x in m):
                            self.extra.append(g)

    # ------------------------------------------------------------------ facts
    def facts_at(self, bb):
        if self._path is not None:
            return self._path_facts
        if bb in self._facts:
            return self._facts[bb]
        ge, ne, other = list(self.extra), [], []
        for (d, rel, vals) in self.an.atoms_at(bb):
            blk = None
            for a in self.sy.atoms(d, rel, vals, is_bool=self._is_bool_switch(d)):
                if a[0] == "rel":
                    p, op = a[2], a[3]
                    if op == ">=":
                        ge.append(p)
                    elif op == "==":
                        ge.append(p)
                        ge.append(-p)
                    else:
                        ne.append(p)
                else:
                    other.append(a)
        if self.volatile:
            ge = [p for p in ge if not self.mentions_volatile(str(p))]
            ne = [p for p in ne if not self.mentions_volatile(str(p))]
            other = [a for a in other if not self.mentions_volatile(atom_str(a))]
        self._facts[bb] = (ge, ne, other)
        return self._facts[bb]

    def enter_path(self, path):
        """evaluate under one concrete acyclic path (edges, blocks): multi-definition locals resolve to the
        definition on the path, facts are the atoms of all switch edges on the path"""
        edges, blocks = path
        self._path = path
        self.sy.set_path(blocks)
        ge, ne, other = list(self.extra), [], []
        for (s_, t_) in edges:
            for a in self.sy.atoms_of_edge(s_, t_):
                if a[0] == "rel":
                    p, op = a[2], a[3]
                    if op == ">=":
                        ge.append(p)
                    elif op == "==":
                        ge.append(p)
                        ge.append(-p)
                    else:
                        ne.append(p)
                else:
                    other.append(a)
        if self.volatile:
            ge = [p for p in ge if not self.mentions_volatile(str(p))]
            ne = [p for p in ne if not self.mentions_volatile(str(p))]
            other = [a for a in other if not self.mentions_volatile(atom_str(a))]
        self._path_facts = (ge, ne, other)

    def leave_path(self):
        self._path = None
        self._path_facts = None
        self.sy.set_path(None)

    def _is_bool_switch(self, d):
        # find the switch whose discriminant term is d to read its type
        return True

    def box(self, polys):
        b = {}
        for p in polys:
            for s in p.syms():
                b[s] = self.sy.sym_box.get(s, (None, None))
                pb_ = getattr(self, "param_box", {}).get(s) or getattr(self, "cap_box", {}).get(s)
                if pb_ is not None:
                    lo, hi = b[s]
                    nlo = pb_[0] if lo is None else (lo if pb_[0] is None else max(lo, pb_[0]))
                    nhi = pb_[1] if hi is None else (hi if pb_[1] is None else min(hi, pb_[1]))
                    b[s] = (nlo, nhi)
        return b

    def prover_at(self, bb, goal_polys):
        ge, ne, other = self.facts_at(bb)
        ge = list(ge)
        for _ in range(2):
            dv = self.derived(bb, ge, ne, other, goal_polys)
            if self.volatile:
                dv = [p for p in dv if not self.mentions_volatile(str(p))]
            ge += dv
        box = self.box(list(ge) + list(goal_polys))
        return Prover(ge, box), ne, other

    # ------------------------------------------------------------------ derived facts
    def derived(self, bb, ge, ne, other, goals):
        """facts that follow from the meaning of the symbols occurring in the goal / facts"""
        sy = self.sy
        out = []
        syms = set()
        for p in list(ge) + list(goals):
            syms.update(p.syms())
        have = set(str(f) for f in ge)
        # symbols occurring inside the names of other symbols (e.g. the operand of leading_zeros)
        for _ in range(2):
            for k in list(sy.sym_box):
                if k not in syms and len(k) > 3 and any(k in n and k != n for n in syms):
                    syms.add(k)

        def add(p):
            if str(p) not in have:
                have.add(str(p))
                out.append(p)
        ne_names = set()
        for n in ne:
            ne_names.add(str(n))
            ne_names.add(str(-n))
        # `s.get(i)` is Some: i indexes an element that exists in memory, so i < isize::MAX (and i < len(s) for a
        # sequence that is not modified afterwards)
        for a_ in other:
            if a_[0] == "some" and len(a_) > 2:
                g_ = a_[2]
                while g_[0] in ("ref", "deref"):
                    g_ = g_[1]
                if g_[0] == "call" and short(g_[1]) in ("<impl [T]>::get", "Vec::<T, A>::get") and len(g_[2]) == 2:
                    pi_ = sy.poly(g_[2][1])
                    if pi_ is not None:
                        add(Poly.const((1 << 63) - 2) - pi_)
                        add(pi_)
                        sq_ = g_[2][0]
                        while sq_[0] in ("ref", "deref"):
                            sq_ = sq_[1]
                        while sq_[0] == "call" and short(sq_[1]) in ("Deref::deref", "Vec::<T, A>::as_slice") and len(sq_[2]) == 1:
                            sq_ = sq_[2][0]
                            while sq_[0] in ("ref", "deref"):
                                sq_ = sq_[1]
                        if not stateful(sq_):
                            ln_ = seq_len_poly(self, sq_)
                            if ln_ is not None:
                                add(ln_ - Poly.const(1) - pi_)
        # integers: p != 0 together with p >= 0 (p <= 0) is p >= 1 (p <= -1)
        for n in ne:
            try:
                pr_n = Prover(list(ge), self.box(list(ge) + [n]))
                if pr_n.prove_ge0(n)[0]:
                    add(n - Poly.const(1))
                elif pr_n.prove_ge0(-n)[0]:
                    add(-n - Poly.const(1))
            except Exception:
                pass
        # casts whose operand is bounded by the guards on this path are the identity
        for name in sorted(syms):
            if name.startswith("cast<") and name in getattr(sy, "casts", {}):
                p_c, (lo_c, hi_c) = sy.casts[name]
                try:
                    pr_c = Prover(list(ge), self.box(list(ge) + [p_c]))
                    ok1, _ = pr_c.prove_ge0(p_c - Poly.const(lo_c))
                    ok2, _ = pr_c.prove_ge0(Poly.const(hi_c) - p_c)
                except Exception:
                    ok1 = ok2 = False
                if ok1 and ok2:
                    add(Poly.sym(name) - p_c)
                    add(p_c - Poly.sym(name))
        for name in sorted(syms):
            # truncated division: P = k*div + rem
            if name in sy.divrem:
                kind, P, k = sy.divrem[name]
                dn, rn = "div(%s,%d)" % (P, k), "rem(%s,%d)" % (P, k)
                for nm_, kd in ((dn, "div"), (rn, "rem")):
                    if nm_ not in sy.sym_box:
                        # create the sibling symbol with its range
                        alo, ahi = poly_interval(P, {s_: sy.sym_box.get(s_, (None, None)) for s_ in P.syms()})
                        if kd == "rem":
                            sy.sym_box[nm_] = (0, k - 1) if (alo is not None and alo >= 0) else (-(k - 1), k - 1)
                        else:
                            lo_ = None if alo is None else (int(alo) // k if alo >= 0 else -((-int(alo)) // k))
                            hi_ = None if ahi is None else (int(ahi) // k if ahi >= 0 else -((-int(ahi)) // k))
                            sy.sym_box[nm_] = (lo_, hi_)
                        sy.divrem[nm_] = (kd, P, k)
                eq = P - Poly.sym(dn).scale(k) - Poly.sym(rn)
                add(eq)
                add(-eq)
            # phi of alternatives differing by constants
            if name in sy.phis:
                alts = sy.phis[name]
                base = alts[0]
                diffs = [a - base for a in alts]
                if all(d.is_const() for d in diffs):
                    cs = [d.const_value() for d in diffs]
                    add(Poly.sym(name) - base - Poly.const(min(cs)))
                    add(base + Poly.const(max(cs)) - Poly.sym(name))
            if name not in self._tv:
                from . import audited
                self._tv[name] = audited.table_value_facts(self, name)
            tvf, note = self._tv[name]
            for f_ in tvf:
                add(f_)
            if note:
                self.used_audited.setdefault("table-values", set()).add(note)
            m = re.match(r"^<impl u(\d+)>::trailing_zeros\((.*)\)$", name)
            if m:
                # a non-zero x <= 2^b - 1 has its lowest set bit below b
                inner = m.group(2)
                if inner in ne_names:
                    pr0 = Prover(list(ge) + out, self.box(list(ge) + out + [Poly.sym(inner)]) if inner in sy.sym_box else {})
                    ilo, ihi = pr0.box.get(inner, sy.sym_box.get(inner, (None, None)))
                    b = int(m.group(1)) if ihi is None or ihi < 0 else int(ihi).bit_length()
                    add(Poly.const(b - 1) - Poly.sym(name))
            m = re.match(r"^<impl u(\d+)>::leading_zeros\((.*)\)$", name)
            if m:
                inner = m.group(2)
                if inner in ne_names:
                    add(Poly.const(int(m.group(1)) - 1) - Poly.sym(name))
                # lower bound from an upper bound on the operand: x <= 2^b - 1  =>  lz >= N - b
                pr0 = Prover(list(ge) + out, self.box(list(ge) + out + [Poly.sym(inner)]) if inner in sy.sym_box else {})
                ilo, ihi = pr0.box.get(inner, sy.sym_box.get(inner, (None, None)))
                if ihi is not None and ihi >= 0:
                    b = int(ihi).bit_length()
                    add(Poly.sym(name) - Poly.const(int(m.group(1)) - b))
            # index produced by enumerate()/position() over a sequence S: 0 <= idx <= len(S) - 1
            m = re.match(r"^\(Iterator::next\(mut\(Iterator::enumerate\(<impl \[T\]>::iter\((.*)\)\)\)\) as Some\)\.0\.0$", name)
            if m:
                ln = self.len_sym(m.group(1))
                add(ln - Poly.const(1) - Poly.sym(name))
                add(Poly.sym(name))
            m = re.match(r"^\(Iterator::next\(mut\(Iterator::enumerate\(<impl \[T\]>::(windows|chunks_exact)\((.*),(\d+)\)\)\)\) as Some\)\.0\.0$", name)
            if m:
                # k-th window / chunk of s: k + n <= len(s) (windows), k * n + n <= len(s) (chunks_exact); in both k < len(s)
                ln = self.len_sym(m.group(2))
                n_ = int(m.group(3))
                if n_ >= 1:
                    if m.group(1) == "windows":
                        add(ln - Poly.const(n_) - Poly.sym(name))
                    else:
                        add(ln - Poly.const(n_) - Poly.sym(name).scale(n_))
                    add(Poly.sym(name))
            if name.startswith(("(Iterator::position(", "(Iterator::rposition(", "Option::<T>::unwrap(Iterator::position(", "Option::<T>::unwrap(Iterator::rposition(",
                                "Option::<T>::expect(Iterator::position(", "Option::<T>::expect(Iterator::rposition(")):
                # structural: the index found in s[lo..hi] (any spelling of the sub-sequence) is < hi - lo and < len(s) - lo
                # (`(pos as Some).0` behind a guard, or the value `pos.unwrap()` returns when it returns)
                tq_ = sy.sym_terms.get(name)
                if tq_ is not None:
                    xq_ = unmut(tq_)
                    cq_ = None
                    if xq_[0] == "field" and xq_[2] == 0 and unmut(xq_[1])[0] == "downcast":
                        cq_ = unmut(unmut(xq_[1])[1])
                    elif xq_[0] == "call" and short(xq_[1]) in ("Option::<T>::unwrap", "Option::<T>::expect") and xq_[2]:
                        cq_ = unmut(xq_[2][0])
                    if cq_ is not None:
                        if cq_[0] == "call" and short(cq_[1]) in ("Iterator::position", "Iterator::rposition") and len(cq_[2]) == 2:
                            from . import quant as _quant
                            psq = _quant.parse_seq(self.prog, self.an, sy, cq_[2][0])
                            if psq is not None and not psq[4]:
                                base_q, lo_q, hi_q = psq[0], psq[1], psq[2]
                                lnq = seq_len_poly(self, base_q)
                                if lnq is not None:
                                    add(lnq - lo_q - Poly.const(1) - Poly.sym(name))
                                if hi_q is not None:
                                    add(hi_q - lo_q - Poly.const(1) - Poly.sym(name))
                                add(Poly.sym(name))
            m = re.match(r"^\(Iterator::position\(mut\((.*)\),.*\) as Some\)\.0$", name)
            if m:
                it = m.group(1)
                mm = re.match(r"^Iterator::take\(<impl \[T\]>::iter\((.*)\),(.*)\)$", it)
                if mm:
                    # bound by the take count (and by the length)
                    cnt = [p for p in [self.poly_by_str(mm.group(2))] if p is not None]
                    for c_ in cnt:
                        add(c_ - Poly.const(1) - Poly.sym(name))
                    add(self.len_sym(mm.group(1)) - Poly.const(1) - Poly.sym(name))
                mm = re.match(r"^<impl \[T\]>::iter\((.*)\)$", it)
                if mm:
                    add(self.len_sym(mm.group(1)) - Poly.const(1) - Poly.sym(name))
                add(Poly.sym(name))
            if name.startswith("(Iterator::next(mut(Range{") or name.startswith("(Iterator::next(mut(RangeInclusive"):
                # loop variable of `for i in lo..hi` / `lo..=hi`
                tt_ = sy.sym_terms.get(name)
                rg_ = None
                if tt_ is not None:
                    x_ = unmut(tt_)
                    if x_[0] == "field" and x_[2] == 0 and unmut(x_[1])[0] == "downcast":
                        nx_ = unmut(unmut(x_[1])[1])
                        if nx_[0] == "call" and short(nx_[1]) == "Iterator::next":
                            it_ = unmut(nx_[2][0])
                            while it_[0] == "call" and short(it_[1]) == "IntoIterator::into_iter" and it_[2]:
                                it_ = unmut(it_[2][0])
                            if it_[0] == "aggr" and it_[1].endswith("Range::Range") and len(it_[2]) == 2:
                                rg_ = (sy.poly(it_[2][0]), sy.poly(it_[2][1]), 1)
                            elif it_[0] == "call" and short(it_[1]) == "RangeInclusive::<Idx>::new" and len(it_[2]) == 2:
                                rg_ = (sy.poly(it_[2][0]), sy.poly(it_[2][1]), 0)
                if rg_ is not None and rg_[0] is not None and rg_[1] is not None:
                    add(Poly.sym(name) - rg_[0])
                    add(rg_[1] - Poly.const(rg_[2]) - Poly.sym(name))
            if name.startswith("Option::<T>::unwrap_or(Iterator::position("):
                for f_ in self.position_or_default(name, ge, other):
                    add(f_)
            if name.startswith("Iterator::count("):
                # the number of elements an adapter chain lets through is at most the length of the sequence it walks
                t_c = sy.sym_terms.get(name)
                it_c = unmut(t_c[2][0]) if t_c is not None and unmut(t_c)[0] == "call" and len(unmut(t_c)[2]) == 1 else None
                if it_c is not None:
                    it_c = unmut(unmut(t_c)[2][0])
                    while it_c[0] == "call" and short(it_c[1]) in ("Iterator::take_while", "Iterator::filter", "Iterator::skip_while", "Iterator::skip", "Iterator::take",
                                                                  "Iterator::map", "Iterator::copied", "Iterator::cloned", "IntoIterator::into_iter", "Iterator::enumerate") and it_c[2]:
                        it_c = unmut(it_c[2][0])
                    if it_c[0] == "call" and short(it_c[1]) == "<impl [T]>::iter" and len(it_c[2]) == 1:
                        ln_c = seq_len_poly(self, it_c[2][0])
                        if ln_c is not None:
                            add(ln_c - Poly.sym(name))
                add(Poly.sym(name))
            m = re.match(r"^<impl u(\d+)>::from_str_radix\(\[(.*)\.\.(.*)\),(\d+)\)\?$", name)
            if m:
                a_, b_ = self.poly_by_str(m.group(2)), self.poly_by_str(m.group(3))
                radix = int(m.group(4))
                if a_ is not None and b_ is not None:
                    pr = Prover(ge, self.box(list(ge) + [a_, b_]))
                    for n_digits in (1, 2):
                        ok, _ = pr.prove_ge0(Poly.const(n_digits) - (b_ - a_))
                        if ok:
                            add(Poly.const(radix ** n_digits - 1) - Poly.sym(name))
                            break
                add(Poly.sym(name))
            # bit-slice of an input field with bits forced to zero by guards on this path
            m = re.match(r"^(u8|le16|le32|le64|le128|be16|be32|be64|be128)@(L[-+]\d+|\d+|L)(?:\[(\d+)\.\.(\d+)\])?$", name)
            if m:
                forced0 = set()
                for a in other:
                    if a[0] == "bit" and a[2] == 0:
                        forced0.add(a[1])
                # a bit-slice that a guard compares with zero as a whole (`(x >> 24) != 0` rejected): all its bits
                SEL_RE = r"^(u8|le16|le32|le64|le128|be16|be32|be64|be128)@(L[-+]\d+|\d+|L)(?:\[(\d+)\.\.(\d+)\])?$"
                for f_ in ge:
                    if len(f_.m) == 1:
                        (mono_, c_), = f_.m.items()
                        if c_ < 0 and len(mono_) == 1:
                            mz = re.match(SEL_RE, mono_[0])
                            if mz:
                                kz, pz = mz.group(1), mz.group(2)
                                nbz = 1 if kz == "u8" else int(kz[2:]) // 8
                                loz = int(mz.group(3)) if mz.group(3) else 0
                                hiz = int(mz.group(4)) if mz.group(4) else nbz * 8
                                mp2 = re.match(r"^(L)?([-+]?\d+)?$", pz)
                                bL, bs = bool(mp2.group(1)), int(mp2.group(2) or 0)
                                for j in range(loz, hiz):
                                    bo = (j // 8) if (kz.startswith("le") or kz == "u8") else (nbz - 1 - j // 8)
                                    kp = bs + bo
                                    key_ = (("L%+d" % kp) if kp else "L") if bL else str(kp)
                                    forced0.add("%s.%d" % (key_, j % 8))
                kind, pos = m.group(1), m.group(2)
                nbytes = 1 if kind == "u8" else int(kind[2:]) // 8
                lo_b = int(m.group(3)) if m.group(3) else 0
                hi_b = int(m.group(4)) if m.group(4) else nbytes * 8
                mmp = re.match(r"^(L)?([-+]?\d+)?$", pos)
                baseL, base = bool(mmp.group(1)), int(mmp.group(2) or 0)
                val = 0
                for j in range(lo_b, hi_b):
                    bo = (j // 8) if (kind.startswith("le") or kind == "u8") else (nbytes - 1 - j // 8)
                    kpos = base + bo
                    key = (("L%+d" % kpos) if kpos else "L") if baseL else str(kpos)
                    if "%s.%d" % (key, j % 8) not in forced0:
                        val |= 1 << (j - lo_b)
                add(Poly.const(val) - Poly.sym(name))
        for name in sorted(syms):
            m = re.match(r"^loop\((.*)\)$", name)
            if m and self.clears_top_bit_loop(name):
                init = self.poly_by_str(m.group(1))
                if init is not None:
                    # the loop only clears set bits: the value never exceeds its initial value
                    add(init - Poly.sym(name))
                    add(Poly.sym(name))
            m = re.match(r"^len\(vec\[push -<impl u(\d+)>::leading_zeros\((loop\(.*\))\) \+ (\d+)\]\)$", name) or \
                re.match(r"^len\(vec\[push <impl u(\d+)>::trailing_zeros\((loop\(.*\))\)\]\)$", name)
            if m and self.clears_top_bit_loop(m.group(2), need_single_push=True):
                # one push per iteration, each iteration clears one set bit: at most bit_length(initial) pushes
                pr0 = Prover(list(ge) + out, self.box(list(ge) + out + [Poly.sym(m.group(2))]))
                lo0, hi0 = pr0.box.get(m.group(2), (None, None))
                nbits = int(m.group(1)) if hi0 is None else int(hi0).bit_length()
                add(Poly.const(nbits) - Poly.sym(name))
            elif not m and name.startswith("len(vec[push ") and name.endswith("])"):
                # the same whatever is pushed (`v.push(f(bit))`: the map step fused into the loop): the number of pushes
                # is the number of iterations
                ls_ = set()
                i_ = 0
                while True:
                    j_ = name.find("loop(", i_)
                    if j_ < 0:
                        break
                    k_, dep_ = j_ + 5, 0
                    while k_ < len(name):
                        if name[k_] == "(":
                            dep_ += 1
                        elif name[k_] == ")":
                            if dep_ == 0:
                                break
                            dep_ -= 1
                        k_ += 1
                    ls_.add(name[j_:k_ + 1])
                    i_ = k_ + 1
                if len(ls_) == 1:
                    L_ = next(iter(ls_))
                    tL = sy.sym_terms.get(L_)
                    wL = None
                    if tL is not None and tL[0] == "var":
                        tyL = self.body.locals[tL[1]]["ty"]
                        wL = tyL.get("w") if tyL.get("k") == "int" and not tyL.get("s") else None
                    if wL and self.clears_top_bit_loop(L_, need_single_push=True):
                        pr0 = Prover(list(ge) + out, self.box(list(ge) + out + [Poly.sym(L_)]))
                        lo0, hi0 = pr0.box.get(L_, (None, None))
                        nbits = int(wL) if hi0 is None else int(hi0).bit_length()
                        add(Poly.const(nbits) - Poly.sym(name))
        # dense-id check passed: ids are u16 and equal to their index, so there are at most 2^16 elements
        for a in other:
            if a[0] == "none":
                m = re.match(r"^Iterator::position\(mut\(Iterator::enumerate\(<impl \[T\]>::iter\((.*)\)\)\),\|x\| (.*) Ne x\.0\)$", a[1])
                if m and re.match(r"^x\.1\.\d+$", m.group(2)):
                    add(Poly.const(1 << 16) - self.len_sym(m.group(1)))
        # the same dense-index fact in any spelling (position / all / a checking loop): normal form of agvlib.quant
        if bb is not None and self._path is None:
            if not hasattr(self, "_qfacts"):
                self._qfacts = {}
            if bb not in self._qfacts:
                try:
                    from . import quant as _quant
                    self._qfacts[bb] = _quant.forall_facts(self.prog, self.an, sy, bb)
                except Exception:
                    self._qfacts[bb] = []
            for f_ in self._qfacts[bb]:
                if f_.enum and f_.seq[1] == "0" and f_.seq[2] is None and len(f_.atoms) == 1:
                    a_ = next(iter(f_.atoms))
                    m = re.match(r"^(?:i - (x\.\d+)|-i \+ (x\.\d+)) == 0$", a_)
                    if m:
                        # every index equals a field of its element: the field's type bounds the length
                        fld = int((m.group(1) or m.group(2)).split(".")[1])
                        hi_ = self.elem_field_hi(f_.seq[0], fld)
                        ln_ = seq_len_poly(self, f_.base) if f_.base is not None else None
                        if hi_ is not None and ln_ is not None:
                            add(Poly.const(hi_ + 1) - ln_)
        # emptiness predicates
        for a in other:
            if a[0] == "pred" and a[2] is False:
                m = re.match(r"^(?:(?:Vec::<T, A>|<impl \[T\]>|<impl str>)::)?is_empty\((.*)\)$", a[1])
                if m:
                    add(self.len_sym(m.group(1)) - Poly.const(1))
            if a[0] == "pred" and a[2] is True:
                m = re.match(r"^(?:(?:Vec::<T, A>|<impl \[T\]>|<impl str>)::)?is_empty\((.*)\)$", a[1])
                if m:
                    add(-self.len_sym(m.group(1)))
        return out

    def elem_field_hi(self, seq_name, fld):
        """largest value of integer field `fld` of the elements of the sequence named seq_name (from its type)"""
        for l, loc in enumerate(self.body.locals):
            if l == 0 or l > self.body.argc:
                continue
            if "arg%d" % l != seq_name:
                continue
            ty = loc["ty"]
            while ty.get("k") == "ref":
                ty = ty["t"]
            ety = None
            if ty.get("k") == "adt" and ty.get("a"):
                ety = ty["a"][0]
            elif ty.get("k") in ("slice", "array"):
                ety = ty.get("t")
            if ety and ety.get("k") == "adt":
                a = self.prog.adts.get(ety["p"])
                if a and a["kind"] == "struct" and fld < len(a["variants"][0]["fields"]):
                    fty = a["variants"][0]["fields"][fld].get("ty")
                    if fty and fty.get("k") == "int" and not fty.get("s"):
                        return (1 << fty["w"]) - 1
        return None

    def position_or_default(self, name, ge, other):
        """U = S.iter().position(pred).unwrap_or(D):  lo <= U <= len(S)-1 when D lies in that range, where lo = 1 if
        pred(S[0]) is refuted by a guard on the path (pred = `A < x.F`, guard = not (A < S[0].F)), else 0"""
        sy = self.sy
        t = sy.sym_terms.get(name)
        if t is None:
            return []
        t = unmut(t)
        if not (t[0] == "call" and short(t[1]) == "Option::<T>::unwrap_or" and len(t[2]) == 2):
            return []
        pos, dflt = unmut(t[2][0]), t[2][1]
        if not (pos[0] == "call" and short(pos[1]) == "Iterator::position" and len(pos[2]) == 2):
            return []
        it = unmut(pos[2][0])
        if not (it[0] == "call" and short(it[1]) == "<impl [T]>::iter" and len(it[2]) == 1):
            return []
        seq = it[2][0]
        ln = seq_len_poly(self, seq)
        D = sy.poly(dflt)
        if ln is None or D is None:
            return []
        lo = 0
        mname = re.match(r"^Option::<T>::unwrap_or\(Iterator::position\(mut\(<impl \[T\]>::iter\((.*)\)\),\|x\| (.*) Lt x\.(\d+)\),", name)
        if mname:
            S_, A_, F_ = mname.group(1), mname.group(2), mname.group(3)
            # the sequence name must be balanced (regex is greedy): check against the canonical name of the term
            if S_ == sy.arg_name(seq):
                want = "Index::index(%s,0).%s" % (S_, F_)
                for a in other:
                    if a[0] == "fcmp" and a[1] == "not Lt" and a[2] == A_ and a[3] == want:
                        lo = 1
                    if a[0] == "rel":
                        pass
        out = []
        pr = Prover(list(ge), self.box(list(ge) + [ln, D]))
        ok_hi, _ = pr.prove_ge0(ln - Poly.const(1) - D)
        if ok_hi:
            out.append(ln - Poly.const(1) - Poly.sym(name))
        ok_lo, _ = pr.prove_ge0(D - Poly.const(lo))
        if ok_lo:
            out.append(Poly.sym(name) - Poly.const(lo))
        return out

    def clears_top_bit_loop(self, loop_sym, need_single_push=False):
        """audited premise: the loop-carried local behind `loop(..)` is only updated by
        `x ^= 1 << (BITS-1 - x.leading_zeros())` (clears its highest set bit) in a loop guarded by `x != 0`"""
        t = self.sy.sym_terms.get(loop_sym)
        if t is None or t[0] != "var":
            return False
        l = t[1]
        tm = self.an.terms
        defs = tm.defs.whole[l]
        body = self.body
        loops = [(tl, hd, body.natural_loop(tl, hd)) for (tl, hd) in body.back_edges()]
        upd = [d for d in defs if any(d[0] in lp for _, _, lp in loops)]
        init = [d for d in defs if d not in upd]
        if len(upd) != 1 or upd[0][1] == "t":
            return False
        if len(init) != 1 and not (len(init) == 0 and 1 <= l <= body.argc):      # a `mut` parameter starts with its argument
            return False
        u = strip(tm.rvalue(upd[0][2]))
        # the sibling shape `x &= x - 1` clears the lowest set bit (same premises, same consequences)
        low = False
        if u[0] == "bin" and u[1] == "BitAnd":
            for a_, b_ in ((strip(u[2]), strip(u[3])), (strip(u[3]), strip(u[2]))):
                if is_var(a_, l) and b_[0] == "bin" and b_[1] == "Sub" and is_var(strip(b_[2]), l) and strip(b_[3])[0] == "const" and strip(b_[3])[1] == 1:
                    low = True
        ok = low or (u[0] == "bin" and u[1] == "BitXor" and is_var(strip(u[2]), l))
        if ok and not low:
            sh = strip(u[3])
            ok = sh[0] == "bin" and sh[1] == "Shl" and strip(sh[2])[0] == "const" and strip(sh[2])[1] == 1
            if ok:
                amt = strip(sh[3])
                ok = (amt[0] == "bin" and amt[1] == "Sub" and strip(amt[2])[0] == "const"
                      and strip(amt[3])[0] == "call" and short(strip(amt[3])[1]).endswith("::leading_zeros")
                      and is_var(strip(strip(amt[3])[2][0]), l))
                if ok:
                    bits = int(re.search(r"impl u(\d+)>", strip(amt[3])[1]).group(1))
                    ok = strip(amt[2])[1] == bits - 1
        if not ok:
            return False
        # the loop header tests x != 0 and the update is in that loop
        lp = [x for x in loops if upd[0][0] in x[2]]
        hd = lp[0][1]
        ht = body.blocks[hd]["t"]
        if ht["k"] != "switch":
            return False
        c = as_cmp(tm.operand(ht["d"]), True)
        if not (c and c[0] == "Ne" and is_var(strip(c[1]), l) and strip(c[2])[0] == "const" and strip(c[2])[1] == 0):
            return False
        if need_single_push:
            pushes = [b for b, t_ in body.calls() if b in lp[0][2] and short(cname(t_)) == "Vec::<T, A>::push"]
            if len(pushes) != 1:
                return False
        return True

    def len_sym(self, seq_name):
        """length polynomial of a sequence given by its canonical name"""
        m = re.match(r"^\[(.*)\.\.(.*)\)$", seq_name)
        if m:
            a_, b_ = self.poly_by_str(m.group(1)), self.poly_by_str(m.group(2))
            if a_ is not None and b_ is not None:
                return b_ - a_
        m = re.match(r"^Iterator::collect\(Iterator::map\((?:Iterator::rev\()?(vec\[.*\])\)?,\|x\| .*\)\)$", seq_name)
        if m:
            seq_name = m.group(1)
        nm = "len(%s)" % seq_name
        if nm not in self.sy.sym_box:
            self.sy.sym_box[nm] = self.sy.guess_box(nm, None)
        return Poly.sym(nm)

    def poly_by_str(self, s_):
        """parse the printed form of a linear polynomial whose symbols are already known"""
        s_ = s_.strip()
        known = sorted(self.sy.sym_box, key=len, reverse=True)
        p = Poly()
        rest = s_
        # tokenise on top-level ' + ' / ' - '
        toks = []
        depth = 0
        cur = ""
        i = 0
        sign = 1
        while i < len(rest):
            ch = rest[i]
            if ch in "([{<":
                depth += 1
            elif ch in ")]}>":
                depth -= 1
            if depth == 0 and rest[i:i + 3] in (" + ", " - "):
                toks.append((sign, cur))
                sign = 1 if rest[i + 1] == "+" else -1
                cur = ""
                i += 3
                continue
            cur += ch
            i += 1
        toks.append((sign, cur))
        for sg, tk in toks:
            tk = tk.strip()
            if tk.startswith("-"):
                sg, tk = -sg, tk[1:]
            m = re.match(r"^(\d+)$", tk)
            if m:
                p = p + Poly.const(sg * int(tk))
                continue
            m = re.match(r"^(\d+)\*(.+)$", tk)
            coef = 1
            if m:
                coef, tk = int(m.group(1)), m.group(2)
            if tk in self.sy.sym_box or tk == "L":
                p = p + Poly.sym(tk).scale(sg * coef)
            else:
                return None
        return p

    # ------------------------------------------------------------------ proofs
    def prove_ge0(self, bb, g):
        pr, ne, other = self.prover_at(bb, [g])
        ok, how = pr.prove_ge0(g)
        if ok:
            return ok, how
        # case analysis on 0/1 symbols that stand for comparisons
        bs = sorted(set(s_ for p in [g] + pr.facts for s_ in p.syms() if s_ in self.sy.b2i))
        if bs and len(bs) <= 6:
            import itertools
            from .sym import cmp_to_rel
            NEG = {"Lt": "Ge", "Ge": "Lt", "Gt": "Le", "Le": "Gt", "Eq": "Ne", "Ne": "Eq"}
            for vals in itertools.product((0, 1), repeat=len(bs)):
                facts = list(pr.facts)
                for nm, v in zip(bs, vals):
                    op, pa, pb = self.sy.b2i[nm]
                    facts.append(Poly.sym(nm) - Poly.const(v))
                    facts.append(Poly.const(v) - Poly.sym(nm))
                    r = cmp_to_rel(op if v else NEG[op], pa, pb)
                    if r[3] == ">=":
                        facts.append(r[2])
                    elif r[3] == "==":
                        facts.append(r[2])
                        facts.append(-r[2])
                pr2 = Prover(facts, self.box(facts + [g]))
                ok2, how2 = pr2.prove_ge0(g)
                if not ok2:
                    return False, how + " (case %s of %s fails)" % (vals, bs)
            return True, "case split on %d comparison flag(s)" % len(bs)
        return ok, how

    def prove_ne0(self, bb, g):
        pr, ne, other = self.prover_at(bb, [g])
        ok, how = pr.prove_ne0(g)
        if ok:
            return ok, how
        for n in ne:
            if str(n) == str(g) or str(n) == str(-g):
                return True, "guard"
        return False, how

    def in_range(self, bb, p, lo, hi):
        ok1, h1 = self.prove_ge0(bb, p - Poly.const(lo))
        if not ok1:
            return False, "lower bound %s not proved: %s" % (lo, h1)
        ok2, h2 = self.prove_ge0(bb, Poly.const(hi) - p)
        if not ok2:
            return False, "upper bound %s not proved: %s" % (hi, h2)
        return True, "range[%s]" % h1

    def prove_bool(self, bb, term, expected):
        """prove that a boolean MIR value has the expected truth at bb"""
        t = strip(term)
        if t[0] == "const" and isinstance(t[1], (bool, int)):
            return (bool(t[1]) == expected), "constant"
        if t[0] == "un" and t[1] == "Not":
            return self.prove_bool(bb, t[2], not expected)
        # overflow flag of a checked operation
        if t[0] == "field" and t[2] == 1 and strip(t[1])[0] == "bin" and strip(t[1])[1].endswith("WithOverflow"):
            if expected:
                return False, "overflow expected?"
            inner = strip(t[1])
            return self.no_overflow(bb, inner[1][:-len("WithOverflow")], inner[2], inner[3])
        if t[0] == "bin" and t[1] in ("BitAnd",) and not expected:
            a, ha = self.prove_bool(bb, t[2], False)
            if a:
                return True, ha
            return self.prove_bool(bb, t[3], False)
        if t[0] == "bin" and t[1] in ("BitOr",) and expected:
            a, ha = self.prove_bool(bb, t[2], True)
            if a:
                return True, ha
            return self.prove_bool(bb, t[3], True)
        c = as_cmp(t, expected)
        if c is not None and not str(c[0]).startswith("Not"):
            op, a, b = c
            pa, pb = self.sy.poly(a), self.sy.poly(b)
            if pa is None or pb is None:
                return False, "operands not polynomial: %s %s %s" % (self.sy.arg_name(a)[:60], op, self.sy.arg_name(b)[:60])
            if op == "Lt":
                return self.prove_ge0(bb, pb - pa - Poly.const(1))
            if op == "Le":
                return self.prove_ge0(bb, pb - pa)
            if op == "Gt":
                return self.prove_ge0(bb, pa - pb - Poly.const(1))
            if op == "Ge":
                return self.prove_ge0(bb, pa - pb)
            if op == "Ne":
                return self.prove_ne0(bb, pa - pb)
            if op == "Eq":
                ok1, h = self.prove_ge0(bb, pa - pb)
                if ok1:
                    return self.prove_ge0(bb, pb - pa)
                return False, h
        return False, "unrecognised condition %s" % show(t)[:80]

    def operand_type(self, term):
        return self.sy.bin_type(term)

    def no_overflow(self, bb, op, a, b):
        ty = self.operand_type(a) or self.operand_type(b)
        rng = ty_range(ty)
        if rng is None:
            return False, "unknown operand type"
        pa, pb = self.sy.poly(a), self.sy.poly(b)
        if pa is None or pb is None:
            return False, "operands not polynomial (%s, %s)" % (self.sy.arg_name(a)[:50], self.sy.arg_name(b)[:50])
        if op == "Add":
            r = pa + pb
        elif op == "Sub":
            r = pa - pb
        elif op == "Mul":
            r = pa * pb
        else:
            return False, "op %s" % op
        return self.in_range(bb, r, rng[0], rng[1])


# ---------------------------------------------------------------------- obligations of one body
PANIC_FREE_PREFIXES = ("core::fmt::", "std::fmt::", "alloc::fmt::")


def collect(ctx, res=None):
    """list of Ob for one body (not yet discharged)"""
    body, an, sy = ctx.body, ctx.an, ctx.sy
    obs = []
    reach = body.reachable()
    for bb in sorted(reach):
        blk = body.blocks[bb]
        if blk["cleanup"]:
            continue
        t = blk["t"]
        an.terms._pos = (bb, "t")
        if t["k"] == "assert":
            if t["mk"].startswith(("other:MisalignedPointerDereference", "other:NullPointerDereference")) and \
                    any(short(cname(c)) == "Box::<T>::new_uninit" for _, c in body.calls()):
                # debug-build UB checks rustc inserts for raw-pointer derefs inside std macro expansions (vec![..]:
                # the pointer is a fresh Box allocation); not present in release builds, cannot fail for Box pointers
                continue
            o = Ob(body.path, bb, "assert", t["mk"], body.where(bb))
            o.term = an.terms.operand(t["cond"])
            o.expected = t["expected"]
            obs.append(o)
        elif t["k"] == "call":
            callee = t.get("resolved") or t.get("callee") or ""
            s = short(cname(t))
            if t["t"] is None or "core::panicking::" in callee or "std::rt::begin_panic" in callee or callee.startswith("core::panicking"):
                if "panic" in callee or "unreachable" in callee or "assert_failed" in callee or "begin_panic" in callee or "expect_failed" in callee or "unwrap_failed" in callee:
                    o = Ob(body.path, bb, "panic", s, body.where(bb))
                    obs.append(o)
                    continue
            if INT_OP_CALL.match(t.get("resolved") or ""):
                o = Ob(body.path, bb, "call", "int-op:" + s, body.where(bb))
                o.call = t
                obs.append(o)
                continue
            if s in CALL_RULES:
                o = Ob(body.path, bb, "call", s, body.where(bb))
                o.call = t
                obs.append(o)
    # loops
    for (tail, head) in body.back_edges():
        o = Ob(body.path, head, "loop", "bb%d" % head, body.where(head))
        o.tail = tail
        obs.append(o)
    return obs


def seq_len_poly(ctx, t):
    """length polynomial of a slice / array / Vec / str term"""
    sy = ctx.sy
    tm_ = t
    while tm_[0] in ("ref", "deref"):
        tm_ = tm_[1]
    if tm_[0] == "mut" and strip(tm_[2])[0] == "call" and short(strip(tm_[2])[1]) in ("Vec::<T>::new", "Vec::<T>::with_capacity"):
        # a vector that is filled after its creation: its own length symbol (named after what is pushed), never the
        # length of the empty vector it started as
        nm_ = "len(%s)" % sy.uniq(tm_[1], sy.mut_name(tm_))
        sy.sym_box.setdefault(nm_, (0, (1 << 63) - 1))
        return Poly.sym(nm_)
    t0 = unmut(t)
    while t0[0] == "cast" and "Unsize" in str(t0[1]):
        t0 = unmut(t0[2])           # `&[u8; N]` coerced to `&[u8]`: same elements
    r = sy.ev.region(t0)
    if r is not None:
        ln = r.length if r.length is not None else (r.end()[0] - r.start[0], r.end()[1] - r.start[1])
        return sy.lin_poly(ln)
    rp = sy.region_poly(t0)
    if rp is not None:
        return rp[1] - rp[0]
    p = sy.seq_len(t0)
    if p is not None:
        return p
    ty = sy.type_of(t0)
    if ty is not None and ty.get("k") == "array" and ty.get("n") is not None:
        return Poly.const(ty["n"])
    if t0[0] == "field" and t0[2] == 0 and unmut(t0[1])[0] == "downcast" and unmut(t0[1])[2] == "Some":
        # an element yielded by `chunks_exact(n)` has exactly n elements
        nx = unmut(unmut(t0[1])[1])
        if nx[0] == "call" and short(nx[1]) == "Iterator::next" and len(nx[2]) == 1:
            it = unmut(nx[2][0])
            while it[0] == "call" and short(it[1]) == "IntoIterator::into_iter" and len(it[2]) == 1:
                it = unmut(it[2][0])
            if it[0] == "call" and short(it[1]) == "<impl [T]>::chunks_exact" and len(it[2]) == 2:
                k = sy.poly(it[2][1])
                if k is not None:
                    return k
    if t0[0] == "call" and short(t0[1]).endswith("::concat") and len(t0[2]) == 1:
        arr = unmut(t0[2][0])
        while arr[0] == "cast":
            arr = unmut(arr[2])
        if arr[0] == "aggr" and arr[1] == "array":
            tot = Poly()
            for e in arr[2]:
                le = seq_len_poly(ctx, e)
                if le is None:
                    return None
                tot = tot + le
            return tot
    if t0[0] == "call" and short(t0[1]) in ("Result::<T, E>::unwrap", "Result::<T, E>::expect") and len(t0[2]) >= 1:
        inner = unmut(t0[2][0])
        if inner[0] == "call" and short(inner[1]) in ("TryInto::try_into", "TryFrom::try_from") and sy.site_block(inner[3]) is not None:
            blk = ctx.body.blocks[inner[3]]["t"]
            d = blk["dest"]
            dty = ctx.body.locals[d["l"]]["ty"] if not d["pr"] else None
            tgt = dty["a"][0] if dty and dty.get("k") == "adt" and dty["a"] else None
            if tgt is not None and tgt.get("k") == "array" and tgt.get("n") is not None:
                return Poly.const(tgt["n"])
    if t0[0] == "call" and short(t0[1]) in ("Index::index", "IndexMut::index_mut") and len(t0[2]) == 2:
        base = seq_len_poly(ctx, t0[2][0])
        rng = strip(t0[2][1])
        if rng[0] == "aggr" and rng[1].startswith("adt:std::ops::Range"):
            ops = [sy.poly(o) for o in rng[2]]
            kind = rng[1].split("::")[-1]
            if all(o is not None for o in ops):
                if kind == "RangeFull":
                    return base
                if kind == "Range":
                    return ops[1] - ops[0]
                if kind == "RangeTo":
                    return ops[0]
                if kind == "RangeFrom" and base is not None:
                    return base - ops[0]
                if kind == "RangeInclusive" and len(ops) >= 2:
                    return ops[1] - ops[0] + Poly.const(1)
    if t0[0] == "call" and short(t0[1]) in ("Deref::deref", "DerefMut::deref_mut", "Vec::<T, A>::as_slice", "AsRef::as_ref", "<impl [T]>::iter", "IntoIterator::into_iter") and t0[2]:
        return seq_len_poly(ctx, t0[2][0])
    if t0[0] in ("mem", "bytes", "str"):
        return Poly.const(len(t0[1]))
    if t0[0] == "aggr" and t0[1] == "array":
        return Poly.const(len(t0[2]))
    if t0[0] == "repeat" and isinstance(t0[2], int):
        return Poly.const(t0[2])
    if t0[0] == "mut":
        ty = ctx.body.locals[t0[1]]["ty"]
        if ty.get("k") == "array" and ty.get("n") is not None:
            return Poly.const(ty["n"])
    # opaque: len(name) symbol (with the field invariant if the sequence is an accessor's result)
    return ctx.len_sym(sy.name(t0))


def is_var(x, l):
    """x is a read of the multi-definition local l (with or without a position tag)"""
    return isinstance(x, tuple) and len(x) >= 2 and x[0] == "var" and x[1] == l


def stateful(t):
    """does the value depend on a mutably borrowed local (iterator / builder state)?"""
    return any(x[0] in ("mut", "loopval", "var") for x in walk(t))


def rule_unwrap(ctx, o):
    """Result::unwrap / Option::unwrap / expect"""
    t = o.call
    a = unmut(ctx.an.terms.operand(t["args"][0]))
    sy = ctx.sy
    # a dominating guard says it is Ok/Some
    nm = sy.name(a)
    ge, ne, other = ctx.facts_at(o.bb)
    for at in other:
        if at[0] in ("ok", "some") and at[1] == nm:
            # the guard must test this very value: a stateful call (`it.next()`) at another site has the same canonical
            # name but is a different value
            if len(at) > 2 and stateful(a) and strip(unmut(at[2])) != strip(a):
                continue
            return True, "guarded: %s" % at[0]
    if a[0] == "call":
        s = short(a[1])
        inner_args = a[2]
        # slice -> array conversion
        if s in ("TryInto::try_into", "TryFrom::try_from") and ctx.sy.site_block(a[3]) is not None:
            blk = ctx.body.blocks[a[3]]["t"]
            d = blk["dest"]
            dty = ctx.body.locals[d["l"]]["ty"] if not d["pr"] else None
            target = dty["a"][0] if dty and dty.get("k") == "adt" and dty["a"] else None
            src = inner_args[0]
            if target is not None and target.get("k") == "array":
                n = target.get("n")
                lp = seq_len_poly(ctx, src)
                if lp is not None and n is not None:
                    ok1, h = ctx.prove_ge0(o.bb, lp - Poly.const(n))
                    ok2, h2 = ctx.prove_ge0(o.bb, Poly.const(n) - lp)
                    return (ok1 and ok2), "len(%s) == %d: %s" % (lp, n, h if not ok1 else h2)
                return False, "source length unknown"
            if target is not None and target.get("k") == "int":
                # integer narrowing
                p = sy.poly(src)
                rng = ty_range(target)
                if p is not None and rng is not None:
                    return ctx.in_range(o.bb, p, rng[0], rng[1])
                return False, "integer conversion of non-polynomial value"
            # workspace conversion: argument within the callee's accepted set
            r = blk.get("resolved") or ""
            cs = sy.call_sig(a)
            if cs in ctx.prog.bodies:
                return conv_accepts(ctx, o.bb, cs, src)
        callee_ws = a[1] if a[1] in ctx.prog.bodies else (sy.call_sig(a) if sy.call_sig(a) in ctx.prog.bodies else None)
        if callee_ws and len(inner_args) == 1:
            f = unmut(inner_args[0])
            if f[0] == "field":
                bty = sy.type_of(f[1])
                if bty is not None and bty.get("k") == "adt":
                    from . import invariants
                    if invariants.conv_ok(ctx.prog, bty["p"], f[2], callee_ws):
                        return True, "type invariant: every constructor of %s checked %s(field) is Ok" % (bty["p"].split("::")[-1], callee_ws.split("::")[-3] if "::" in callee_ws else callee_ws)
        if callee_ws and len(inner_args) == 1:
            from . import audited
            ok_, note_ = audited.some_unless_empty(ctx, o)
            if ok_:
                ctx.used_audited.setdefault("some-unless-empty", set()).add(note_)
                return True, "some-unless-empty: " + note_
        if callee_ws and len(inner_args) == 2:
            from . import audited
            ok_, note_ = audited.member_lookup(ctx, o)
            if ok_:
                ctx.used_audited.setdefault("member-lookup", set()).add(note_)
                return True, "member-lookup: " + note_
            if note_:
                return False, note_
        if a[1] in ctx.prog.bodies:
            return conv_accepts(ctx, o.bb, a[1], inner_args[0]) if len(inner_args) == 1 else (False, "workspace call result unwrapped")
        if s in ("<impl [T]>::last", "<impl [T]>::first", "<impl [T]>::split_last", "<impl [T]>::split_first"):
            lp = seq_len_poly(ctx, inner_args[0])
            if lp is not None:
                return ctx.prove_ge0(o.bb, lp - Poly.const(1))
        if s == "Iterator::max" or s == "Iterator::min":
            return False, "max/min of possibly empty iterator"
    return False, "unwrap of %s" % nm[:100]


def conv_accepts(ctx, bb, fn, arg):
    """the argument's value range lies within the set accepted by a small integer->id conversion"""
    from .rules.common import int_conversion_ranges, ranges_of
    lit = unmut(arg)
    if lit[0] == "str":
        return literal_lookup(ctx, fn, lit[1])
    if lit[0] == "field" and isinstance(lit[2], int):
        # a column of a constant table that a loop walks (`for (k, v) in TABLE { .. f(v).unwrap() .. }`): every literal of
        # that column must be accepted
        e_ = unmut(lit[1])
        if e_[0] == "field" and e_[2] == 0 and unmut(e_[1])[0] == "downcast" and unmut(e_[1])[2] == "Some":
            nx_ = unmut(unmut(e_[1])[1])
            if nx_[0] == "call" and short(nx_[1]) == "Iterator::next" and len(nx_[2]) == 1:
                it_ = unmut(nx_[2][0])
                while it_[0] == "call" and short(it_[1]) in ("IntoIterator::into_iter", "<impl [T]>::iter") and len(it_[2]) == 1:
                    it_ = unmut(it_[2][0])
                if it_[0] == "cdef":
                    try:
                        table_ = ctx.prog.const_lit(it_[1])
                    except Exception:
                        table_ = None
                    if isinstance(table_, list) and table_ and all(isinstance(r_, tuple) and lit[2] < len(r_) and isinstance(r_[lit[2]], str) for r_ in table_):
                        h = ""
                        for r_ in table_:
                            ok, h = literal_lookup(ctx, fn, r_[lit[2]])
                            if not ok:
                                return ok, h
                        return True, "every one of the %d literals in column %d of %s is accepted (%s)" % (len(table_), lit[2], it_[1].split("::")[-1], h)
    if lit[0] == "var":
        # a local assigned only string literals (`let s = match x { A => "..", B => "..", _ => return .. }`): every one of
        # the finitely many values must be accepted
        tm = ctx.an.terms
        l = lit[1]
        if not tm.defs.partial[l] and tm.defs.whole[l]:
            vals = [unmut(ctx.sy._def_term(d)) for d in tm.defs.whole[l]]
            if all(v[0] == "str" for v in vals):
                for v in vals:
                    ok, h = literal_lookup(ctx, fn, v[1])
                    if not ok:
                        return ok, h
                return True, "every one of the %d literal values is accepted (%s)" % (len(vals), h)
    p = ctx.sy.poly(arg)
    if p is None:
        return False, "argument of %s is not polynomial" % fn.split("::")[-3:]
    body = ctx.prog.bodies[fn]
    pty = body.locals[1]["ty"] if body.argc >= 1 else None
    rng = ty_range(pty)
    if rng is None:
        return False, "conversion parameter is not an integer"
    try:
        allowed, stored, unknown = int_conversion_ranges(ctx.prog, fn, rng[0], rng[1])
    except Exception as e:
        return False, "cannot summarise %s: %s" % (fn, e)
    if unknown:
        return False, "callee has unrecognised guards"
    rs = ranges_of(allowed)
    for lo, hi in rs:
        ok, h = ctx.in_range(bb, p, lo, hi)
        if ok:
            return True, "arg in accepted range [%d,%d] of %s" % (lo, hi, fn.split("::")[-2] if "::" in fn else fn)
    return False, "argument range not within accepted ranges %s" % rs


def literal_lookup(ctx, fn, literal):
    """`fn(<string literal>)` where fn is `TABLE.iter().find(|x| x == arg)`-style: Ok iff the literal is in the table"""
    from . import accept
    tab = accept.ret_table(ctx.prog, fn, only_ok=True)
    if len(tab) != 1:
        return False, "callee is not a single-path lookup"
    atoms, val = tab[0]
    tables = set(re.findall(r"(alpha_g_[\w:]+::[A-Z][A-Z0-9_]+)", " ".join(atoms)))
    ok_shape = len(atoms) == 1 and len(tables) == 1 and atoms[0].endswith(" is Some") and atoms[0].startswith("Iterator::find(") and \
        ("|x| x Eq arg1)" in atoms[0] or "|x| x Eq [0..L))" in atoms[0])
    if not ok_shape:
        return False, "callee is not a recognised table lookup: %s" % atoms
    table = ctx.prog.const_lit(next(iter(tables)))
    flat = [r if isinstance(r, str) else r[0] for r in table]
    if literal in flat:
        return True, "literal %r is in %s" % (literal, next(iter(tables)).split("::")[-1])
    return False, "literal %r is not in %s" % (literal, next(iter(tables)).split("::")[-1])


def rule_index(ctx, o):
    """Index::index / IndexMut::index_mut on slices, arrays, Vec, str"""
    t = o.call
    sy = ctx.sy
    base = ctx.an.terms.operand(t["args"][0])
    idx = strip(ctx.an.terms.operand(t["args"][1]))
    bty = sy.type_of(unmut(base))
    callee = (t.get("resolved") or "") + (t.get("callee") or "")
    if "HashMap" in callee or "BTreeMap" in callee or "IndexMap" in callee:
        return False, "map index (panics on a missing key)"
    lp = seq_len_poly(ctx, base)
    if lp is None:
        return False, "length of indexed sequence unknown"
    is_str = "str" in callee and "impl" in callee and "for str" in callee or (bty is not None and bty.get("k") == "str")
    if idx[0] == "aggr" and idx[1].startswith("adt:std::ops::Range"):
        kind = idx[1].split("::")[-1]
        ops = [sy.poly(x) for x in idx[2]]
        if any(p is None for p in ops):
            return False, "range bound not polynomial"
        goals = []
        if kind == "Range":
            goals = [ops[1] - ops[0], lp - ops[1], ops[0]]
        elif kind == "RangeTo":
            goals = [lp - ops[0], ops[0]]
        elif kind == "RangeFrom":
            goals = [lp - ops[0], ops[0]]
        elif kind == "RangeFull":
            goals = []
        elif kind == "RangeInclusive":
            goals = [ops[1] - ops[0] + Poly.const(1), lp - ops[1] - Poly.const(1)]
        else:
            return False, "range kind %s" % kind
        for g in goals:
            ok, h = ctx.prove_ge0(o.bb, g)
            if not ok:
                return False, "cannot prove %s >= 0 (%s)" % (g, h)
        if is_str:
            okc, hc = char_boundaries(ctx, o.bb, base, [x for x in ops])
            if not okc:
                return False, hc
        return True, "range within length %s" % lp
    p = sy.poly(idx)
    if p is None:
        return False, "index not polynomial"
    ok, h = ctx.prove_ge0(o.bb, lp - p - Poly.const(1))
    if not ok:
        return False, "cannot prove index %s < %s (%s)" % (p, lp, h)
    return ctx.prove_ge0(o.bb, p)


def char_boundaries(ctx, bb, base, bounds):
    """str slicing: the byte offsets are char boundaries if the string is all-ASCII on this path, or the
    offset is within a literal ASCII prefix checked by starts_with, or is 0 / len"""
    ge, ne, other = ctx.facts_at(bb)
    ascii_all = False
    prefix = 0
    for a in other:
        if a[0] == "quant" and a[1] == "all" and a[4] is True and ("is_ascii" in a[3]) and a[2].startswith("[0..L)"):
            ascii_all = True
        if a[0] == "quant" and a[1] == "within" and a[2].startswith("[0..L)") and (a[3].startswith("elems[") or (a[3].startswith("chars[") and not a[3].endswith("+nonascii"))):
            ascii_all = True        # every character of the whole string is in an ASCII-only class
        if a[0] == "pred" and a[2] is True and "starts_with([0..L)," in a[1]:
            m = re.search(r"starts_with\(\[0\.\.L\),'([^']*)'\)", a[1])
            if m and m.group(1).isascii():
                prefix = max(prefix, len(m.group(1)))
            m = re.search(r"starts_with\(\[0\.\.L\),(\d+)\)", a[1])
            if m and int(m.group(1)) < 128:
                prefix = max(prefix, 1)
    if ascii_all:
        return True, "all-ascii"
    for p in bounds:
        if p.is_const() and (p.const_value() == 0 or p.const_value() <= prefix):
            continue
        if str(p) == "L":
            continue
        return False, "str slice offset %s may fall inside a multi-byte character (no all-ASCII guard on this path)" % p
    return True, "offsets within checked ascii prefix"


def rule_copy_from_slice(ctx, o):
    t = o.call
    a = seq_len_poly(ctx, ctx.an.terms.operand(t["args"][0]))
    b = seq_len_poly(ctx, ctx.an.terms.operand(t["args"][1]))
    if a is None or b is None:
        return False, "lengths unknown"
    ok1, h = ctx.prove_ge0(o.bb, a - b)
    ok2, h2 = ctx.prove_ge0(o.bb, b - a)
    return (ok1 and ok2), "equal lengths %s / %s" % (a, b)


def rule_nonzero_arg1(ctx, o):
    t = o.call
    p = ctx.sy.poly(ctx.an.terms.operand(t["args"][1]))
    if p is None:
        return False, "argument not polynomial"
    return ctx.prove_ge0(o.bb, p - Poly.const(1))


def rule_index_lt_len(ctx, o):
    """swap_remove / remove(index): index < len"""
    t = o.call
    lp = seq_len_poly(ctx, ctx.an.terms.operand(t["args"][0]))
    p = ctx.sy.poly(ctx.an.terms.operand(t["args"][1]))
    if lp is None or p is None:
        return False, "index/length unknown"
    return ctx.prove_ge0(o.bb, lp - p - Poly.const(1))


def rule_index_le_len(ctx, o):
    t = o.call
    lp = seq_len_poly(ctx, ctx.an.terms.operand(t["args"][0]))
    p = ctx.sy.poly(ctx.an.terms.operand(t["args"][1]))
    if lp is None or p is None:
        return False, "index/length unknown"
    return ctx.prove_ge0(o.bb, lp - p)


def rule_str_split_at(ctx, o):
    """str::split_at(mid): mid <= len and mid on a char boundary"""
    ok, how = rule_index_le_len(ctx, o)
    if not ok:
        return ok, how
    t = o.call
    base = ctx.an.terms.operand(t["args"][0])
    p = ctx.sy.poly(ctx.an.terms.operand(t["args"][1]))
    okc, hc = char_boundaries(ctx, o.bb, base, [p])
    if not okc:
        return False, hc
    return True, "%s; %s" % (how, hc)


def rule_radix(ctx, o):
    t = o.call
    p = ctx.sy.poly(ctx.an.terms.operand(t["args"][1]))
    if p is None:
        return False, "radix unknown"
    return ctx.in_range(o.bb, p, 2, 36)


def rule_int_op(ctx, o):
    """`<&usize as Mul<usize>>::mul` etc. carry #[rustc_inherit_overflow_checks]: same obligation as the MIR assert"""
    t = o.call
    mo = INT_OP_CALL.match(t.get("resolved") or "")
    w, sg = INT_TYS[mo.group(1)]
    rng = (-(1 << (w - 1)), (1 << (w - 1)) - 1) if sg else (0, (1 << w) - 1)
    a, b = ctx.an.terms.operand(t["args"][0]), ctx.an.terms.operand(t["args"][1])
    pa, pb = ctx.sy.poly(a), ctx.sy.poly(b)
    if pa is None or pb is None:
        return False, "operands not polynomial"
    op = mo.group(2)
    r = pa + pb if op == "add" else pa - pb if op == "sub" else pa * pb
    return ctx.in_range(o.bb, r, rng[0], rng[1])


def rule_sum(ctx, o):
    """Iterator::sum over integers adds with overflow checks: n * element range must fit the result type"""
    t = o.call
    ga = t.get("gargs") or []
    rty = ga[-1] if ga else None
    rng = ty_range(rty)
    if rng is None:
        if rty is not None and rty.get("k") in ("float", "adt"):
            return True, "non-integer sum (float / uom quantity): no overflow check"
        return False, "sum result type unknown"
    call = ("call", cname(t), tuple(ctx.an.terms.operand(a) for a in t["args"]), o.bb)
    p = ctx.sy.poly(call)
    nm = ctx.sy.name(call)
    bx = getattr(ctx.sy, "sum_ranges", {}).get(nm)      # only a range computed from count x element range counts
    if bx is None or bx[0] is None or bx[1] is None:
        return False, "no bound on the sum (element count or element range unknown)"
    if bx[0] >= rng[0] and bx[1] <= rng[1]:
        return True, "sum range [%d, %d] fits" % (bx[0], bx[1])
    return False, "sum range [%s, %s] exceeds the result type" % bx


def rule_capacity(ctx, o):
    """Vec::with_capacity(n) panics when n * size_of::<T>() > isize::MAX"""
    t = o.call
    ga = t.get("gargs") or []
    esz = None
    if ga and ga[0].get("k") in ("int", "float"):
        esz = ga[0]["w"] // 8
    p = ctx.sy.poly(ctx.an.terms.operand(t["args"][0]))
    if p is None:
        return False, "capacity not polynomial"
    lim = ((1 << 63) - 1) // esz if esz else (1 << 40)
    ok, how = ctx.in_range(o.bb, p, 0, lim)
    if not ok:
        # `Vec::with_capacity(v.len())`: as many elements as a collection that already exists in memory — the same
        # allocation class as `v.iter().map(..).collect()` (audited-total: allocation failure is out of scope)
        syms = list(p.syms())
        if len(syms) == 1 and syms[0].startswith("len(") and p == Poly.sym(syms[0]):
            return True, "capacity = length of an existing in-memory sequence %s (allocation class of collect())" % syms[0][:60]
    return ok, ("capacity <= %d: %s" % (lim, how))


def rule_resize(ctx, o):
    """Vec::resize(new_len, v) panics (capacity overflow) when new_len * size_of::<T>() > isize::MAX"""
    t = o.call
    ga = t.get("gargs") or []
    esz = ga[0]["w"] // 8 if ga and ga[0].get("k") in ("int", "float") else None
    p = ctx.sy.poly(ctx.an.terms.operand(t["args"][1]))
    if p is None:
        return False, "new length not polynomial"
    lim = ((1 << 63) - 1) // esz if esz else (1 << 40)
    ok, how = ctx.in_range(o.bb, p, 0, lim)
    return ok, ("new length <= %d: %s" % (lim, how))


def rule_euclid(ctx, o):
    """`a.div_euclid(b)` / `a.rem_euclid(b)` panic when b == 0 (and for signed MIN / -1): proved when b > 0"""
    t = o.call
    pb = ctx.sy.poly(ctx.an.terms.operand(t["args"][1]))
    if pb is None:
        return False, "divisor not polynomial"
    ok, how = ctx.prove_ge0(o.bb, pb - Poly.const(1))
    return ok, "divisor >= 1: %s" % how


EUCLID_RE = re.compile(r"^<impl [iu](8|16|32|64|128|size)>::(div_euclid|rem_euclid)$")


class _Rules(dict):
    def __missing__(self, k):
        if k.startswith("int-op:"):
            return rule_int_op
        if EUCLID_RE.match(k):
            return rule_euclid
        raise KeyError(k)

    def __contains__(self, k):
        return dict.__contains__(self, k) or (isinstance(k, str) and bool(EUCLID_RE.match(k)))


CALL_RULES = _Rules()
CALL_RULES.update({
    "Result::<T, E>::unwrap": rule_unwrap, "Result::<T, E>::expect": rule_unwrap,
    "Option::<T>::unwrap": rule_unwrap, "Option::<T>::expect": rule_unwrap,
    "Index::index": rule_index, "IndexMut::index_mut": rule_index,
    "<impl [T]>::copy_from_slice": rule_copy_from_slice,
    "<impl [T]>::chunks_exact": rule_nonzero_arg1, "<impl [T]>::chunks": rule_nonzero_arg1, "<impl [T]>::windows": rule_nonzero_arg1,
    "Iterator::step_by": rule_nonzero_arg1,
    "Vec::<T, A>::swap_remove": rule_index_lt_len, "Vec::<T, A>::remove": rule_index_lt_len,
    "Vec::<T, A>::split_off": rule_index_le_len, "<impl [T]>::split_at": rule_index_le_len, "<impl str>::split_at": rule_str_split_at,
    "String::truncate": rule_str_split_at, "String::split_off": rule_str_split_at,
    "Iterator::sum": rule_sum, "Vec::<T>::with_capacity": rule_capacity, "Vec::<T, A>::resize": rule_resize,
    "<impl u8>::from_str_radix": rule_radix, "<impl u16>::from_str_radix": rule_radix, "<impl u32>::from_str_radix": rule_radix,
})


# ---------------------------------------------------------------------- loops
ITER_NEXT = ("Iterator::next",)
FINITE_SOURCES = ("<impl [T]>::iter", "<impl [T]>::iter_mut", "IntoIterator::into_iter", "<impl [T]>::chunks_exact", "<impl [T]>::windows",
                  "<impl str>::chars", "<impl str>::bytes", "Iterator::enumerate", "Iterator::zip", "Iterator::rev", "Iterator::skip", "Iterator::take",
                  "Iterator::map", "Iterator::filter", "Iterator::flatten", "Iterator::copied", "Iterator::cloned", "Iterator::chain",
                  "<impl [T]>::split_inclusive", "Vec::<T, A>::drain", "HashMap::<K, V, S, A>::into_values", "Iterator::flat_map",
                  "Iterator::step_by", "Iterator::peekable", "Iterator::by_ref", "<impl [T]>::chunks", "Iterator::skip_while", "Iterator::take_while")


def loop_class(ctx, o):
    """termination class of the natural loop with header o.bb"""
    body, an, sy = ctx.body, ctx.an, ctx.sy
    loop = body.natural_loop(o.tail, o.bb)
    # iterator-driven: some block of the loop calls Iterator::next on a finite iterator and the loop exits on None
    for b in sorted(loop):
        t = body.blocks[b]["t"]
        if t["k"] == "call" and short(cname(t)) in ITER_NEXT:
            it = unmut(an.terms.operand(t["args"][0]))
            if finite_iter(ctx, it):
                # the None edge must leave the loop
                nxt = t["t"]
                sw = body.blocks[nxt]["t"] if nxt is not None else None
                # find the discriminant switch on the result
                for b2 in loop:
                    t2 = body.blocks[b2]["t"]
                    if t2["k"] == "switch":
                        d = strip(an.terms.operand(t2["d"]))
                        if d[0] == "discr" and strip(d[1])[0] == "call" and strip(d[1])[3] == b:
                            exits = [s for s in body.succ(b2) if s not in loop]
                            if exits:
                                return True, "iterator-driven (%s)" % short(it[1]) if it[0] == "call" else "iterator-driven"
                return True, "iterator-driven"
            return False, "loop advances an iterator that is not known to be finite: %s" % sy.name(it)[:80]
    # audited shape: `while x != 0 { ..; x ^= 1 << (BITS-1 - x.leading_zeros()) }` strictly decreases x
    ht = body.blocks[o.bb]["t"]
    if ht["k"] == "switch":
        c = as_cmp(an.terms.operand(ht["d"]), True)
        if c and strip(c[1])[0] == "var":
            p = sy.poly(c[1])
            if p is not None and len(p.syms()) == 1 and ctx.clears_top_bit_loop(p.syms()[0]):
                return True, "audited: each iteration clears the highest set bit of the loop variable (strictly decreasing)"
    ok, how = counter_driven(ctx, o, loop)
    if ok:
        return True, how
    return False, "no finite iterator drives the loop" + (" (%s)" % how if how else "")


def counter_driven(ctx, o, loop):
    """`while i < B { ..; i += k }`: the header compares a loop-carried integer with a bound that the loop does not
    modify, every definition of the integer inside the loop adds a positive constant, and one of them is executed on
    every iteration (it dominates the back edge)"""
    body, an = ctx.body, ctx.an
    # the exit test: a switch inside the loop with one edge leaving it, executed on every iteration
    hb = None
    for b_ in sorted(loop):
        t_ = body.blocks[b_]["t"]
        if t_["k"] == "switch" and body.dominates(b_, o.tail):
            ss_ = body.succ(b_)
            if len([x for x in ss_ if x in loop]) == 1 and len([x for x in ss_ if x not in loop]) == 1:
                hb = b_
                break
    if hb is None:
        return False, ""
    ht = body.blocks[hb]["t"]
    c = as_cmp(an.terms.operand(ht["d"]), True)
    if not c or c[0] not in ("Lt", "Le", "Gt", "Ge"):
        return False, ""
    op, a, b = c
    if op in ("Gt", "Ge"):
        op, a, b = {"Gt": "Lt", "Ge": "Le"}[op], b, a
    a0 = strip(a)
    # i  or  i + const on the left
    if a0[0] == "field" and a0[2] == 0 and strip(a0[1])[0] == "bin" and strip(a0[1])[1].startswith("Add"):
        a0 = strip(a0[1])
    if a0[0] == "bin" and a0[1].startswith("Add"):
        x, y = strip(a0[2]), strip(a0[3])
        if y[0] == "const":
            a0 = x
        elif x[0] == "const":
            a0 = y
        else:
            # i + p + q with loop-invariant p, q: take the var operand
            inner = [z for z in walk(a0) if z[0] == "var"]
            a0 = inner[0] if len(set(inner)) == 1 else a0
    if a0[0] != "var":
        return False, "loop condition does not compare a loop counter"
    l = a0[1]
    # which edge stays in the loop: the comparison must hold to continue
    succs = body.succ(hb)
    stay = [s_ for s_ in succs if s_ in loop]
    leave = [s_ for s_ in succs if s_ not in loop]
    if len(stay) != 1 or len(leave) != 1:
        return False, "loop header has no single exit"
    d, rel, vals = an.edge_atom(hb, stay[0])
    tr = truth_of(rel, vals)
    cc = as_cmp(d, tr) if tr is not None else None
    if not cc:
        return False, ""
    cop = cc[0]
    if cop in ("Gt", "Ge"):
        cop = {"Gt": "Lt", "Ge": "Le"}[cop]
        ok_dir = any(is_var(z, l) for z in walk(strip(cc[2])))
    else:
        ok_dir = cop in ("Lt", "Le") and any(is_var(z, l) for z in walk(strip(cc[1])))
    if not ok_dir:
        return False, "the loop continues while the counter is NOT below the bound"
    # definitions of the counter inside the loop: counter + positive constant
    defs_in = [(bi, si, x) for (bi, si, x) in an.terms.defs.whole[l] if bi in loop]
    if not defs_in or an.terms.defs.partial[l] or an.terms.defs.mut_borrowed[l]:
        return False, "counter is not updated by plain assignments"
    for (bi, si, x) in defs_in:
        if si == "t":
            return False, "counter assigned from a call"
        dt = strip(an.terms.rvalue(x))
        if dt[0] == "field" and dt[2] == 0:
            dt = strip(dt[1])
        if not (dt[0] == "bin" and dt[1].startswith("Add")):
            return False, "counter update is not an addition"
        x_, y_ = strip(dt[2]), strip(dt[3])
        if is_var(x_, l):
            inc = y_
        elif is_var(y_, l):
            inc = x_
        else:
            return False, "counter update does not add to the counter"
        if not (inc[0] == "const" and isinstance(inc[1], int) and inc[1] >= 1):
            pi = ctx.sy.poly(inc)
            if pi is None:
                return False, "increment is not a positive constant"
            okp, _ = ctx.prove_ge0(bi, pi - Poly.const(1))
            if not okp:
                return False, "increment is not proved positive"
    if not any(body.dominates(bi, o.tail) for (bi, si, x) in defs_in):
        return False, "an iteration can skip the counter update"
    # the bound must not change inside the loop
    bound = strip(cc[2]) if cop in ("Lt", "Le") and any(is_var(z, l) for z in walk(strip(cc[1]))) else strip(cc[1])
    for z in walk(bound):
        if z[0] in ("var", "mut"):
            l2 = z[1]
            if any(bi in loop for (bi, si, x) in an.terms.defs.whole[l2]) or any(bi in loop for (bi, si, x) in an.terms.defs.partial[l2]):
                return False, "the bound is modified inside the loop"
            if z[0] == "mut":
                for bb2, t2 in body.calls():
                    if bb2 in loop and any(a_.get("k") in ("move", "copy") and any(w == z for w in walk(an.terms.operand(a_))) for a_ in t2["args"]):
                        return False, "the bound's storage is borrowed inside the loop"
    if ctx.mentions_volatile(ctx.sy.name(bound)):
        return False, "the bound may shrink or be overwritten"
    return True, "counter-driven: bounded counter increased by a positive amount on every iteration"


def finite_iter(ctx, it, depth=0):
    it = unmut(it)
    if depth > 10:
        return False
    if it[0] == "call":
        s = short(it[1])
        if s in FINITE_SOURCES or s.endswith("::into_iter") or s.endswith("::iter") or s.endswith("::into_values") or s.endswith("::values") or s.endswith("::keys"):
            if s in ("Iterator::enumerate", "Iterator::zip", "Iterator::rev", "Iterator::skip", "Iterator::take", "Iterator::map", "Iterator::filter",
                     "Iterator::flatten", "Iterator::copied", "Iterator::cloned", "Iterator::step_by", "Iterator::peekable", "Iterator::by_ref",
                     "Iterator::skip_while", "Iterator::take_while", "Iterator::flat_map"):
                return finite_iter(ctx, it[2][0], depth + 1)
            if s == "Iterator::chain":
                return finite_iter(ctx, it[2][0], depth + 1) and finite_iter(ctx, it[2][1], depth + 1)
            if s == "IntoIterator::into_iter":
                inner = unmut(it[2][0])
                if inner[0] == "aggr" and inner[1].startswith("adt:std::ops::Range"):
                    return inner[1].split("::")[-1] in ("Range", "RangeInclusive")
                return True if inner[0] != "call" or not short(inner[1]).startswith("iter::repeat") else False
            return True
    if it[0] in ("param", "var", "field", "cdef", "try", "downcast"):
        # an iterator / collection received from the caller or a constant table: finite if its type is a std collection/slice iterator
        ty = ctx.sy.type_of(it)
        tys = pp.ty(ty) if ty else ""
        return not ("Repeat" in tys or "Cycle" in tys or "RangeFrom" in tys or "Successors" in tys)
    if it[0] == "aggr" and it[1].startswith("adt:std::ops::Range"):
        return it[1].split("::")[-1] in ("Range", "RangeInclusive")
    return False


# ---------------------------------------------------------------------- discharge
def discharge(ctx, o, audited=None):
    if ctx.alternatives and not getattr(ctx, "_in_alt", False):
        base = list(ctx.extra)
        ctx._in_alt = True
        hows = []
        try:
            for alt in ctx.alternatives:
                ctx.extra = base + list(alt)
                ctx._facts = {}
                discharge(ctx, o, audited)
                if o.verdict == "OPEN":
                    o.how = "under one of the %d ways the parameter can have been constructed: %s" % (len(ctx.alternatives), o.how)
                    return o
                hows.append(o.how)
            o.how = "%s (for each of %d construction alternatives)" % (hows[0], len(ctx.alternatives))
            return o
        finally:
            ctx.extra = base
            ctx._facts = {}
            ctx._in_alt = False
    ctx.an.terms._pos = (o.bb, "t")       # operands of the obligation's terminator are read there
    try:
        if o.kind == "assert":
            ok, how = ctx.prove_bool(o.bb, o.term, o.expected)
        elif o.kind == "call":
            ok, how = CALL_RULES[o.desc](ctx, o)
        elif o.kind == "loop":
            ok, how = loop_class(ctx, o)
        elif o.kind == "panic":
            ok, how = unreachable(ctx, o)
        else:
            ok, how = False, "unknown obligation kind"
    except RecursionError:
        ok, how = False, "analysis recursion limit"
    if not ok and o.kind in ("assert", "call", "panic"):
        ok2, how2 = path_sensitive(ctx, o)
        if ok2:
            ok, how = True, how2
    if not ok and o.kind in ("assert", "call", "panic") and not getattr(ctx, "_in_context", False):
        ok2, how2 = under_call_contexts(ctx, o)
        if ok2:
            ok, how = True, how2
    o.verdict = "PROVED" if ok else "OPEN"
    o.how = how
    if not ok and audited:
        for rule in audited:
            if rule["fn"] == o.fn and rule["kind"] == o.kind and rule["desc"] == o.desc:
                ok2, how2 = rule["check"](ctx, o)
                if ok2:
                    o.verdict = "BY-AUDITED-IMPLICATION"
                    o.how = "%s: %s" % (rule["name"], how2)
                    break
    return o


_CONTEXTS = {}


def call_contexts(prog, fn, depth=0):
    """For a private free function: one {symbol: (lo, hi)} box per workspace call site, giving the proven range of each
    integer argument (`argN`) and of the length of each slice argument (`L` / `len(argN)`) at that site.  None if the
    function is public, a trait/inherent method, or has no resolved call site."""
    key = (id(prog), fn)
    if key in _CONTEXTS:
        return _CONTEXTS[key]
    _CONTEXTS[key] = None
    b = prog.bodies.get(fn)
    if b is None or b.kind != "Fn" or b.j.get("is_pub") or b.j.get("impl_trait") or depth > 2:
        return None
    from .invariants import tighten
    out = []
    for caller in sorted(prog.callers().get(fn, ())):
        cb = prog.bodies.get(caller)
        if cb is None:
            return None
        # the function used as a value (`.map(helper)`, stored in a variable) can be called with anything
        import json as _json
        blob = _json.dumps([blk["s"] for blk in cb.blocks]) + _json.dumps([blk["t"].get("args") for blk in cb.blocks if blk["t"].get("k") == "call"])
        if ('"fn": "%s"' % fn) in blob or ('"fn_resolved": "%s"' % fn) in blob:
            return None
        cctx = Ctx(prog, cb)
        cctx._in_context = True
        n_here = 0
        for bb, t in cb.calls():
            if (t.get("resolved") or t.get("callee")) != fn and cname(t) != fn:
                continue
            n_here += 1
            box = {}
            for i, a in enumerate(t["args"], start=1):
                if i > b.argc:
                    break
                ty = b.locals[i]["ty"]
                term = cctx.an.terms.operand(a)
                if ty.get("k") == "int":
                    p = cctx.sy.poly(term)
                    nm = "arg%d" % i
                elif ty.get("k") == "ref" and ty["t"].get("k") in ("slice", "str", "array"):
                    p = seq_len_poly(cctx, term)
                    nm = "L" if i == ctx_slice_param(b) else "len(arg%d)" % i
                else:
                    continue
                if p is None:
                    continue
                pr, _, _ = cctx.prover_at(bb, [p])
                lo, hi = poly_interval(p, pr.box)
                lo, hi = tighten(pr, p, lo, hi)
                box[nm] = (None if lo is None else int(lo), None if hi is None else int(hi))
            out.append((caller, box))
        if n_here == 0:
            # referenced but not called directly (passed as a function value): no context
            return None
    _CONTEXTS[key] = out or None
    return _CONTEXTS[key]


def ctx_slice_param(body):
    for i in range(1, body.argc + 1):
        ty = body.locals[i]["ty"]
        if ty.get("k") == "ref" and ty["t"].get("k") in ("slice", "str"):
            return i
    return 99


_CL_CONTEXTS = {}


def closure_call_contexts(prog, fn):
    """For a closure that its parent only ever CALLS (`let f = |i| ..; f(0); f(k)`; never handed to an adapter or stored):
    one {argN: (lo, hi)} box per call site with the proven range of each integer argument.  None otherwise."""
    key = (id(prog), fn)
    if key in _CL_CONTEXTS:
        return _CL_CONTEXTS[key]
    _CL_CONTEXTS[key] = None
    b = prog.bodies.get(fn)
    if b is None or "{closure" not in fn:
        return None
    parent = fn.rsplit("::{closure", 1)[0]
    cb = prog.bodies.get(parent)
    if cb is None:
        return None
    from .invariants import tighten
    from .terms import walk as _walk
    tag = "closure:" + fn
    cctx = Ctx(prog, cb)
    cctx._in_context = True
    tm = cctx.an.terms
    out = []
    for bb, t in cb.calls():
        args = [tm.operand(a) for a in t["args"]]
        mentions = [i for i, a in enumerate(args) if any(isinstance(x, tuple) and len(x) > 1 and x[0] == "aggr" and x[1] == tag for x in _walk(a))]
        if not mentions:
            continue
        if not (cname(t) == fn or (t.get("resolved") or "") == fn or short(cname(t)) in ("Fn::call", "FnMut::call_mut", "FnOnce::call_once")) or mentions != [0]:
            return None                      # passed on as a value: it can be called with anything
        recv = strip(args[0])
        while recv[0] in ("ref", "deref"):
            recv = strip(recv[1])
        if not (recv[0] == "aggr" and recv[1] == tag) or len(args) < 2:
            return None
        tup = strip(args[1])
        if not (tup[0] == "aggr" and tup[1] == "tuple"):
            return None
        box = {}
        for k, a in enumerate(tup[2]):
            i = k + 2
            if i > b.argc or b.locals[i]["ty"].get("k") != "int":
                continue
            p = cctx.sy.poly(a)
            if p is None:
                continue
            pr, _, _ = cctx.prover_at(bb, [p])
            lo, hi = poly_interval(p, pr.box)
            lo, hi = tighten(pr, p, lo, hi)
            box["arg%d" % i] = (None if lo is None else int(lo), None if hi is None else int(hi))
        out.append((parent, box))
    _CL_CONTEXTS[key] = out or None
    return _CL_CONTEXTS[key]


def under_call_contexts(ctx, o):
    """a private helper's obligation holds if it holds under the argument ranges of each of its call sites"""
    cs = call_contexts(ctx.prog, ctx.body.path) or closure_call_contexts(ctx.prog, ctx.body.path)
    if not cs:
        return False, ""
    for caller, box in cs:
        c2 = Ctx(ctx.prog, ctx.body)
        c2._in_context = True
        c2.param_box = dict(box)
        try:
            if o.kind == "assert":
                ok, how = c2.prove_bool(o.bb, o.term, o.expected)
            elif o.kind == "call":
                ok, how = CALL_RULES[o.desc](c2, o)
            else:
                ok, how = unreachable(c2, o)
        except RecursionError:
            ok, how = False, "recursion"
        if not ok:
            return False, "fails under the arguments passed by %s: %s" % (short(caller), how)
    return True, "holds under the argument ranges of each of %d call site(s)" % len(cs)


PATH_LIMIT = [256]


def path_sensitive(ctx, o, limit=None):
    """retry the obligation on every acyclic path to the site (loop bodies entered at most once)"""
    from .sym import forward_paths
    paths = forward_paths(ctx.an, o.bb, limit=limit or PATH_LIMIT[0])
    if not paths:
        return False, ""
    n = 0
    for path in paths:
        ctx.enter_path(path)
        try:
            # infeasible paths (contradictory atoms) prove anything
            ge, ne, other = ctx.facts_at(o.bb)
            pr, _, _ = ctx.prover_at(o.bb, [])
            dead, _ = pr.prove_ge0(Poly.const(-1))
            if dead or any(a[0] == "false" for a in other):
                continue
            if o.kind == "assert":
                term = ctx.an.terms.operand(ctx.body.blocks[o.bb]["t"]["cond"])
                ok, how = ctx.prove_bool(o.bb, term, o.expected)
            elif o.kind == "call":
                ok, how = CALL_RULES[o.desc](ctx, o)
            else:
                ok, how = False, "panic block reachable on a feasible path"
            if not ok:
                return False, how
            n += 1
        finally:
            ctx.leave_path()
    return True, "path-sensitive (%d feasible path(s))" % n


def unreachable(ctx, o):
    """an explicit panic is fine iff the block is unreachable under the facts on its dominating edges
    (contradictory guards)"""
    ge, ne, other = ctx.facts_at(o.bb)
    pr, _, _ = ctx.prover_at(o.bb, [])
    # infeasible if 0 >= 1 follows, i.e. prove -1 >= 0
    ok, how = pr.prove_ge0(Poly.const(-1))
    if ok:
        return True, "unreachable: contradictory guards"
    # variant guards that exclude each other
    seen = {}
    for a in other:
        if a[0] == "variant":
            seen.setdefault(a[1], []).append(a)
    return False, "explicit panic reachable (no contradiction among %d facts)" % len(ge)
