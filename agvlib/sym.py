"""Layer 2 (value level): canonical polynomial / atom normalisation of guard conditions and
enumeration of accept paths.

Every integer-valued term is mapped to a polynomial over *symbols*: "L" (length of the input
slice), input fields such as "be16@6" / "le32@L-4" / "u8@10" / "be16@L-4[0..12]", and opaque
applications such as "satsub(be16@6,2)", "rem(L,4)", "crc32c([0..16))".  A guard atom becomes
("rel", "<poly> >= 0" | "== 0" | "!= 0"), ("ok", callee, args), ("bit", name, value), ... —
a vocabulary that does not depend on local names, statement order or `a<b` vs `b>a` spelling.
"""
from fractions import Fraction
from math import gcd

from . import pp
from .bits import Evaluator, BV, fmt_lin
from .guards import truth_of, as_cmp, closure_info, closure_ret, subst_upvars, accessor_field
from .terms import strip, short, show, cname, split_path, unmut


class Poly:
    __slots__ = ("m",)

    def __init__(self, m=None):
        self.m = {k: Fraction(v) for k, v in (m or {}).items() if v != 0}

    @staticmethod
    def const(c):
        return Poly({(): c})

    @staticmethod
    def sym(s):
        return Poly({(s,): 1})

    def __add__(self, o):
        m = dict(self.m)
        for k, v in o.m.items():
            m[k] = m.get(k, 0) + v
        return Poly(m)

    def __neg__(self):
        return Poly({k: -v for k, v in self.m.items()})

    def __sub__(self, o):
        return self + (-o)

    def __mul__(self, o):
        m = {}
        for k1, v1 in self.m.items():
            for k2, v2 in o.m.items():
                k = tuple(sorted(k1 + k2))
                m[k] = m.get(k, 0) + v1 * v2
        return Poly(m)

    def scale(self, c):
        return Poly({k: v * c for k, v in self.m.items()})

    def is_const(self):
        return all(k == () for k in self.m)

    def const_value(self):
        return self.m.get((), Fraction(0))

    def syms(self):
        return sorted(set(s for k in self.m for s in k))

    def degree(self):
        return max((len(k) for k in self.m), default=0)

    def subs(self, env):
        """evaluate with env: sym -> number (all syms must be bound)"""
        tot = Fraction(0)
        for k, v in self.m.items():
            t = v
            for s in k:
                t *= env[s]
            tot += t
        return tot

    def subs_partial(self, env):
        """replace the symbols in env (sym -> number) and keep the others"""
        out = {}
        for k, v in self.m.items():
            c = Fraction(v)
            rest = []
            for s in k:
                if s in env:
                    c *= env[s]
                else:
                    rest.append(s)
            key = tuple(sorted(rest))
            out[key] = out.get(key, Fraction(0)) + c
        return Poly({k: v for k, v in out.items() if v != 0})

    def subs_poly(self, sym, q):
        """replace the symbol `sym` by the polynomial q"""
        out = Poly({})
        for k, v in self.m.items():
            term = Poly({(): Fraction(v)})
            for s in k:
                term = term * (q if s == sym else Poly.sym(s))
            out = out + term
        return out

    def normalised_int(self):
        """scale by a positive rational so that coefficients are coprime integers"""
        if not self.m:
            return self
        den = 1
        for v in self.m.values():
            den = den * v.denominator // gcd(den, v.denominator)
        p = self.scale(den)
        g = 0
        for v in p.m.values():
            g = gcd(g, abs(int(v)))
        if g > 1:
            p = p.scale(Fraction(1, g))
        return p

    def __str__(self):
        if not self.m:
            return "0"
        parts = []
        for k in sorted(self.m, key=lambda k: (-len(k), k)):
            v = self.m[k]
            name = "*".join(k)
            if k == ():
                s = "%s" % (v if v.denominator != 1 else int(v))
            elif v == 1:
                s = name
            elif v == -1:
                s = "-" + name
            else:
                s = "%s*%s" % (v if v.denominator != 1 else int(v), name)
            parts.append(s)
        out = parts[0]
        for p in parts[1:]:
            out += (" - " + p[1:]) if p.startswith("-") else (" + " + p)
        return out

    def __eq__(self, o):
        return isinstance(o, Poly) and self.m == o.m

    def __hash__(self):
        return hash(tuple(sorted(self.m.items())))


import re as _re0
# operator-trait calls on primitive integers (`&usize * usize` is a call in MIR, not a BinaryOp)
INT_OP_CALL = _re0.compile(r"^<&?((?:u|i)(?:8|16|32|64|128|size)) as std::ops::(?:Add|Sub|Mul)<&?(?:u|i)(?:8|16|32|64|128|size)>>::(add|sub|mul)$")


def rel_atom(p, op):
    """canonical ("rel", "<poly> <op> 0") for op in >=, ==, !="""
    p = p.normalised_int()
    if op in ("==", "!="):
        # sign normalisation: first (highest-degree, lexicographically first) coefficient positive
        if p.m:
            k = sorted(p.m, key=lambda k: (-len(k), k))[0]
            if p.m[k] < 0:
                p = -p
    return ("rel", "%s %s 0" % (p, op), p, op)


def cmp_to_rel(op, pa, pb):
    """integer comparison a op b -> canonical rel atom"""
    if op == "Eq":
        return rel_atom(pa - pb, "==")
    if op == "Ne":
        return rel_atom(pa - pb, "!=")
    if op == "Lt":
        return rel_atom(pb - pa - Poly.const(1), ">=")
    if op == "Le":
        return rel_atom(pb - pa, ">=")
    if op == "Gt":
        return rel_atom(pa - pb - Poly.const(1), ">=")
    if op == "Ge":
        return rel_atom(pa - pb, ">=")
    raise ValueError(op)


class Sym:
    """Canonical symbolic evaluation of one body (parameter 1 = input slice, if any)."""

    def __init__(self, prog, an, slice_param=1):
        self.prog = prog
        self.an = an
        self.ev = Evaluator(prog, an, slice_param)
        self._poly = {}
        self._busy_vars = set()
        self.path_blocks = None
        self.path_order = {}
        self.sym_box = {"L": (0, (1 << 63) - 1)}
        self.b2i = {}        # symbol name -> (op, Poly a, Poly b): the comparison whose truth the 0/1 symbol carries
        self.divrem = {}     # symbol name -> ("div"|"rem", operand Poly, k)
        self.opsyms = {}     # symbol name -> (op, Poly a, Poly b, width): bit operations / wrapping and saturating subtraction
        self.phis = {}       # symbol name -> [alternative Polys]
        self.phi_defs = {}   # symbol name -> [(defining block, Poly)] when every definition is a whole assignment
        self.sym_terms = {}  # symbol name -> term it stands for (opaque symbols)

    # ------------------------------------------------------------------ names of input selections
    def bv_name(self, v):
        """canonical name of a bit-vector that is a selection of input bits"""
        ins = [(i, b) for i, b in enumerate(v.bits) if isinstance(b, tuple)]
        if not ins:
            return None
        if any(b is None for b in v.bits):
            return None
        if any(isinstance(b, tuple) and b[0] == "n" for b in v.bits):
            return None
        # contiguous output positions starting at 0, rest zero
        n = len(ins)
        if [i for i, _ in ins] != list(range(n)) or any(b != 0 for b in v.bits[n:]):
            return "sel{%s}" % ",".join("%d<-%s.%d" % (i, fmt_lin((b[1], b[2])), b[3]) for i, b in ins)
        bits = [b for _, b in ins]
        # whole bytes?
        first = bits[0]
        # find an underlying little/big endian whole-byte field this is a slice of
        for endian in ("le", "be"):
            for nbytes in (1, 2, 4, 8, 16):
                for lo in range(0, nbytes * 8 - n + 1):
                    # candidate field start: derive base byte from the first bit
                    # bit j of field (LSB first) lives in byte (j//8 for le, nbytes-1-j//8 for be), bit j%8
                    j0 = lo
                    byte_off = (j0 // 8) if endian == "le" else (nbytes - 1 - j0 // 8)
                    base = (first[1], first[2] - byte_off)
                    if first[3] != j0 % 8:
                        continue
                    ok = True
                    for t, b in enumerate(bits):
                        j = lo + t
                        bo = (j // 8) if endian == "le" else (nbytes - 1 - j // 8)
                        if b != ("i", base[0], base[1] + bo, j % 8):
                            ok = False
                            break
                    if ok:
                        nm = "u8" if nbytes == 1 else "%s%d" % (endian, nbytes * 8)
                        s = "%s@%s" % (nm, fmt_lin(base))
                        if lo != 0 or n != nbytes * 8:
                            s += "[%d..%d]" % (lo, lo + n)
                        return s
        # concatenation of whole fields (e.g. MSW || LSW)
        parts = []
        pos = 0
        while pos < n:
            done = False
            for size in (64, 32, 16, 8):
                if pos + size <= n and size < n:
                    nm = self.bv_name(BV(bits[pos:pos + size]))
                    if nm and not nm.startswith("sel{") and not nm.startswith("cat(") and "[" not in nm:
                        parts.append(nm)
                        pos += size
                        done = True
                        break
            if not done:
                parts = None
                break
        if parts and len(parts) > 1:
            return "cat(%s)" % ",".join(reversed(parts))
        return "sel{%s}" % ",".join("%d<-%s.%d" % (i, fmt_lin((b[1], b[2])), b[3]) for i, b in ins)

    def region_name(self, r):
        return "[%s..%s)" % (fmt_lin(r.start), fmt_lin(r.end()))

    def region_poly(self, t):
        """(start, end) polynomials of a sub-slice of the input, or None"""
        t = strip(t)
        r = self.ev.region(t)
        if r is not None:
            return (self.lin_poly(r.start), self.lin_poly(r.end()))
        if t[0] == "call" and short(t[1]) in ("<impl [T]>::to_vec", "Deref::deref", "Vec::<T, A>::as_slice") and len(t[2]) == 1:
            return self.region_poly(t[2][0])
        if t[0] == "call" and short(t[1]) == "Index::index" and len(t[2]) == 2:
            base = self.region_poly(t[2][0])
            if base is None:
                return None
            rng = strip(t[2][1])
            if rng[0] == "aggr" and rng[1].startswith("adt:std::ops::Range"):
                ops = [self.poly(o) for o in rng[2]]
                if any(o is None for o in ops):
                    return None
                kind = rng[1].split("::")[-1]
                if kind == "RangeFull":
                    return base
                if kind == "Range":
                    return (base[0] + ops[0], base[0] + ops[1])
                if kind == "RangeTo":
                    return (base[0], base[0] + ops[0])
                if kind == "RangeFrom":
                    return (base[0] + ops[0], base[1])
        return None

    def rp_name(self, rp):
        return "[%s..%s)" % (rp[0], rp[1])

    # ------------------------------------------------------------------ polynomials
    def norm_try(self, t):
        """`(r as Continue).0` where r is, on the current path, `Try::branch(X)`: the value of `X?` (the inliner's
        copies of a `?` give `r` several definitions)"""
        if t[0] == "field" and t[2] == 0:
            d = strip(t[1])
            if d[0] == "downcast" and d[2] in ("Some", "Ok", "Err") and strip(d[1])[0] == "var" and self.path_blocks is None:
                # `(v as Some).0` where v is a local whose definitions are all literal variants (an expanded helper's
                # `return None` / `Some(x)`) and exactly one of them is a `Some`: that one's payload — the projection is
                # only evaluated when v is that variant
                v_ = strip(d[1])
                tm_ = self.an.terms
                if not tm_.defs.partial[v_[1]] and 2 <= len(tm_.defs.whole[v_[1]]) <= 4:
                    pays = []
                    okv = True
                    for dd in tm_.defs.whole[v_[1]]:
                        try:
                            x_ = strip(self._def_term(dd))
                        except Exception:
                            okv = False
                            break
                        if not (x_[0] == "aggr" and x_[1].endswith(("option::Option::Some", "option::Option::None", "result::Result::Ok", "result::Result::Err"))):
                            okv = False
                            break
                        if x_[1].endswith("::" + d[2]) and len(x_[2]) == 1:
                            pays.append(x_[2][0])
                    if okv and len(pays) == 1:
                        return strip(pays[0])
            if d[0] == "downcast" and d[2] == "Some":
                f_ = strip(d[1])
                if f_[0] == "call" and short(f_[1]) == "<impl [T]>::first" and len(f_[2]) == 1:
                    # `s.first()`'s payload is `s[0]`
                    return ("call", "std::ops::Index::index", (f_[2][0], ("const", 0, "usize")), f_[3])
            if d[0] == "downcast" and d[2] in ("Some", "Ok"):
                m_ = strip(d[1])
                if m_[0] == "call" and short(m_[1]) in ("Option::<T>::map", "Result::<T, E>::map") and len(m_[2]) == 2:
                    # the payload of `opt.map(f)` is f(payload of opt)
                    from .terms import apply_closure
                    cl_ = strip(m_[2][1])
                    ap_ = apply_closure(self.prog, cl_, (("field", ("downcast", m_[2][0], d[2]), 0),)) if cl_[0] == "aggr" else None
                    if ap_ is not None:
                        return strip(ap_)
            if d[0] == "downcast" and d[2] == "Continue":
                v = strip(d[1])
                if v[0] == "var" and self.path_blocks is not None:
                    try:
                        ds = self.var_defs(v[1], v[2] if len(v) > 2 else None)
                    except Exception:
                        ds = None
                    if ds and len(ds) == 1:
                        v = strip(ds[0])
                if v[0] == "call" and short(v[1]) == "Try::branch" and len(v[2]) == 1:
                    return ("try", v[2][0])
        return t

    def poly(self, t):
        t = strip(t)
        t = self.norm_try(t)
        ct = getattr(self, "case_terms", None)
        if ct and t in ct:
            v = ct[t]
            v = v if isinstance(v, Poly) else Poly.const(v)
            # the replacement may itself mention other case symbols / terms
            for _ in range(4):
                hit = False
                for sname in list(v.syms()):
                    tt = self.sym_terms.get(sname)
                    if tt is not None and strip(tt) in ct and strip(tt) != t:
                        r = ct[strip(tt)]
                        v = v.subs_poly(sname, r if isinstance(r, Poly) else Poly.const(r))
                        hit = True
                    elif sname in (self.case_env or {}):
                        r = self.case_env[sname]
                        v = v.subs_poly(sname, r if isinstance(r, Poly) else Poly.const(r))
                        hit = True
                    elif tt is not None and ("reval", sname) not in self._busy_vars:
                        # an opaque application whose arguments mention a case term (wrapsub(X.unwrap_or(d), y) with
                        # X.unwrap_or(d) being split): evaluate it again under the current cases
                        self._busy_vars.add(("reval", sname))
                        try:
                            r = self._poly_uncached(strip(tt))
                        finally:
                            self._busy_vars.discard(("reval", sname))
                        if r is not None and not (r == Poly.sym(sname)):
                            v = v.subs_poly(sname, r)
                            hit = True
                if not hit:
                    break
            return v
        key = t
        try:
            if key in self._poly:
                return self._poly[key]
        except TypeError:
            key = None
        p = self._poly_uncached(t)
        if key is not None and not self._busy_vars:
            # results computed while unfolding a loop-carried local mention the `loopvar` marker: never cache them
            self._poly[key] = p
        return p

    def header_sym(self, l):
        """symbol for the value a loop-carried local has at the loop header: loop(<initial values>), where the
        initial values are its definitions that do not mention the local itself"""
        if not hasattr(self, "_header_syms"):
            self._header_syms = {}
        if l in self._header_syms:
            return self._header_syms[l]
        self._header_syms[l] = None
        tm = self.an.terms
        inits = []
        for (bi, si, x) in tm.defs.whole[l]:
            dt = tm.call_term(x, bi) if si == "t" else tm.rvalue(x)
            from .terms import walk as _walk
            if any(y[0] in ("var", "mut") and y[1] == l for y in _walk(dt)):
                continue
            p = self.poly(dt)
            if p is None:
                return None
            inits.append(str(p))
        if not inits:
            return None
        self._header_syms[l] = self.loop_sym(l, "|".join(sorted(set(inits))))
        try:
            pf = self.pure_fold_loops().get(l)
        except Exception:
            pf = None
        if pf is not None:
            # accumulator of `for x in IT { acc += widen(x) }` over a sequence of constant length n: at the header of
            # iteration k < n it is a sum of k <= n-1 elements
            self._busy_vars.add(("pfl", l))
            try:
                self.fold_sum_poly(l, pf)
            finally:
                self._busy_vars.discard(("pfl", l))
            full = getattr(self, "sum_ranges", {}).get(pf[3])
            n = pf[4][0]
            if full is not None and n is not None and n.is_const() and int(n.const_value()) >= 1:
                k_ = int(n.const_value())
                self.sym_box[self._header_syms[l]] = (full[0] // k_ * (k_ - 1), full[1] // k_ * (k_ - 1))
        return self._header_syms[l]

    def bit_signature(self, t):
        """`(v >> 23) == 1`, `v & (1 << 23) != 0`, ... over ONE opaque integer v of known small width: canonical
        `bit{23}(v)=1` form (agvlib.bitsem); None if the comparison is not of that kind"""
        from . import bitsem
        from .terms import walk as _walk
        if not any(x[0] == "bin" and x[1] in ("BitAnd", "BitOr", "BitXor", "Shl", "Shr") for x in _walk(t)):
            return None
        # the opaque variable: the unique maximal subterm that is not a bit operation / constant
        leaves = []

        def fold(x):
            """constant subterms (`24 - 1`) as literals"""
            if not isinstance(x, tuple) or not x:
                return x
            if x[0] in ("bin", "cast"):
                px = self.poly(x)
                if px is not None and px.is_const() and px.const_value() == int(px.const_value()) and px.const_value() >= 0:
                    return ("const", int(px.const_value()), "u64")
            if x[0] == "bin" and len(x) == 4:
                return (x[0], x[1], fold(x[2]), fold(x[3]))
            if x[0] == "cast":
                return (x[0], x[1], fold(x[2])) + tuple(x[3:])
            return x
        t = fold(t)

        def collect(x):
            x = strip(x)
            if x[0] == "const":
                return
            if x[0] == "bin" and len(x) == 4 and x[1] in ("BitAnd", "BitOr", "BitXor", "Shl", "Shr", "Eq", "Ne", "Lt", "Le", "Gt", "Ge"):
                collect(x[2])
                collect(x[3])
                return
            if x[0] == "cast":
                collect(x[2])
                return
            leaves.append(x)
        collect(t)
        if not leaves or any(l != leaves[0] for l in leaves):
            return None
        v = leaves[0]
        pv = self.poly(v)
        if pv is None or len(pv.syms()) != 1 or pv != Poly.sym(pv.syms()[0]):
            return None
        bx = self.sym_box.get(pv.syms()[0], (None, None))
        if bx[0] is None or bx[0] < 0 or bx[1] is None or bx[1] >= (1 << 32):
            return None
        width = max(1, int(bx[1]).bit_length())

        def is_var(x):
            return strip(x) == v
        sg = bitsem.signature(t, is_var, width)
        if sg is None or not sg.startswith(("b{", "true", "false")):
            return None
        return "bits(%s):%s" % (pv.syms()[0], sg)

    def uniq(self, local, desc):
        """In `unique_locals` mode (panic-obligation engine) two different locals with the same canonical description
        get different names, so that a fact about one is never applied to the other; the table-comparison packs keep
        the purely descriptive names."""
        if not getattr(self, "unique_locals", False):
            return desc
        if desc.startswith(("mut(<impl [T]>::iter(", "mut(Iterator::", "mut(IntoIterator::into_iter(", "mut(<impl str>::chars(", "mut(<impl [T]>::chunks_exact(")):
            # iterator temporaries: named after their source; guards on their results are matched by call site
            # (oblig.rule_unwrap), not by name
            return desc
        if not hasattr(self, "_uniq"):
            self._uniq = {}
        ls = self._uniq.setdefault(desc, [])
        if local not in ls:
            ls.append(local)
        k = ls.index(local)
        return desc if k == 0 else "%s#%d" % (desc, k + 1)

    def loop_sym(self, local, init):
        """symbol of a loop-carried local: `loop(init)`; two different locals with the same initial value must not
        share a symbol (facts about one would be applied to the other), so later ones are numbered `loop#2(init)`"""
        if not hasattr(self, "_loop_syms"):
            self._loop_syms = {}
        ls = self._loop_syms.setdefault(init, [])
        if local not in ls:
            ls.append(local)      # first come, first named: deterministic for a given body, never renamed later
        k = ls.index(local)
        return "loop(%s)" % init if k == 0 else "loop#%d(%s)" % (k + 1, init)

    def set_cases(self, env):
        """case environment {symbol: number | Poly}: every polynomial (hence every canonical name built from one) is
        computed with these symbols replaced; used to split a path into the cases of a branch-defined value"""
        env = env or {}
        self.case_env = {k: v for k, v in env.items() if isinstance(k, str)}
        self.case_terms = {k: v for k, v in env.items() if not isinstance(k, str)}
        self._poly = {}

    def _poly_uncached(self, t):
        p = self._poly_uncached2(t)
        if p is not None and getattr(self, "case_env", None):
            for _ in range(4):
                hit = False
                for sname, val in self.case_env.items():
                    if sname in p.syms():
                        p = p.subs_poly(sname, val if isinstance(val, Poly) else Poly.const(val))
                        hit = True
                if not hit:
                    break
        if p is not None:
            for sname in p.syms():
                if sname not in self.sym_box:
                    self.sym_box[sname] = self.guess_box(sname, t if p == Poly.sym(sname) else None)
                if p == Poly.sym(sname) and sname not in self.sym_terms:
                    self.sym_terms[sname] = t
        return p

    def site_block(self, site):
        """terminator of the call site of a term in *this* body, or None for inlined closure terms"""
        if isinstance(site, int) and 0 <= site < len(self.an.body.blocks):
            t = self.an.body.blocks[site]["t"]
            if t.get("k") == "call":
                return t
        return None

    def int_range(self, ty):
        if ty is None or ty.get("k") != "int":
            if ty is not None and ty.get("k") == "bool":
                return (0, 1)
            if ty is not None and ty.get("k") == "char":
                return (0, 0x10FFFF)
            return (None, None)
        w = ty["w"]
        return (-(1 << (w - 1)), (1 << (w - 1)) - 1) if ty["s"] else (0, (1 << w) - 1)

    def guess_box(self, name, term):
        """value range of a symbol from its name / the type of the term it stands for"""
        import re
        m = re.match(r"^(s\()?(u8|le16|be16|le32|be32|le64|be64|le128|be128)@[^\[\]]*(\[(\d+)\.\.(\d+)\])?\)?$", name)
        if m:
            width = {"u8": 8}.get(m.group(2)) or int(m.group(2)[2:])
            if m.group(3):
                width = int(m.group(5)) - int(m.group(4))
            if m.group(1):
                return (-(1 << (width - 1)), (1 << (width - 1)) - 1)
            return (0, (1 << width) - 1)
        if name.startswith("len("):
            import re as _re
            m = _re.match(r"^len\((alpha_g_[\w:]+)\((.*)\)\)$", name)
            if m and m.group(1) in self.prog.bodies:
                # length of a Vec field returned by an accessor: the field's invariant (constructor census)
                from .guards import accessor_field
                from . import invariants
                fi = accessor_field(self.prog, m.group(1))
                b = self.prog.bodies[m.group(1)]
                if fi is not None and b.argc == 1:
                    ty = b.locals[1]["ty"]
                    while ty.get("k") == "ref":
                        ty = ty["t"]
                    if ty.get("k") == "adt":
                        lb = invariants.len_box(self.prog, ty["p"], fi)
                        if lb is not None:
                            return (lb[0] if lb[0] is not None else 0, lb[1] if lb[1] is not None else (1 << 63) - 1)
            return (0, (1 << 63) - 1)
        if term is not None:
            tt = term
            while tt[0] in ("ref", "deref"):
                tt = tt[1]
            if tt[0] == "field":
                bty = self.type_of(tt[1])
                if bty is not None and bty.get("k") == "adt" and bty["p"] in self.prog.adts:
                    from . import invariants
                    fb = invariants.field_box(self.prog, bty["p"], tt[2])
                    if fb is not None and (fb[0] is not None or fb[1] is not None):
                        return fb
            ty = self.type_of(term)
            if ty is None and term[0] == "call" and isinstance(term[3], int) and term[3] >= 0:
                blk = self.an.body.blocks[term[3]]["t"]
                d = blk.get("dest")
                if d is not None and not d["pr"]:
                    ty = self.an.body.locals[d["l"]]["ty"]
            if ty is None and term[0] == "bin":
                ty = self.bin_type(term)
            if ty is not None:
                return self.int_range(ty)
        return (None, None)

    def bin_type(self, t):
        """type of an integer expression term (best effort)"""
        t0 = t
        while t0[0] in ("ref", "deref"):
            t0 = t0[1]
        if t0[0] == "call" and len(t0[2]) == 1 and short(t0[1]) in ("From::from", "Into::into"):
            # widening conversion: the type of the result, not of the operand
            ty = self.type_of(t0)
            if ty is not None and ty.get("k") == "int":
                return ty
        t = strip(t)
        if t[0] == "const":
            w = {"u8": (8, False), "u16": (16, False), "u32": (32, False), "u64": (64, False), "u128": (128, False), "usize": (64, False),
                 "i8": (8, True), "i16": (16, True), "i32": (32, True), "i64": (64, True), "i128": (128, True), "isize": (64, True)}.get(t[2])
            if w:
                return {"k": "int", "w": w[0], "s": w[1]}
            return None
        if t[0] == "bin":
            return self.bin_type(t[2]) or self.bin_type(t[3])
        if t[0] == "cast":
            w = {"u8": (8, False), "u16": (16, False), "u32": (32, False), "u64": (64, False), "u128": (128, False), "usize": (64, False),
                 "i8": (8, True), "i16": (16, True), "i32": (32, True), "i64": (64, True), "i128": (128, True), "isize": (64, True)}.get(t[3])
            if w:
                return {"k": "int", "w": w[0], "s": w[1]}
        return self.type_of(t)

    def _poly_uncached2(self, t):
        k = t[0]
        if k == "const":
            if t[2] in ("f64", "f32"):
                return None
            if isinstance(t[1], bool):
                return Poly.const(int(t[1]))
            if isinstance(t[1], int):
                return Poly.const(t[1])
            return None
        if k == "cdef":
            try:
                v = self.prog.const_scalar(t[1])
                if isinstance(v, (int, bool)):
                    return Poly.const(int(v))
            except Exception:
                return None
            return None
        if k == "try":
            kp_ = self.known_payload(t[1])
            if kp_ is not None:
                return self.poly(kp_)
            # audited library summary (winnow): `empty.value(v).parse_next(i)?` is v — `empty` always succeeds without
            # consuming input and `value` replaces its output by a clone of v (how the `seq!` parsers of
            # detector::chronobox fill fields computed from an earlier token)
            c0 = strip(t[1])
            if c0[0] == "call" and c0[1] == "winnow::Parser::parse_next" and len(c0[2]) == 2:
                pv = unmut(c0[2][0])
                if pv[0] == "call" and pv[1] == "winnow::Parser::value" and len(pv[2]) == 2 and strip(pv[2][0]) == ("fn", "winnow::combinator::empty"):
                    return self.poly(pv[2][1])
        # length of a region of the input
        if (k == "call" and short(t[1]) == "<impl [T]>::len") or k == "len":
            arg = t[2][0] if k == "call" else t[1]
            r = self.ev.region(arg)
            if r is not None:
                ln = r.length if r.length is not None else (r.end()[0] - r.start[0], r.end()[1] - r.start[1])
                return Poly({("L",): ln[0], (): ln[1]})
            inner = self.seq_len(arg)
            if inner is not None:
                return inner
            return Poly.sym("len(%s)" % self.name(arg))
        if k == "call" and short(t[1]) == "<impl str>::len":
            r = self.ev.region(t[2][0])
            if r is not None:
                ln = r.length if r.length is not None else (r.end()[0] - r.start[0], r.end()[1] - r.start[1])
                return Poly({("L",): ln[0], (): ln[1]})
        if k == "call" and short(t[1]) in ("Vec::<T, A>::len", "<impl str>::len"):
            inner = self.seq_len(t[2][0])
            if inner is not None:
                return inner
            return Poly.sym("len(%s)" % self.name(t[2][0]))
        v = self.ev.bv(t)
        if v is not None:
            cv = v.const_value()
            if cv is not None:
                if v.signed and v.bits and v.bits[-1] == 1:
                    cv -= 1 << v.width
                return Poly.const(cv)
            nm = self.bv_name(v)
            if nm is not None:
                if v.signed:
                    nm = "s(" + nm + ")"
                return Poly.sym(nm)
        if k == "bin" and len(t) == 5:
            return None
        if k == "bin":
            op = t[1]
            if op in ("Add", "Sub", "Mul", "AddUnchecked", "SubUnchecked", "MulUnchecked"):
                a, b = self.poly(t[2]), self.poly(t[3])
                if a is None or b is None:
                    return None
                if op.startswith("Add"):
                    return a + b
                if op.startswith("Sub"):
                    return a - b
                return a * b
            if op in ("Div", "Rem"):
                a, b = self.poly(t[2]), self.poly(t[3])
                if a is None or b is None:
                    return None
                if a.is_const() and b.is_const() and b.const_value() != 0 and a.const_value() >= 0:
                    q, r = divmod(int(a.const_value()), int(b.const_value()))
                    return Poly.const(q if op == "Div" else r)
                nm = "%s(%s,%s)" % ("div" if op == "Div" else "rem", a, b)
                if b.is_const() and b.const_value() > 0:
                    kk = int(b.const_value())
                    self.divrem[nm] = ("div" if op == "Div" else "rem", a, kk)
                    from .prover import poly_interval
                    alo, ahi = poly_interval(a, {s_: self.sym_box.get(s_, (None, None)) for s_ in a.syms()})
                    if op == "Rem":
                        if alo is not None and alo >= 0:
                            self.sym_box[nm] = (0, kk - 1 if ahi is None else min(kk - 1, int(ahi)))
                        else:
                            self.sym_box[nm] = (-(kk - 1), kk - 1)
                    else:
                        lo_ = None if alo is None else (int(alo) // kk if alo >= 0 else -((-int(alo)) // kk) - 1)
                        hi_ = None if ahi is None else (int(ahi) // kk if ahi >= 0 else -((-int(ahi)) // kk))
                        self.sym_box[nm] = (lo_, hi_)
                return Poly.sym(nm)
            if op in ("BitAnd", "BitOr", "BitXor", "Shl", "Shr"):
                a, b = self.poly(t[2]), self.poly(t[3])
                if a is None or b is None:
                    return None
                if op == "Shl" and b.is_const() and 0 <= b.const_value() <= 62:
                    # `a << k` is `a * 2^k` exactly when no set bit is shifted out: the product's interval must fit
                    # the operand type (otherwise the shift truncates and stays an opaque symbol)
                    from .prover import poly_interval
                    prod = a * Poly.const(1 << int(b.const_value()))
                    plo, phi_ = poly_interval(prod, {s_: self.sym_box.get(s_, (None, None)) for s_ in prod.syms()})
                    tlo, thi = self.int_range(self.bin_type(t[2]))
                    if plo is not None and phi_ is not None and tlo is not None and tlo <= plo and phi_ <= thi:
                        return prod
                nm = "%s(%s,%s)" % (op.lower(), a, b)
                if nm not in self.opsyms:
                    self.opsyms[nm] = (op, a, b, (self.bin_type(t[2]) or {}).get("w"))
                if nm not in self.sym_box:
                    # value ranges of bit operations with a constant operand (unsigned operands)
                    from .prover import poly_interval
                    alo, ahi = poly_interval(a, {s_: self.sym_box.get(s_, (None, None)) for s_ in a.syms()})
                    blo, bhi = poly_interval(b, {s_: self.sym_box.get(s_, (None, None)) for s_ in b.syms()})
                    bx = None
                    if op == "BitAnd":
                        his = [h for (l, h) in ((alo, ahi), (blo, bhi)) if l is not None and l >= 0 and h is not None]
                        if his:
                            bx = (0, int(min(his)))
                    elif op == "Shr" and b.is_const() and alo is not None and alo >= 0 and ahi is not None:
                        k_ = int(b.const_value())
                        bx = (int(alo) >> k_, int(ahi) >> k_)
                    elif op in ("BitOr", "BitXor") and alo is not None and alo >= 0 and ahi is not None and blo is not None and blo >= 0 and bhi is not None:
                        bx = (0, (1 << max(int(ahi).bit_length(), int(bhi).bit_length())) - 1)
                    if bx is not None:
                        self.sym_box[nm] = bx
                return Poly.sym(nm)
            return None
        if k == "cast":
            if t[1] in ("IntToInt",):
                inner = strip(t[2])
                c = as_cmp(inner, True)
                if c is not None and not self.is_float_cmp(inner):
                    pa, pb = self.poly(c[1]), self.poly(c[2])
                    if pa is not None and pb is not None:
                        nm = "b2i(%s)" % cmp_to_rel(c[0], pa, pb)[1]
                        self.sym_box[nm] = (0, 1)
                        self.b2i[nm] = (c[0], pa, pb)
                        return Poly.sym(nm)
                p_ = self.poly(t[2])
                if p_ is None:
                    return None
                # an integer cast is the identity only when the operand's range fits the target type; otherwise it
                # wraps / truncates: an opaque symbol with the target's range (agvlib.oblig adds `cast == operand`
                # when the guards on the path bound the operand)
                rng_ = {"u8": (0, 255), "u16": (0, 65535), "u32": (0, (1 << 32) - 1), "u64": (0, (1 << 64) - 1), "usize": (0, (1 << 64) - 1),
                        "u128": (0, (1 << 128) - 1), "i8": (-128, 127), "i16": (-32768, 32767), "i32": (-(1 << 31), (1 << 31) - 1),
                        "i64": (-(1 << 63), (1 << 63) - 1), "isize": (-(1 << 63), (1 << 63) - 1), "i128": (-(1 << 127), (1 << 127) - 1)}.get(t[3] if len(t) > 3 else None)
                if rng_ is None:
                    return p_
                from .prover import poly_interval
                lo_, hi_ = poly_interval(p_, {s_: self.sym_box.get(s_, (None, None)) for s_ in p_.syms()})
                if lo_ is not None and hi_ is not None and rng_[0] <= lo_ and hi_ <= rng_[1]:
                    return p_
                # the operand's own type may already guarantee the fit (u16 -> usize ...)
                oty_ = self.bin_type(t[2])
                if oty_ is not None and oty_.get("k") == "int":
                    olo_, ohi_ = self.int_range(oty_)
                    if rng_[0] <= olo_ and ohi_ <= rng_[1]:
                        return p_
                nm = "cast<%s>(%s)" % (t[3], p_)
                self.sym_box[nm] = rng_
                if not hasattr(self, "casts"):
                    self.casts = {}
                self.casts[nm] = (p_, rng_)
                return Poly.sym(nm)
            return None
        if k == "call":
            s = short(t[1])
            callee = t[1]
            if callee not in self.prog.bodies:
                blk0 = self.site_block(t[3]) or {}
                if (blk0.get("resolved") or "") in self.prog.bodies:
                    callee = blk0["resolved"]
            if callee in self.prog.bodies and len(t[2]) == 1:
                # accessor of an integer field (`fn id(&self) -> u8 { self.0 }`, `impl From<Id> for usize`)
                fi = accessor_field(self.prog, callee)
                if fi is not None:
                    # keep the call's canonical name; its range is the field's invariant (constructor census)
                    nm = self.name(t)
                    if nm not in self.sym_box:
                        bx = self.guess_box(nm + ".field", ("field", t[2][0], fi))
                        if bx != (None, None):
                            self.sym_box[nm] = bx
                    if s not in ("From::from", "Into::into") and "impl std::convert::From<" not in t[1]:
                        return Poly.sym(nm)
            if s in ("From::from", "Into::into") and len(t[2]) == 1:
                # usize::from(x > 5): a comparison used as a number is a 0/1 flag
                inner_c = strip(t[2][0])
                c_ = as_cmp(inner_c, True) if inner_c[0] in ("bin", "un") else None
                if c_ is not None and not self.is_float_cmp(inner_c) and not str(c_[0]).startswith("Not"):
                    pa, pb = self.poly(c_[1]), self.poly(c_[2])
                    if pa is not None and pb is not None:
                        nm = "b2i(%s)" % cmp_to_rel(c_[0], pa, pb)[1]
                        self.sym_box[nm] = (0, 1)
                        self.b2i[nm] = (c_[0], pa, pb)
                        return Poly.sym(nm)
            if s in ("From::from", "Into::into") or "impl std::convert::From<" in t[1]:
                if callee in self.prog.bodies and len(t[2]) == 1 and accessor_field(self.prog, callee) is not None:
                    # newtype -> integer: same symbol as the wrapped value's name, range = field invariant
                    p_ = self.poly(t[2][0])
                    if p_ is not None and len(p_.syms()) == 1 and p_ == Poly.sym(list(p_.syms())[0]):
                        nm0 = list(p_.syms())[0]
                        bx = self.guess_box(nm0 + ".field", ("field", t[2][0], accessor_field(self.prog, callee)))
                        old_ = self.sym_box.get(nm0, (None, None))
                        if bx != (None, None) and old_ == (None, None):
                            self.sym_box[nm0] = bx
                    return p_
                return self.poly(t[2][0])
            if s in ("Result::<T, E>::unwrap", "Result::<T, E>::expect"):
                inner = strip(t[2][0])
                if inner[0] == "call" and short(inner[1]) in ("TryInto::try_into", "TryFrom::try_from"):
                    return self.poly(inner[2][0])
            if s == "Iterator::sum" and len(t[2]) == 1:
                nm = self.name(t)
                src = unmut(t[2][0])
                if src[0] == "call" and short(src[1]) == "Iterator::map" and len(src[2]) == 2:
                    n = self.iter_len(src[2][0])
                    ci = closure_info(self.prog, self.an, strip(src[2][1]))
                    if n is not None and n.is_const() and ci:
                        cb = ci[0]
                        rets = closure_ret(self.prog, cb)
                        ety = cb.locals[2]["ty"] if cb.argc >= 2 else None
                        while ety is not None and ety.get("k") == "ref":
                            ety = ety["t"]
                        rng = self.int_range(ety)
                        widened = len(rets) == 1 and strip(rets[0]) in (("param", 2),) or (len(rets) == 1 and strip(rets[0])[0] == "call" and short(strip(rets[0])[1]) in ("From::from", "Into::into") or (len(rets) == 1 and "impl std::convert::From<" in str(strip(rets[0])[1:2])))
                        if rng[0] is not None and widened:
                            k_ = int(n.const_value())
                            self.sym_box[nm] = (k_ * rng[0], k_ * rng[1])
                            if not hasattr(self, "sum_ranges"):
                                self.sum_ranges = {}
                            self.sum_ranges[nm] = (k_ * rng[0], k_ * rng[1])   # derived from count x element range
                return Poly.sym(nm)
            mo = None
            if s in ("Mul::mul", "Add::add", "Sub::sub") and len(t[2]) == 2:
                blk = self.site_block(t[3]) or {}
                mo = INT_OP_CALL.match(blk.get("resolved") or "")
            if mo and len(t[2]) == 2:
                a, b = self.poly(t[2][0]), self.poly(t[2][1])
                if a is None or b is None:
                    return None
                return a + b if mo.group(2) == "add" else a - b if mo.group(2) == "sub" else a * b
            if s.endswith("::trailing_zeros") and len(t[2]) == 1:
                nm = self.name(t)
                m_ = __import__("re").search(r"impl u(\d+)>::trailing_zeros", t[1])
                if m_:
                    self.sym_box[nm] = (0, int(m_.group(1)))
                return Poly.sym(nm)
            if s.endswith("::leading_zeros") and len(t[2]) == 1:
                nm = self.name(t)
                m_ = __import__("re").search(r"impl u(\d+)>::leading_zeros", t[1])
                if m_:
                    self.sym_box[nm] = (0, int(m_.group(1)))
                return Poly.sym(nm)
            if s == "mem::size_of" and not t[2]:
                blk = self.site_block(t[3]) or {}
                ga = blk.get("gargs") or []
                if len(ga) == 1 and ga[0]["k"] in ("int", "float") :
                    return Poly.const(ga[0]["w"] // 8)
                if len(ga) == 1 and ga[0]["k"] == "bool":
                    return Poly.const(1)
            if s.endswith("::saturating_sub") and len(t[2]) == 2:
                a, b = self.poly(t[2][0]), self.poly(t[2][1])
                if a is not None and b is not None:
                    nm = "satsub(%s,%s)" % (a, b)
                    from .prover import poly_interval
                    alo, ahi = poly_interval(a, {s_: self.sym_box.get(s_, (None, None)) for s_ in a.syms()})
                    blo, bhi = poly_interval(b, {s_: self.sym_box.get(s_, (None, None)) for s_ in b.syms()})
                    hi_ = None if ahi is None else (int(ahi) - (int(blo) if blo is not None and blo > 0 else 0))
                    self.sym_box[nm] = (0, None if hi_ is None else max(0, hi_))
                    self.opsyms[nm] = ("SatSub", a, b, None)
                    return Poly.sym(nm)
            if (s.endswith("::div_euclid") or s.endswith("::rem_euclid")) and s.startswith("<impl ") and len(t[2]) == 2:
                # floor division by a positive constant: div_euclid(a, k) = a / k - [a % k < 0], rem_euclid(a, k) =
                # a % k + k * [a % k < 0] (Rust's `/` and `%` truncate); the bracket is a 0/1 comparison flag that the
                # case expansion of accept.case_envs splits, so `if a % k < 0 { a / k - 1 } else { a / k }` is the same
                a, b = self.poly(t[2][0]), self.poly(t[2][1])
                if a is not None and b is not None and b.is_const() and b.const_value() > 0:
                    q = self.poly(("bin", "Div", t[2][0], t[2][1]))
                    r = self.poly(("bin", "Rem", t[2][0], t[2][1]))
                    if q is not None and r is not None:
                        from .prover import poly_interval
                        alo, _ = poly_interval(a, {s_: self.sym_box.get(s_, (None, None)) for s_ in a.syms()})
                        if alo is not None and alo >= 0:
                            return q if s.endswith("div_euclid") else r
                        nmf = "b2i(%s)" % cmp_to_rel("Lt", r, Poly.const(0))[1]
                        self.sym_box[nmf] = (0, 1)
                        self.b2i[nmf] = ("Lt", r, Poly.const(0))
                        if s.endswith("div_euclid"):
                            return q - Poly.sym(nmf)
                        return r + Poly.sym(nmf) * Poly.const(int(b.const_value()))
            if s.endswith("::abs_diff") and s.startswith("<impl ") and len(t[2]) == 2:
                # |a - b| = (a - b) * (2 * [a >= b] - 1): the bracket is a 0/1 comparison flag (case-expanded like the
                # `if a > b { a - b } else { b - a }` form)
                a, b = self.poly(t[2][0]), self.poly(t[2][1])
                if a is not None and b is not None:
                    nmf = "b2i(%s)" % cmp_to_rel("Ge", a, b)[1]
                    self.sym_box[nmf] = (0, 1)
                    self.b2i[nmf] = ("Ge", a, b)
                    return (a - b) * (Poly.sym(nmf) * Poly.const(2) - Poly.const(1))
            if s.endswith("::wrapping_sub") and len(t[2]) == 2:
                a, b = self.poly(t[2][0]), self.poly(t[2][1])
                if a is not None and b is not None:
                    m_w = __import__("re").search(r"impl [ui](\d+|size)>::wrapping_sub", t[1])
                    if a == b:
                        return Poly.const(0)                       # x.wrapping_sub(x)
                    if a.is_const() and b.is_const() and m_w and t[1].find("impl u") >= 0:
                        w_ = 64 if m_w.group(1) == "size" else int(m_w.group(1))
                        return Poly.const((int(a.const_value()) - int(b.const_value())) % (1 << w_))
                    self.opsyms["wrapsub(%s,%s)" % (a, b)] = ("WrapSub", a, b, None if not m_w else 64 if m_w.group(1) == "size" else int(m_w.group(1)))
                    return Poly.sym("wrapsub(%s,%s)" % (a, b))
            return Poly.sym(self.name(t))
        if k == "var":
            vpos = t[2] if len(t) > 2 else None
            bkey = (t[1], vpos)
            if bkey not in self._busy_vars and self.path_blocks is None:
                # (on a concrete path the path itself says which way the loop was left: agvlib.quant names that case)
                sl = self.search_loops().get(t[1])
                if sl is not None and (vpos is None or (vpos[0] not in sl[1] and vpos[0] != sl[2])):
                    nm_ = self.name(sl[0])
                    self.sym_terms.setdefault(nm_, sl[0])
                    return Poly.sym(nm_)
            if bkey not in self._busy_vars and self.path_blocks is None and ("mau", t[1]) not in self._busy_vars:
                # `match opt { Some(i) => i, None => D }` is `opt.unwrap_or(D)` (same symbol as the combinator form)
                mu_ = self.match_as_unwrap_or(t[1])
                if mu_ is not None and (vpos is None or all(vpos[0] != d_[0] for d_ in self.an.terms.defs.whole[t[1]])):
                    self._busy_vars.add(("mau", t[1]))
                    try:
                        return self.poly(mu_)
                    finally:
                        self._busy_vars.discard(("mau", t[1]))
            if bkey not in self._busy_vars and ("pfl", t[1]) not in self._busy_vars:
                pf = self.pure_fold_loops().get(t[1])
                if pf is not None and (vpos is None or vpos[0] not in pf[2]):
                    return self.fold_sum_poly(t[1], pf)
            if bkey in self._busy_vars:
                # a read of the local inside its own redefinition (`i = i + 1`) that resolves to itself: the value it
                # had at the loop header
                hs = self.header_sym(t[1]) if vpos is not None else None     # position-tagged reads only (obligation engine)
                return Poly.sym(hs) if hs else Poly.sym("loopvar")
            if vpos is not None and self.path_blocks is None and not self.an.terms.defs.partial[t[1]]:
                # flow-sensitive resolution by reaching definitions (no concrete path set)
                rd = self.reaching(t[1], vpos)
                if rd == {"HEADER"}:
                    hs = self.header_sym(t[1])
                    if hs:
                        return Poly.sym(hs)
                elif len(rd) == 1:
                    d1 = self.def_at(t[1], next(iter(rd)))
                    self._busy_vars.add(bkey)
                    try:
                        return self.poly(self._def_term(d1))
                    finally:
                        self._busy_vars.discard(bkey)
            defs = self.var_defs(t[1], vpos)
            if defs:
                self._busy_vars.add(bkey)
                try:
                    ps = [self.poly(d) for d in defs]
                finally:
                    self._busy_vars.discard(bkey)
                if all(p is not None for p in ps):
                    if all(p == ps[0] for p in ps):
                        return ps[0]
                    rec = [p for p in ps if any("loopvar" in sname for sname in p.syms())]
                    if rec:
                        return Poly.sym(self.loop_sym(t[1], "|".join(sorted(str(p) for p in ps if p not in rec))))
                    nm = "phi(%s)" % "|".join(sorted(str(p) for p in ps))
                    if vpos is not None and getattr(self, "unique_locals", False):
                        # which definition reaches this read is unknown here: the symbol is private to the read
                        nm = "%s@%s.%s" % (nm, vpos[0], vpos[1])
                    self.phis[nm] = ps
                    raw = self.an.terms.defs.whole[t[1]]
                    if len(raw) == len(ps) and not self.an.terms.defs.partial[t[1]]:
                        self.phi_defs[nm] = [(raw[i][0], ps[i]) for i in range(len(ps))]
                    return Poly.sym(nm)
            return None
        if k == "field":
            comp = self.tuple_component(t)
            if comp is not None:
                return self.poly(comp)
            b_ = strip(t[1])
            if b_[0] == "var" and self.path_blocks is None and isinstance(t[2], int) and ("tcp", b_[1]) not in self._busy_vars:
                # `let (a, b) = match x { .. => (e1, f1), .. => (e2, f2) }` without a concrete path: a is one of e1, e2
                tm_ = self.an.terms
                if not tm_.defs.partial[b_[1]] and 1 <= len(tm_.defs.whole[b_[1]]) <= 8:
                    comps = []
                    for d_ in tm_.defs.whole[b_[1]]:
                        try:
                            x_ = strip(self._def_term(d_))
                        except Exception:
                            comps = None
                            break
                        if not (x_[0] == "aggr" and x_[1] == "tuple" and t[2] < len(x_[2])):
                            comps = None
                            break
                        comps.append(x_[2][t[2]])
                    if comps:
                        self._busy_vars.add(("tcp", b_[1]))
                        try:
                            ps = [self.poly(c_) for c_ in comps]
                        finally:
                            self._busy_vars.discard(("tcp", b_[1]))
                        if all(p_ is not None for p_ in ps):
                            if all(p_ == ps[0] for p_ in ps):
                                return ps[0]
                            nm = "phi(%s)" % "|".join(sorted(str(p_) for p_ in ps))
                            vpos_ = b_[2] if len(b_) > 2 else None
                            if vpos_ is not None and getattr(self, "unique_locals", False):
                                nm = "%s@%s.%s.%d" % (nm, vpos_[0], vpos_[1], t[2])
                            self.phis[nm] = ps
                            return Poly.sym(nm)
        if k in ("field", "param", "index", "try", "downcast"):
            return Poly.sym(self.name(t))
        if k == "loopval":
            inner = self.poly(t[2][0]) if t[2] else None
            return Poly.sym(self.loop_sym(t[1], str(inner) if inner is not None else "?"))
        return None

    def match_as_unwrap_or(self, l):
        """`let v = match opt { Some(&a) => a, None => D }` (or `if let .. else`): the local v has exactly two definitions,
        one the payload of `opt` in a block dominated by `opt is Some`, the other a value D in a block dominated by
        `opt is None`, both arms of one test.  Returns the term of `opt.copied().unwrap_or(D)` (same value), else None."""
        cache = self.__dict__.setdefault("_mau", {})
        if l in cache:
            return cache[l]
        cache[l] = None
        tm = self.an.terms
        body = self.an.body
        if tm.defs.partial[l] or len(tm.defs.whole[l]) != 2:
            return None
        ds = tm.defs.whole[l]
        vals = []
        for d in ds:
            try:
                vals.append(self._def_term(d))
            except Exception:
                return None
        for i in (0, 1):
            pay, other = vals[i], vals[1 - i]
            x = pay
            deref = False
            while x[0] in ("ref", "deref"):
                deref = deref or x[0] == "deref"
                x = x[1]
            if not (x[0] == "field" and x[2] == 0):
                continue
            dc = x[1]
            while dc[0] in ("ref", "deref"):
                dc = dc[1]
            if not (dc[0] == "downcast" and dc[2] == "Some"):
                continue
            opt = dc[1]
            # the two definitions sit behind the two outcomes of one test on `opt`
            tests = []
            for d in (ds[i], ds[1 - i]):
                found = None
                for (s_, t_) in self.an.dominating_edges(d[0]):
                    try:
                        dd, rel, vs = self.an.edge_atom(s_, t_)
                    except Exception:
                        continue
                    q = strip(dd)
                    if q[0] == "discr" and strip(q[1]) == strip(opt):
                        vs_ = sorted(vs)
                        some = (rel == "in" and vs_ == [1]) or (rel == "notin" and vs_ == [0])
                        none = (rel == "in" and vs_ == [0]) or (rel == "notin" and vs_ == [1])
                        found = (s_, "some" if some else "none" if none else None)
                tests.append(found)
            if None in tests or tests[0][0] != tests[1][0] or tests[0][1] != "some" or tests[1][1] != "none":
                continue
            from .terms import walk as _walk
            if any(z[0] in ("var", "loopval") for z in _walk(other)):
                continue
            oty = self.type_of(opt)
            is_ref_payload = bool(oty and oty.get("a") and oty["a"][0].get("k") == "ref")
            inner = ("call", "std::option::Option::<&T>::copied", (opt,), tests[0][0]) if (deref or is_ref_payload) else opt
            cache[l] = ("call", "std::option::Option::<T>::unwrap_or", (inner, other), tests[0][0])
            return cache[l]
        return None

    def tuple_component(self, t):
        """`v.k` where the multi-definition local v holds, on the current path, a tuple/struct literal
        (`let (a, b) = match x { .. => (e1, e2), .. }`): the component term, else None"""
        b = strip(t[1])
        b = self.norm_try(b)
        if b[0] == "aggr" and b[1] == "tuple" and isinstance(t[2], int) and t[2] < len(b[2]):
            return b[2][t[2]]                 # `(e1, e2).k` (the Ok payload of an expanded helper)
        if b[0] != "var" or self.path_blocks is None or ("tc", b[1]) in self._busy_vars:
            return None
        try:
            ds = self.var_defs(b[1], b[2] if len(b) > 2 else None)
        except Exception:
            ds = None
        if not ds or len(ds) != 1:
            return None
        d = strip(ds[0])
        if d[0] == "aggr" and (d[1] == "tuple" or d[1].startswith("adt:")) and isinstance(t[2], int) and t[2] < len(d[2]) \
                and not d[1].endswith(("::Some", "::Ok", "::Err")):
            return d[2][t[2]]
        return None

    def fold_sum_poly(self, l, pf):
        """symbol of an accumulation loop's result, with the count x element-range bound when both are known"""
        nm = pf[3]
        n, v2 = pf[4]
        if nm not in self.sym_box and n is not None and n.is_const():
            v = strip(v2)
            while v[0] == "call" and len(v[2]) == 1 and (short(v[1]) in ("From::from", "Into::into") or "impl std::convert::From<" in v[1]):
                v = strip(v[2][0])
            if v == ("carg", 0):
                # element type: the type of the `next()` payload
                ety = None
                for bb, t_ in self.an.body.calls():
                    if bb in pf[2] and short(cname(t_)) == "Iterator::next":
                        d_ = t_.get("dest")
                        if d_ is not None and not d_["pr"]:
                            oty = self.an.body.locals[d_["l"]]["ty"]
                            if oty.get("k") == "adt" and oty.get("a"):
                                ety = oty["a"][0]
                while ety is not None and ety.get("k") == "ref":
                    ety = ety["t"]
                rng = self.int_range(ety) if ety is not None else (None, None)
                if rng[0] is not None:
                    k_ = int(n.const_value())
                    self.sym_box[nm] = (k_ * rng[0], k_ * rng[1])
                    if not hasattr(self, "sum_ranges"):
                        self.sum_ranges = {}
                    self.sum_ranges[nm] = (k_ * rng[0], k_ * rng[1])
        return Poly.sym(nm)

    def var_defs(self, l, pos=None):
        out = []
        tm = self.an.terms
        if tm.defs.partial[l]:
            return None
        defs = tm.defs.whole[l]
        if self.path_blocks is not None and pos is not None and pos[0] in self.path_blocks:
            # position-aware resolution: the definition that reaches the read at `pos` along this path
            order = self.path_order

            def key(d):
                return (order.get(d[0], -1), d[1] if d[1] != "t" else 1 << 30)
            rk = (order[pos[0]], pos[1] if pos[1] != "t" else (1 << 30) + 1)
            before = sorted([d for d in defs if d[0] in self.path_blocks and key(d) < rk], key=key)
            # loop headers crossed before the read: a definition inside such a loop that is NOT on the path before
            # the read may have executed in an earlier iteration
            hdr = -1
            for d in defs:
                if d[0] in self.path_blocks and key(d) < rk:
                    continue
                for h in self.loops_containing(d[0]):
                    if h in self.path_blocks and order[h] <= rk[0]:
                        hdr = max(hdr, order[h])
            if hdr >= 0:
                later = [d for d in before if order[d[0]] > hdr or (order[d[0]] == hdr and False)]
                if later:
                    defs = [later[-1]]
                else:
                    init = [d for d in before if order[d[0]] <= hdr]
                    return [("loopval", l, tuple(self._def_term(d) for d in init[-1:]))]
            elif before:
                defs = [before[-1]]
            else:
                return None
        elif self.path_blocks is not None:
            order = self.path_order
            on = [d for d in defs if d[0] in self.path_blocks]
            # definitions inside a loop whose header the path crosses (the path itself skips the
            # loop body): after that header the local holds a loop-carried value
            loop_hdr_pos = -1
            for d in defs:
                if d[0] in self.path_blocks:
                    continue
                for h in self.loops_containing(d[0]):
                    if h in self.path_blocks:
                        loop_hdr_pos = max(loop_hdr_pos, order[h])
            if loop_hdr_pos >= 0:
                later = [d for d in on if order[d[0]] > loop_hdr_pos]
                if not later:
                    init = [d for d in on if order[d[0]] <= loop_hdr_pos]
                    init.sort(key=lambda d: (order.get(d[0], -1), d[1] if d[1] != "t" else 1 << 30))
                    return [("loopval", l, tuple(self._def_term(d) for d in init[-1:]))]
                on = later
            if on:
                # the definition that reaches the end of the path: the last one in path order
                on.sort(key=lambda d: (order.get(d[0], -1), d[1] if d[1] != "t" else 1 << 30))
                defs = [on[-1]]
        for d in defs:
            out.append(self._def_term(d))
        return out

    def reaching(self, l, pos):
        """Reaching definitions of local l at the read position pos = (block, stmt|"t"), over the CFG with back edges
        cut: a set of definition triples and/or the marker "HEADER" (= the value the local has on entry to the
        innermost loop around pos that redefines it: its loop-carried value in the current iteration)."""
        key = (l, pos)
        if not hasattr(self, "_reach"):
            self._reach = {}
        if key in self._reach:
            return self._reach[key]
        body = self.an.body
        tm = self.an.terms
        defs = tm.defs.whole[l]
        by_block = {}
        for d in defs:
            by_block.setdefault(d[0], []).append(d)

        def skey(si):
            return si if si != "t" else 1 << 30
        for b_ in by_block:
            by_block[b_].sort(key=lambda d: skey(d[1]))
        # innermost loop around pos containing a definition of l
        start, region = 0, None
        best = None
        self.loops_containing(pos[0])      # makes sure self._loops exists
        for h, blocks in self._loops:
            if pos[0] in blocks and any(d[0] in blocks for d in defs):
                if best is None or len(blocks) < len(best[1]):
                    best = (h, blocks)
        back = set(body.back_edges())
        if best is not None:
            start, region = best
        # forward dataflow in reverse post order over the acyclic graph
        order = [b_ for b_ in body.rpo() if region is None or b_ in region]
        IN, OUT = {}, {}
        for b_ in order:
            if b_ == start:
                cur = {"HEADER"} if region is not None else set()
            else:
                cur = set()
                for p_ in body.preds(b_):
                    if (p_, b_) in back or (region is not None and p_ not in region):
                        continue
                    cur |= OUT.get(p_, set())
            IN[b_] = cur
            ds = by_block.get(b_)
            OUT[b_] = {(ds[-1][0], ds[-1][1])} if ds else cur
        cur = set(IN.get(pos[0], set()))
        for d in by_block.get(pos[0], []):
            if skey(d[1]) < skey(pos[1]):
                cur = {(d[0], d[1])}
        self._reach[key] = cur
        return cur

    def def_at(self, l, k):
        for d in self.an.terms.defs.whole[l]:
            if (d[0], d[1]) == k:
                return d
        return None

    def _def_term(self, d):
        tm = self.an.terms
        bi, si, x = d
        saved = tm._pos
        tm._pos = (bi, si)
        try:
            return tm.call_term(x, bi) if si == "t" else tm.rvalue(x)
        finally:
            tm._pos = saved

    def loops_containing(self, bb):
        if not hasattr(self, "_loops"):
            self._loops = []
            body = self.an.body
            for (tail, head) in body.back_edges():
                self._loops.append((head, body.natural_loop(tail, head)))
        return [h for h, blocks in self._loops if bb in blocks]

    def set_path(self, blocks):
        """make multi-definition locals resolve to the definition on this path (None = flow-insensitive)"""
        self._poly = {}
        if blocks is None:
            self.path_blocks = None
            self.path_order = {}
        else:
            self.path_blocks = set(blocks)
            self.path_order = {b: i for i, b in enumerate(blocks)}

    def seq_len(self, t):
        """length polynomial of a Vec / slice built from the input by collect(map(chunks_exact(region,k)))
        / to_vec(region) ..."""
        t = strip(t)
        if t[0] == "call":
            s = short(t[1])
            if s in ("Iterator::collect",) and len(t[2]) == 1:
                return self.iter_len(t[2][0])
            if s in ("<impl [T]>::to_vec", "<impl [T]>::to_owned", "ToOwned::to_owned"):
                r = self.ev.region(t[2][0])
                if r is not None:
                    ln = r.length if r.length is not None else (r.end()[0] - r.start[0], r.end()[1] - r.start[1])
                    return self.lin_poly(ln)
            if s in ("Deref::deref", "Vec::<T, A>::as_slice", "AsRef::as_ref"):
                return self.seq_len(t[2][0])
            if s in ("Index::index", "IndexMut::index_mut") and len(t[2]) == 2:
                rng = strip(t[2][1])
                if rng[0] == "aggr" and rng[1].startswith("adt:std::ops::Range"):
                    ops = [self.poly(o) for o in rng[2]]
                    kind = rng[1].split("::")[-1]
                    if all(o is not None for o in ops):
                        if kind == "Range":
                            return ops[1] - ops[0]
                        if kind == "RangeTo":
                            return ops[0]
                        base = self.seq_len(t[2][0])
                        if kind == "RangeFull":
                            return base
                        if kind == "RangeFrom" and base is not None:
                            return base - ops[0]
        r = self.ev.region(t)
        if r is not None:
            ln = r.length if r.length is not None else (r.end()[0] - r.start[0], r.end()[1] - r.start[1])
            return self.lin_poly(ln)
        tc_ = t
        while tc_[0] == "cast" and "Unsize" in str(tc_[1]):
            tc_ = strip(tc_[2])
        if tc_[0] in ("cdef", "static"):
            # a named constant array: its declared length
            ty_ = self.type_of(tc_)
            if ty_ is not None and ty_.get("k") == "array" and ty_.get("n") is not None:
                return Poly.const(ty_["n"])
        if t[0] == "field" and t[2] == 0 and unmut(t[1])[0] == "downcast" and unmut(t[1])[2] == "Some":
            # an element yielded by `chunks_exact(n)` has exactly n elements
            nx = unmut(unmut(t[1])[1])
            if nx[0] == "call" and short(nx[1]) == "Iterator::next" and len(nx[2]) == 1:
                n_ = chunk_len(self, nx[2][0])
                if n_ is not None:
                    return Poly.const(n_)
            # .. also when the element is singled out by `find(P)` / `last()` / `nth(k)` instead of `next()`
            if nx[0] == "call" and short(nx[1]) in ("Iterator::find", "Iterator::last", "Iterator::nth", "Iterator::max_by_key", "Iterator::min_by_key") and len(nx[2]) >= 1:
                n_ = chunk_len(self, nx[2][0])
                if n_ is not None:
                    return Poly.const(n_)
        if t[0] == "field" and t[2] == 1:
            # .. and the same through `enumerate()`: the item is (index, chunk)
            e_ = unmut(t[1])
            if e_[0] == "field" and e_[2] == 0 and unmut(e_[1])[0] == "downcast" and unmut(e_[1])[2] == "Some":
                nx = unmut(unmut(e_[1])[1])
                if nx[0] == "call" and short(nx[1]) == "Iterator::next" and len(nx[2]) == 1:
                    it_ = unmut(nx[2][0])
                    while it_[0] == "call" and short(it_[1]) == "IntoIterator::into_iter" and len(it_[2]) == 1:
                        it_ = unmut(it_[2][0])
                    if it_[0] == "call" and short(it_[1]) == "Iterator::enumerate" and len(it_[2]) == 1:
                        n_ = chunk_len(self, it_[2][0])
                        if n_ is not None:
                            return Poly.const(n_)
        return None

    def lin_poly(self, ln):
        return Poly({("L",): ln[0], (): ln[1]})

    def iter_len(self, t):
        t = unmut(t)
        if t[0] != "call":
            return None
        s = short(t[1])
        if s == "Iterator::map":
            return self.iter_len(t[2][0])
        if s == "<impl [T]>::chunks_exact" and len(t[2]) == 2:
            r = self.ev.region(t[2][0])
            k = self.poly(t[2][1])
            if r is not None and k is not None and k.is_const() and k.const_value() > 0:
                ln = r.length if r.length is not None else (r.end()[0] - r.start[0], r.end()[1] - r.start[1])
                p = self.lin_poly(ln)
                # floor division; exact when the path carries rem(len,k)==0 — callers check via `needs_div`
                self.needs_div = getattr(self, "needs_div", set()) | {(str(p), int(k.const_value()))}
                return p.scale(Fraction(1, int(k.const_value())))
        if s in ("<impl [T]>::iter", "IntoIterator::into_iter"):
            inner = unmut(t[2][0])
            r = self.seq_len(t[2][0])
            if r is not None:
                return r
            if t[2][0][0] == "mut" or (t[2][0][0] in ("ref", "deref") and unmut(t[2][0]) is not None):
                src = t[2][0]
                while src[0] in ("ref", "deref"):
                    src = src[1]
                if src[0] == "mut":
                    nm = "len(%s)" % self.uniq(src[1], self.mut_name(src))
                    self.sym_box.setdefault(nm, (0, (1 << 63) - 1))
                    return Poly.sym(nm)
            return None
        if s in ("Iterator::rev", "Iterator::copied", "Iterator::cloned", "Iterator::enumerate"):
            return self.iter_len(t[2][0])
        return None

    # ------------------------------------------------------------------ names
    def name(self, t):
        t = strip(t)
        t = self.norm_try(t)
        k = t[0]
        if k == "param":
            return "arg%d" % t[1]
        if k == "const":
            if t[2] in ("f64", "f32") and isinstance(t[1], int):
                import struct
                try:
                    return repr(struct.unpack("<d", struct.pack("<Q", t[1]))[0]) if t[2] == "f64" else repr(struct.unpack("<f", struct.pack("<I", t[1]))[0])
                except Exception:
                    return str(t[1])
            return str(t[1])
        if k == "call":
            r = None
            if short(t[1]) == "crc32c::crc32c" or t[1] == "crc32c::crc32c":
                r = self.ev.region(t[2][0])
                if r is not None:
                    return "crc32c(%s)" % self.region_name(r)
            if short(t[1]) in ("Index::index", "IndexMut::index_mut") and len(t[2]) == 2:
                # S[S.iter().position(P).unwrap()] is S.iter().find(P).unwrap(): the first element satisfying P
                ix = strip(t[2][1])
                if ix[0] == "call" and short(ix[1]) in ("Option::<T>::unwrap", "Option::<T>::expect") and ix[2]:
                    ps = unmut(ix[2][0])
                    if ps[0] == "call" and short(ps[1]) == "Iterator::position" and len(ps[2]) == 2:
                        it = unmut(ps[2][0])
                        if it[0] == "call" and short(it[1]) in ("<impl [T]>::iter", "Vec::<T, A>::iter") and self.name(it[2][0]) == self.name(t[2][0]):
                            return "Option::<T>::unwrap(Iterator::find(%s,%s))" % (self.arg_name(ps[2][0]), self.arg_name(ps[2][1]))
            if short(t[1]) in ("Index::index", "IndexMut::index_mut") and len(t[2]) == 2:
                rg_ = strip(t[2][1])
                if rg_[0] == "aggr" and rg_[1].endswith("RangeFull::RangeFull"):
                    return self.name(t[2][0])             # `&v[..]` is the whole of v
                if rg_[0] == "aggr" and rg_[1].startswith("adt:std::ops::Range"):
                    rp_ = self.region_poly(t)
                    if rp_ is not None:
                        return self.rp_name(rp_)          # a sub-range of a region of the input is a region
            if short(t[1]) in ("<impl [T]>::iter", "Vec::<T, A>::iter") and len(t[2]) == 1 and self.tail_from(t[2][0]) is not None:
                return self.iter_source_name(t)
            if short(t[1]) == "Iterator::map" and len(t[2]) == 2 and chunk_len(self, t[2][0]) is not None:
                cl_ = strip(t[2][1])
                ci_ = closure_info(self.prog, self.an, cl_) if cl_[0] == "aggr" else None
                if ci_:
                    rets_ = closure_ret(self.prog, ci_[0])
                    if len(rets_) == 1:
                        r_ = whole_chunk(subst_upvars(rets_[0], ci_[1]), chunk_len(self, t[2][0]))
                        return "Iterator::map(%s,|x| %s)" % (self.arg_name(t[2][0]), closure_pred_name(self, ci_[0], r_))
            if short(t[1]) in ("Result::<T, E>::map", "Option::<T>::map") and len(t[2]) == 2:
                # `r.map(f)` on a path where r is a known Ok(v)/Err(e) (an expanded helper's result): Ok(f(v)) / Err(e)
                in_ = self.name(t[2][0])
                if in_.startswith("Err{") or in_ == "None{}":
                    return in_
                kp_ = self.known_payload(t[2][0])
                if kp_ is not None and self.known_result(t[2][0]) in ("Ok", "Some"):
                    from .terms import apply_closure
                    cl_ = strip(t[2][1])
                    ap_ = apply_closure(self.prog, cl_, (kp_,)) if cl_[0] == "aggr" else None
                    if ap_ is not None:
                        return "%s{%s}" % (self.known_result(t[2][0]), self.arg_name(ap_))
            if short(t[1]) in ("Option::<T>::unwrap", "Option::<T>::expect", "Result::<T, E>::unwrap", "Result::<T, E>::expect") and t[2]:
                kp_ = self.known_payload(t[2][0])
                if kp_ is not None:
                    return self.arg_name(kp_)             # `Some(v).unwrap()` on this path
            if short(t[1]) == "FromResidual::from_residual" and len(t[2]) == 1:
                # the early return of `X?`: the same value as the explicit `Err(e) => return Err(e)` / `None => return None`
                # arm (error conversions by From are transparent in this vocabulary)
                a_ = strip(t[2][0])
                if a_[0] == "field" and a_[2] == 0 and strip(a_[1])[0] == "downcast" and strip(a_[1])[2] == "Break":
                    br = strip(strip(a_[1])[1])
                    if br[0] == "call" and short(br[1]) == "Try::branch" and len(br[2]) == 1:
                        rty = self.an.body.locals[0]["ty"]
                        rp = rty.get("p", "") if rty.get("k") == "adt" else ""
                        if rp.endswith("result::Result"):
                            tr_ = strip(br[2][0])
                            if tr_[0] == "call" and short(tr_[1]) == "Option::<T>::ok_or" and len(tr_[2]) == 2:
                                return "Err{%s}" % self.arg_name(tr_[2][1])
                            return "Err{(%s as Err).0}" % self.name(br[2][0])
                        if rp.endswith("option::Option"):
                            return "None{}"
            if len(t[2]) == 2 and derived_eq(self.prog, t[1]):
                return "%s(%s)" % (self.call_sig(t), ",".join(sorted(self.arg_name(a) for a in t[2])))
            return "%s(%s)" % (self.call_sig(t), ",".join(self.arg_name(a) for a in t[2]))
        if k == "field":
            comp = self.tuple_component(t)
            if comp is not None:
                self._busy_vars.add(("tc", strip(t[1])[1]))
                try:
                    return self.name(comp)
                finally:
                    self._busy_vars.discard(("tc", strip(t[1])[1]))
            if t[2] == 0 and strip(t[1])[0] == "downcast" and strip(t[1])[2] == "Ok":
                return "%s?" % self.name(strip(t[1])[1])        # Ok payload: the value of `X?`
            nb_ = self.name(t[1])
            if nb_.startswith("tuple{") and nb_.endswith("}") and isinstance(t[2], int):
                # a component of a tuple this path has just built (the payload of an expanded helper's `Ok((a, b))`)
                parts, dep_, cur_ = [], 0, ""
                for ch in nb_[6:-1]:
                    if ch in "([{":
                        dep_ += 1
                    elif ch in ")]}":
                        dep_ -= 1
                    if ch == "," and dep_ == 0:
                        parts.append(cur_)
                        cur_ = ""
                    else:
                        cur_ += ch
                parts.append(cur_)
                if t[2] < len(parts):
                    return parts[t[2]]
            return "%s.%d" % (nb_, t[2])
        if k == "try":
            kp_ = self.known_payload(t[1])
            if kp_ is not None:
                return self.arg_name(kp_)
            ty_ = self.type_of(t[1])
            if ty_ is not None and ty_.get("k") == "adt" and ty_.get("p", "").endswith("option::Option"):
                return "(%s as Some).0" % self.name(t[1])      # `opt?` is the payload of `Some`
            return "%s?" % self.name(t[1])
        if k == "downcast":
            return "(%s as %s)" % (self.name(t[1]), t[2])
        if k == "index":
            return "%s[%s]" % (self.name(t[1]), self.arg_name(t[2]))
        if k == "cindex" and len(t) >= 4 and not t[3] and isinstance(t[2], int):
            return "%s[%d]" % (self.name(t[1]), t[2])          # element of a slice pattern `[a, b]`: the same as s[0], s[1]
        if k == "var":
            if self.path_blocks is None and ("mau", t[1]) not in self._busy_vars:
                mu_ = self.match_as_unwrap_or(t[1])
                if mu_ is not None:
                    self._busy_vars.add(("mau", t[1]))
                    try:
                        return self.name(mu_)
                    finally:
                        self._busy_vars.discard(("mau", t[1]))
            if self.path_blocks is not None and ("nvar", t[1]) not in self._busy_vars:
                # on a concrete path a multi-definition local has one reaching definition: name that value
                # (`Some(match x { A => Row{..}, B => Row{..} })` names the row of the path, like `if .. { Some(Row{..}) }`)
                ds = None
                try:
                    # only on a path from the function entry and for locals never assigned inside a loop: then the
                    # last definition on the path is the one every later read sees
                    alld = self.an.terms.defs.whole[t[1]]
                    first_blk = min(self.path_order, key=self.path_order.get) if getattr(self, "path_order", None) else None
                    if first_blk == 0 and not any(self.loops_containing(d[0]) for d in alld) and not self.an.terms.defs.partial[t[1]]:
                        ds = self.var_defs(t[1], t[2] if len(t) > 2 else None)
                except Exception:
                    ds = None
                if ds and len(ds) == 1 and strip(ds[0])[0] not in ("loopval", "var"):
                    self._busy_vars.add(("nvar", t[1]))
                    try:
                        return self.name(ds[0])
                    finally:
                        self._busy_vars.discard(("nvar", t[1]))
            return self.uniq(t[1], "var<%s>" % self.short_ty(self.an.body.locals[t[1]]["ty"]))
        if k == "mut":
            return self.uniq(t[1], self.mut_name(t))
        if k == "lam":
            return "|x| " + closure_pred_name(self, None, t[1])        # a predicate read off a loop body
        if k == "aggr" and t[1].startswith("closure:"):
            ci = closure_info(self.prog, self.an, t)
            if ci:
                cb, cap = ci
                rets = closure_ret(self.prog, cb)
                if len(rets) == 1:
                    return "|x| " + closure_pred_name(self, cb, subst_upvars(rets[0], cap))
            return "closure{%d ret}" % (len(closure_ret(self.prog, ci[0])) if ci else -1)
        if k == "aggr":
            return "%s{%s}" % (t[1].split("::")[-1] if t[1].startswith("adt:") else t[1], ",".join(self.arg_name(a) for a in t[2]))
        if k in ("str",):
            return repr(t[1])
        if k == "mem":
            return "bytes%s" % list(t[1])
        if k == "cdef" or k == "static":
            return t[1]
        if k == "un":
            return "%s(%s)" % (t[1].lower(), self.arg_name(t[2]))
        if k == "bin":
            op_, a_, b_ = t[1], self.arg_name(t[2]), self.arg_name(t[3])
            if op_ in ("Eq", "Ne", "BitAnd", "BitOr", "BitXor", "Add", "Mul") and (strip(t[3])[0] == "const", b_) < (strip(t[2])[0] == "const", a_):
                a_, b_ = b_, a_                       # commutative: one operand order
            elif op_ in ("Gt", "Ge"):
                op_, a_, b_ = {"Gt": "Lt", "Ge": "Le"}[op_], b_, a_
            if op_ in ("Eq", "Ne", "Lt", "Le") and len(t) == 4:
                sg = self.bit_signature(t)
                if sg is not None:
                    return sg
            return "%s(%s,%s)" % (op_, a_, b_)
        if k == "cast":
            return "(%s as %s)" % (self.arg_name(t[2]), t[3])
        r = self.ev.region(t)
        if r is not None:
            return self.region_name(r)
        return show(t)

    def short_ty(self, ty):
        import re
        s_ = pp.ty(ty)
        return re.sub(r"(?:[A-Za-z_][A-Za-z_0-9]*::)+", "", s_)

    def guarded_name(self, t):
        """for a multi-definition local: `{v1 if g1 | v2 if g2}` with the guards that distinguish the definitions"""
        t0 = strip(t)
        if t0[0] != "var":
            return self.arg_name(t)
        tm = self.an.terms
        defs = tm.defs.whole[t0[1]]
        rows = []
        for (bi, si, x) in defs:
            v = tm.call_term(x, bi) if si == "t" else tm.rvalue(x)
            ats = set()
            for (d, rel, vals) in self.an.atoms_at(bi):
                for a in self.atoms(d, rel, vals):
                    ats.add(atom_str(a))
            rows.append((self.arg_name(v), ats))
        if not rows:
            return self.name(t0)
        common = set.intersection(*[r[1] for r in rows]) if rows else set()
        return "{" + " | ".join(sorted("%s if %s" % (v, " and ".join(sorted(a - common)) or "true") for v, a in rows)) + "}"

    def mut_name(self, t):
        """canonical name of a local that is initialised and then mutated through &mut views:
        Vec::new() + pushes -> vec[push <values>]; otherwise mut(<init>)"""
        l, init = t[1], t[2]
        busy = self.__dict__.setdefault("_mut_busy", set())
        if l in busy:
            return "self"          # a value pushed into the vector that mentions the vector itself (v.push(f(v.pop())))
        busy.add(l)
        try:
            return self._mut_name(t)
        finally:
            busy.discard(l)

    def _mut_name(self, t):
        l, init = t[1], t[2]
        init_s = strip(init)
        if init_s[0] == "call" and short(init_s[1]) in ("Vec::<T>::new", "Vec::<T>::with_capacity"):
            pushed = []
            sites = []
            tm = self.an.terms
            for bb, term in self.an.body.calls():
                cs = short(term.get("callee") or "")
                if cs in ("Vec::<T, A>::push", "Vec::<T, A>::extend_from_slice", "Vec::<T, A>::append", "Extend::extend"):
                    a0 = tm.operand(term["args"][0])
                    while a0[0] in ("ref", "deref"):
                        a0 = a0[1]
                    if a0[0] == "mut" and a0[1] == l:
                        pushed.append("%s %s" % (cs.split("::")[-1], self.arg_name(tm.operand(term["args"][1]))))
                        sites.append((bb, term, cs))
            if len(sites) == 1 and sites[0][2] == "Vec::<T, A>::push":
                cm = self.push_loop_as_map(sites[0][0], sites[0][1])
                if cm is not None:
                    return cm
            return "vec[%s]" % "; ".join(sorted(pushed))
        return "mut(%s)" % self.name(init)

    def pure_map_loops(self):
        """{exit-switch block: header} of the loops that are nothing but `for x in IT { v.push(f(x)) }`: one `next`, one
        push (recognised by push_loop_as_map), and the exhaustion edge as the only way out.  Such a loop is the
        expression `IT.map(f).collect()`: its exhaustion is not a guard of the surrounding path."""
        if getattr(self, "_pml", None) is not None:
            return self._pml
        body = self.an.body
        out = {}
        loops = [(tl, hd, body.natural_loop(tl, hd)) for (tl, hd) in body.back_edges()]
        heads = {}
        for tl, hd, lp in loops:
            heads.setdefault(hd, set()).update(lp)
        for hd, lp in heads.items():
            exits = [(s_, t_) for s_ in lp for t_ in body.succ(s_) if t_ not in lp and body.blocks[t_]["t"].get("k") != "unreachable"]
            if len(exits) != 1:
                continue
            calls = [(bb, t) for bb, t in body.calls() if bb in lp]
            nexts = [(bb, t) for bb, t in calls if short(cname(t)) == "Iterator::next"]
            pushes = [(bb, t) for bb, t in calls if short(cname(t)) == "Vec::<T, A>::push"]
            if len(nexts) != 1 or len(pushes) != 1:
                continue
            if any(h2 != hd and h2 in lp for h2 in heads):
                continue                     # nested loops inside
            # the exit must be the None edge of the test on the `next()` result
            try:
                d, rel, vals = self.an.edge_atom(*exits[0])
            except Exception:
                continue
            ds = strip(d)
            if not (ds[0] == "discr" and strip(ds[1])[0] == "call" and short(strip(ds[1])[1]) == "Iterator::next"):
                continue
            try:
                if self.push_loop_as_map(pushes[0][0], pushes[0][1]) is None:
                    continue
            except Exception:
                continue
            out[exits[0][0]] = (hd, frozenset(lp))
        self._pml = out
        return out

    PURE_LOOP_CALLS = ("Iterator::next", "From::from", "Into::into", "Deref::deref", "Clone::clone", "Borrow::borrow", "AsRef::as_ref")

    def pure_fold_loops(self):
        """{accumulator local: (exit-switch block, header, loop blocks, sum name, range)} for the loops that are nothing but
        `let mut acc = 0; for x in IT { acc += g(x) }`: one `next`, the exhaustion edge as the only way out, no call other
        than conversions, every local assigned in the loop other than `acc` is a temporary of the loop, `acc` has the
        constant initial value 0 and one definition `acc + g(x)` executed on every iteration, and is not read between its
        initialisation and the loop.  Such a loop is the expression `IT.map(g).sum()`."""
        if getattr(self, "_pfl", None) is not None:
            return self._pfl
        self._pfl = out = {}
        body = self.an.body
        tm = self.an.terms
        heads = {}
        for (tl, hd) in body.back_edges():
            heads.setdefault(hd, [set(), []])
            heads[hd][0].update(body.natural_loop(tl, hd))
            heads[hd][1].append(tl)
        for hd, (lp, tails) in heads.items():
            exits = [(s_, t_) for s_ in lp for t_ in body.succ(s_) if t_ not in lp and body.blocks[t_]["t"].get("k") != "unreachable"]
            if len(exits) != 1 or any(h2 != hd and h2 in lp for h2 in heads):
                continue
            calls = [(bb, t) for bb, t in body.calls() if bb in lp]
            nexts = [(bb, t) for bb, t in calls if short(cname(t)) == "Iterator::next"]
            if len(nexts) != 1 or any(short(cname(t)) not in self.PURE_LOOP_CALLS and "impl std::convert::From<" not in cname(t) for _, t in calls):
                continue
            try:
                d, rel, vals = self.an.edge_atom(*exits[0])
            except Exception:
                continue
            ds = strip(d)
            if not (ds[0] == "discr" and strip(ds[1])[0] == "call" and short(strip(ds[1])[1]) == "Iterator::next"):
                continue
            # locals assigned in the loop
            assigned = {}
            bad = False
            for l in range(len(body.locals)):
                for (bi, si, x) in tm.defs.partial[l]:
                    if bi in lp:
                        bad = True
                for (bi, si, x) in tm.defs.whole[l]:
                    if bi in lp:
                        assigned.setdefault(l, []).append((bi, si, x))
            if bad:
                continue
            carried = [l for l in assigned if any(bi not in lp for (bi, si, x) in tm.defs.whole[l])]
            if len(carried) != 1:
                continue
            acc = carried[0]
            outside = [d_ for d_ in tm.defs.whole[acc] if d_[0] not in lp]
            inside = assigned[acc]
            if len(outside) != 1 or len(inside) != 1 or not body.dominates(outside[0][0], hd):
                continue
            if not all(body.dominates(inside[0][0], tl) for tl in tails):
                continue
            save = getattr(tm, "_pos", None)
            try:
                init = strip(self._def_term(outside[0]))
                step = strip(self._def_term(inside[0]))
                nbb, nt = nexts[0]
                tm._pos = (nbb, "t")
                ncall = tm.call_term(nt, nbb)
                it = tm.operand(nt["args"][0])
            except Exception:
                continue
            finally:
                tm._pos = save
            if not (init[0] == "const" and init[1] == 0 and not isinstance(init[1], bool)):
                continue
            if not (step[0] == "bin" and step[1] == "Add" and len(step) == 4):
                continue
            a_, b_ = strip(step[2]), step[3]
            if not (a_[0] == "var" and a_[1] == acc):
                a_, b_ = strip(step[3]), step[2]
            if not (a_[0] == "var" and a_[1] == acc):
                continue
            elem = ("field", ("downcast", ncall, "Some"), 0)

            def sub(x):
                if not isinstance(x, tuple) or not x or not isinstance(x[0], str):
                    return x
                if x == elem or strip(x) == elem:
                    return ("carg", 0)
                o_ = [x[0]]
                for y in x[1:]:
                    if isinstance(y, tuple) and y and isinstance(y[0], str):
                        o_.append(sub(y))
                    elif isinstance(y, tuple):
                        o_.append(tuple(sub(z) if isinstance(z, tuple) else z for z in y))
                    else:
                        o_.append(y)
                return tuple(o_)
            v2 = sub(b_)
            from .terms import walk as _walk
            if not any(z == ("carg", 0) for z in _walk(v2)) or any(z[0] in ("var", "loopval", "mut") for z in _walk(v2)):
                continue
            # no read of acc between its initialisation and the loop: every other use is dominated by the exit
            exit_to = exits[0][1]
            reads_ok = True
            for bi in body.reachable():
                if bi in lp or bi == outside[0][0]:
                    continue
                if self._mentions_local(body.blocks[bi], acc) and not body.dominates(exit_to, bi):
                    reads_ok = False
            if not reads_ok:
                continue
            src = it
            while src[0] in ("ref", "deref", "mut"):
                src = src[1] if src[0] != "mut" else src[2]
            while src[0] == "call" and short(src[1]) == "IntoIterator::into_iter" and len(src[2]) == 1:
                src = src[2][0]
                while src[0] in ("ref", "deref"):
                    src = src[1]
            try:
                sty = self.type_of(src)
                src_nm = self.arg_name(src)
                if not (src[0] == "call" and (short(src[1]).startswith("Iterator::") or short(src[1]).endswith("::iter"))):
                    src_nm = "<impl [T]>::iter(%s)" % src_nm          # `for x in &slice` is slice.iter()
                nm = "Iterator::sum(Iterator::map(%s,|x| %s))" % (src_nm, closure_pred_name(self, None, v2))
            except Exception:
                continue
            # value range: count x element range when both are known
            rng = None
            try:
                n = self.seq_len(src)
                ety = body.locals[[l for l in assigned if l != acc][0]]["ty"] if False else None
            except Exception:
                n = None
            out[acc] = (exits[0][0], hd, frozenset(lp), nm, (n, v2))
        return out

    def search_loops(self):
        """{result local: (synthesised term, loop blocks, break block)} for the loops that are nothing but a first-match
        search: `let mut r = D; for (i, x) in S.iter().enumerate() { if P(x) { r = i; break; } }` — one `next` over
        enumerate(iter(S)), the exhaustion edge and one break edge as the only ways out, a single test P in the body, no
        call other than pure comparisons/conversions, nothing assigned in the loop that lives outside it, the break block
        only assigns the index to r, and r is not read between its initialisation and the loop.  After the loop r is
        `S.iter().position(P).unwrap_or(D)`."""
        if getattr(self, "_sl", None) is not None:
            return self._sl
        self._sl = out = {}
        body = self.an.body
        tm = self.an.terms
        heads = {}
        for (tl, hd) in body.back_edges():
            heads.setdefault(hd, [set(), []])
            heads[hd][0].update(body.natural_loop(tl, hd))
            heads[hd][1].append(tl)
        for hd, (lp, tails) in heads.items():
            exits = [(s_, t_) for s_ in lp for t_ in body.succ(s_) if t_ not in lp and body.blocks[t_]["t"].get("k") != "unreachable"]
            if len(exits) != 2 or any(h2 != hd and h2 in lp for h2 in heads):
                continue
            calls = [(bb, t) for bb, t in body.calls() if bb in lp]
            nexts = [(bb, t) for bb, t in calls if short(cname(t)) == "Iterator::next"]
            pure = self.PURE_LOOP_CALLS + ("PartialOrd::gt", "PartialOrd::lt", "PartialOrd::ge", "PartialOrd::le", "PartialEq::eq", "PartialEq::ne")
            if len(nexts) != 1 or any(short(cname(t)) not in pure and "impl std::convert::From<" not in cname(t) for _, t in calls):
                continue
            exh = brk = None
            for e in exits:
                try:
                    d, rel, vals = self.an.edge_atom(*e)
                except Exception:
                    d = None
                ds = strip(d) if d is not None else ("?",)
                if ds[0] == "discr" and strip(ds[1])[0] == "call" and short(strip(ds[1])[1]) == "Iterator::next":
                    exh = e
                else:
                    brk = e
            if exh is None or brk is None:
                continue
            switches = [b_ for b_ in lp if body.blocks[b_]["t"]["k"] == "switch"]
            if sorted(switches) != sorted({exh[0], brk[0]}):
                continue
            # nothing assigned in the loop lives outside it
            bad = False
            for l in range(len(body.locals)):
                ins = [d_ for d_ in tm.defs.whole[l] if d_[0] in lp]
                if any(d_[0] in lp for d_ in tm.defs.partial[l]):
                    bad = True
                if ins and any(d_[0] not in lp for d_ in tm.defs.whole[l]):
                    bad = True
            if bad:
                continue
            B = brk[1]
            blkB = body.blocks[B]
            if blkB["t"]["k"] != "goto" or body.preds(B) != [brk[0]] and list(body.preds(B)) != [brk[0]]:
                continue
            # the break block: copies of temporaries, one assignment to a local that has its other definition before the loop
            cands = []
            for si, st in enumerate(blkB["s"]):
                if st["k"] != "assign" or st["p"]["pr"]:
                    bad = True
                    break
                l = st["p"]["l"]
                others = [d_ for d_ in tm.defs.whole[l] if d_[0] != B]
                if others:
                    if body.locals[l]["ty"].get("k") == "tuple" and not body.locals[l]["ty"].get("ts"):
                        continue                   # the unit value of the block expression
                    cands.append((l, si, st, others))
            if bad or len(cands) != 1:
                continue
            r, rsi, rst, others = cands[0]
            if len(others) != 1 or others[0][0] in lp or not body.dominates(others[0][0], hd):
                continue
            save = getattr(tm, "_pos", None)
            try:
                nbb, nt = nexts[0]
                tm._pos = (nbb, "t")
                ncall = tm.call_term(nt, nbb)
                it = tm.operand(nt["args"][0])
                tm._pos = (B, rsi)
                rval = strip(tm.rvalue(rst["rv"]))
                tm._pos = (brk[0], "t")
                cond = tm.operand(body.blocks[brk[0]]["t"]["d"])
                dflt = self._def_term(others[0])
                d_, rel_, vals_ = self.an.edge_atom(*brk)
            except Exception:
                continue
            finally:
                tm._pos = save
            tr = truth_of(rel_, vals_)
            if tr is None:
                continue
            if not tr:
                cond = ("un", "Not", cond)
            elem = ("field", ("downcast", ncall, "Some"), 0)
            if rval != ("field", elem, 0):
                continue
            src = it
            while src[0] in ("ref", "deref", "mut"):
                src = src[1] if src[0] != "mut" else src[2]
            while src[0] == "call" and short(src[1]) == "IntoIterator::into_iter" and len(src[2]) == 1:
                src = src[2][0]
            if not (src[0] == "call" and short(src[1]) == "Iterator::enumerate" and len(src[2]) == 1):
                continue
            inner = src[2][0]
            while inner[0] in ("ref", "deref"):
                inner = inner[1]
            if not (inner[0] == "call" and short(inner[1]) in ("<impl [T]>::iter", "Vec::<T, A>::iter") and len(inner[2]) == 1):
                continue
            x_ = ("field", elem, 1)

            def sub(x):
                if not isinstance(x, tuple) or not x or not isinstance(x[0], str):
                    return x
                if x == x_:
                    return ("carg", 0)
                o_ = [x[0]]
                for y in x[1:]:
                    if isinstance(y, tuple) and y and isinstance(y[0], str):
                        o_.append(sub(y))
                    elif isinstance(y, tuple):
                        o_.append(tuple(sub(z) if isinstance(z, tuple) else z for z in y))
                    else:
                        o_.append(y)
                return tuple(o_)
            pred = sub(cond)
            from .terms import walk as _walk
            if not any(z == ("carg", 0) for z in _walk(pred)):
                continue
            if any(z[0] in ("var", "loopval", "mut") or z == elem for z in _walk(pred)):
                continue
            # r is not read between its initialisation and the loop's exits
            reads_ok = True
            for bi in body.reachable():
                if bi in lp or bi in (others[0][0], B):
                    continue
                if self._mentions_local(body.blocks[bi], r) and body.can_reach(0, bi, avoid=[exh[1], B]):
                    reads_ok = False
            if not reads_ok or any(self._mentions_local(body.blocks[bi], r) for bi in lp):
                continue
            site = nbb
            term = ("call", "std::option::Option::<T>::unwrap_or",
                    (("call", "std::iter::Iterator::position",
                      (("mut", -1, ("call", "core::slice::<impl [T]>::iter", (inner[2][0],), site)), ("lam", pred)), site), dflt), site)
            out[r] = (term, frozenset(lp), B)
        return out

    def _mentions_local(self, blk, l):
        def walk_json(x):
            if isinstance(x, dict):
                if x.get("l") == l and "pr" in x:
                    return True
                return any(walk_json(v) for v in x.values())
            if isinstance(x, list):
                return any(walk_json(v) for v in x)
            return False
        return walk_json(blk)

    def emptiness_rel(self, x, tr):
        """`W.iter().skip(D).map(f).collect::<Vec<_>>().is_empty()` is `len(W) <= D` (the adapters in between keep the
        number of elements): the same atom as the guard `if W.len() <= D` written before building the vector"""
        x = strip(x)
        seen_skip = None
        for _ in range(8):
            while x[0] in ("ref", "deref", "mut"):
                x = x[1] if x[0] != "mut" else x[2]
            if x[0] == "call" and short(x[1]) in ("Iterator::collect", "Iterator::map", "Iterator::copied", "Iterator::cloned", "IntoIterator::into_iter",
                                                   "Iterator::enumerate", "Iterator::rev") and x[2]:
                x = x[2][0]
                continue
            if x[0] == "call" and short(x[1]) == "Iterator::skip" and len(x[2]) == 2 and seen_skip is None:
                seen_skip = x[2][1]
                x = x[2][0]
                continue
            break
        w = d_ = None
        if seen_skip is not None and x[0] == "call" and short(x[1]) in ("<impl [T]>::iter", "Vec::<T, A>::iter") and len(x[2]) == 1:
            w, d_ = x[2][0], seen_skip
        elif seen_skip is None:
            if x[0] == "call" and short(x[1]) in ("<impl [T]>::iter", "Vec::<T, A>::iter") and len(x[2]) == 1:
                x = x[2][0]
            tf = self.tail_from(x)
            if tf is not None:
                w, d_ = tf
        if w is None:
            return None
        pd = self.poly(d_)
        if pd is None:
            return None
        ln = Poly.sym("len(%s)" % self.arg_name(w))
        self.sym_box.setdefault("len(%s)" % self.arg_name(w), (0, (1 << 63) - 1))
        return [rel_atom(pd - ln, ">=")] if tr else [rel_atom(ln - pd - Poly.const(1), ">=")]

    def tail_from(self, x):
        """(W, D) when x is the tail of a slice from index D on: `W.get(D..).unwrap_or(&[])` (empty when D > len) or
        `&W[D..]` (same elements; the range check of the latter is a panic obligation, not part of the value)"""
        x = strip(x)
        while x[0] == "cast" and "Unsize" in str(x[1]):
            x = strip(x[2])
        if x[0] == "call" and short(x[1]) == "Option::<T>::unwrap_or" and len(x[2]) == 2:
            g, dflt = strip(x[2][0]), strip(x[2][1])
            while dflt[0] == "cast" and "Unsize" in str(dflt[1]):
                dflt = strip(dflt[2])
            empty = (dflt[0] in ("mem", "bytes") and len(dflt[1]) == 0) or (dflt[0] == "aggr" and dflt[1] == "array" and not dflt[2])
            if empty and g[0] == "call" and short(g[1]) == "<impl [T]>::get" and len(g[2]) == 2:
                r = strip(g[2][1])
                if r[0] == "aggr" and r[1].endswith("RangeFrom::RangeFrom") and len(r[2]) == 1:
                    return g[2][0], r[2][0]
        if x[0] == "call" and short(x[1]) == "Index::index" and len(x[2]) == 2:
            r = strip(x[2][1])
            if r[0] == "aggr" and r[1].endswith("RangeFrom::RangeFrom") and len(r[2]) == 1 and self.ev.region(x) is None and self.region_poly(x) is None:
                return x[2][0], r[2][0]
        return None

    def iter_source_name(self, src):
        """canonical name of what a loop / adapter chain iterates: an iterator expression as it is, a slice or Vec as
        `<impl [T]>::iter(s)`, the tail of a slice from D on as `Iterator::skip(<impl [T]>::iter(W),D)`"""
        x = src
        while x[0] in ("ref", "deref", "mut"):
            x = x[1] if x[0] != "mut" else x[2]
        while x[0] == "call" and short(x[1]) == "IntoIterator::into_iter" and len(x[2]) == 1:
            x = x[2][0]
            while x[0] in ("ref", "deref"):
                x = x[1]
        inner = x
        if inner[0] == "call" and short(inner[1]) in ("<impl [T]>::iter", "Vec::<T, A>::iter") and len(inner[2]) == 1:
            inner = inner[2][0]
            is_iter = False
        else:
            is_iter = inner[0] == "call" and (short(inner[1]).startswith("Iterator::") or short(inner[1]).endswith(("::chunks_exact", "::windows", "::chunks")))
        if not is_iter:
            tf = self.tail_from(inner)
            if tf is not None:
                return "Iterator::skip(<impl [T]>::iter(%s),%s)" % (self.arg_name(tf[0]), self.arg_name(tf[1]))
            if x is not inner:
                return "<impl [T]>::iter(%s)" % self.arg_name(inner)
            ty = self.type_of(inner)
            if ty is not None and (ty.get("k") in ("slice", "array") or (ty.get("k") == "adt" and ty.get("p", "").endswith("::Vec"))):
                return "<impl [T]>::iter(%s)" % self.arg_name(inner)
        return self.arg_name(x)

    def push_loop_as_map(self, pbb, pterm):
        """`let mut v = Vec::new(); for x in IT { v.push(f(x)) }` (one push, on every iteration of a loop over IT, the
        pushed value a function of the loop's element) is `IT.map(|x| f(x)).collect()`: the same canonical name"""
        body = self.an.body
        loops = [(tl, hd, body.natural_loop(tl, hd)) for (tl, hd) in body.back_edges()]
        inl = [x for x in loops if pbb in x[2]]
        if not inl:
            return None
        tl, hd, lp = min(inl, key=lambda x: len(x[2]))
        if not body.dominates(pbb, tl):
            return None                      # a conditional push is a filter, not a map
        nexts = [(bb, t) for bb, t in body.calls() if bb in lp and short(cname(t)) == "Iterator::next"
                 and min([x for x in loops if bb in x[2]], key=lambda x: len(x[2]))[1] == hd]
        if len(nexts) != 1:
            return None
        nbb, nt = nexts[0]
        tm = self.an.terms
        save = getattr(tm, "_pos", None)
        try:
            tm._pos = (nbb, "t")
            ncall = tm.call_term(nt, nbb)
            it = tm.operand(nt["args"][0])
            tm._pos = (pbb, "t")
            val = tm.operand(pterm["args"][1])
        finally:
            tm._pos = save
        elem = ("field", ("downcast", ncall, "Some"), 0)

        def sub(x):
            if not isinstance(x, tuple) or not x or not isinstance(x[0], str):
                return x
            if strip(x) == elem or x == elem:
                return ("carg", 0)
            out = [x[0]]
            for y in x[1:]:
                if isinstance(y, tuple) and y and isinstance(y[0], str):
                    out.append(sub(y))
                elif isinstance(y, tuple):
                    out.append(tuple(sub(z) if isinstance(z, tuple) else z for z in y))
                else:
                    out.append(y)
            return tuple(out)
        v2 = sub(val)
        from .terms import walk as _walk
        if not any(z == ("carg", 0) for z in _walk(v2)):
            return None
        # nothing else of the loop may feed the value (a running index, an accumulator)
        if any(z[0] in ("var", "loopval") for z in _walk(v2)):
            return None
        src = unmut(it)
        while src[0] == "call" and short(src[1]) == "IntoIterator::into_iter" and len(src[2]) == 1:
            src = unmut(src[2][0])
        try:
            return "Iterator::collect(Iterator::map(%s,|x| %s))" % (self.iter_source_name(it), closure_pred_name(self, None, whole_chunk(v2, chunk_len(self, src))))
        except Exception:
            return None

    def arg_name(self, a):
        a0_ = strip(a)
        if a0_[0] == "call" and short(a0_[1]) in ("Result::<T, E>::unwrap", "Result::<T, E>::expect") and a0_[2]:
            in_ = strip(a0_[2][0])
            if in_[0] == "call" and short(in_[1]) in ("TryInto::try_into", "TryFrom::try_from") and len(in_[2]) == 1 and self.ev.region(in_[2][0]) is not None:
                a = in_[2][0]                 # the array copy of a region of the input names the region
        r = self.ev.region(a)
        if r is not None:
            return self.region_name(r)
        rp = self.region_poly(a)
        if rp is not None:
            return self.rp_name(rp)
        arr = self.ev.byte_array(a)
        if arr is not None:
            v = BV([b for byte in arr for b in byte])
            cv = v.const_value()
            if cv is not None:
                return "bytes[%s]" % ",".join(str((cv >> (8 * i)) & 255) for i in range(len(arr)))
            nm = self.bv_name(v)
            if nm:
                return "bytes(%s)" % nm
        p = self.poly(a)
        if p is not None:
            return str(p)
        return self.name(a)

    def call_sig(self, t):
        """callee name, with the target type for conversion traits"""
        s = short(t[1])
        if s in ("TryInto::try_into", "TryFrom::try_from", "Into::into", "From::from") and t[1] not in self.prog.bodies and self.site_block(t[3]) is not None:
            blk = self.an.body.blocks[t[3]]["t"]
            r = blk.get("resolved") or ""
            if r in self.prog.bodies:
                return r
            ga = blk.get("gargs") or []
            if s == "TryInto::try_into" and len(ga) == 2:
                cand = "<%s as std::convert::TryFrom<%s>>::try_from" % (pp.ty(ga[1]), pp.ty(ga[0]))
                if cand in self.prog.bodies:
                    return cand
            if s == "Into::into" and len(ga) == 2:
                cand = "<%s as std::convert::From<%s>>::from" % (pp.ty(ga[1]), pp.ty(ga[0]))
                if cand in self.prog.bodies:
                    return cand
            dest_ty = None
            d = blk["dest"]
            if not d["pr"]:
                dest_ty = pp.ty(self.an.body.locals[d["l"]]["ty"])
            return "%s->%s" % (s, dest_ty)
        if "uom::si::" in t[1] and t[1] not in self.prog.bodies:
            return "uom::" + split_path(t[1])[-1]
        return t[1] if t[1] in self.prog.bodies else s

    # ------------------------------------------------------------------ atoms
    def is_drop_flag(self, d):
        d = strip(d)
        if d[0] != "var":
            return False
        defs = self.var_defs(d[1])
        return bool(defs) and all(x[0] == "const" and isinstance(x[1], bool) for x in defs)

    def atoms_of_edge(self, s, t):
        pml = self.pure_map_loops()
        if s in pml and t not in pml[s][1]:
            return []                       # exhaustion of a map/collect written as a push loop
        for (xs_, hd_, lp_, nm_, _) in self.pure_fold_loops().values():
            if s == xs_ and t not in lp_:
                return []                   # exhaustion of a map/sum written as an accumulation loop
        d, rel, vals = self.an.edge_atom(s, t)
        dty = self.an.body.blocks[s]["t"].get("dty", {})
        return self.atoms(d, rel, vals, is_bool=(dty.get("k") == "bool"))

    def atoms(self, d, rel, vals, is_bool=True):
        """list of canonical atoms for `d rel vals`"""
        if self.is_drop_flag(d):
            # a boolean local assigned only constants (drop flags, `matches!` results).  On a concrete path its value
            # is the constant assigned on that path: the edge is either trivially taken or infeasible.
            if self.path_blocks is not None and is_bool:
                defs = self.var_defs(strip(d)[1])
                tr0 = truth_of(rel, vals)
                if len(defs) == 1 and defs[0][0] == "const" and isinstance(defs[0][1], bool) and tr0 is not None:
                    return [] if defs[0][1] == tr0 else [("false",)]
            return []
        ds = strip(d)
        # discriminant tests
        if ds[0] == "discr":
            inner = strip(ds[1])
            vs = sorted(vals)
            if inner[0] == "call" and short(inner[1]) == "Try::branch":
                x = strip(inner[2][0])
                cont = (rel == "in" and vs == [0]) or (rel == "notin" and vs == [1])
                brk = (rel == "in" and vs == [1]) or (rel == "notin" and vs == [0])
                ka = self.known_result(x)
                if ka is not None and (cont or brk):
                    # `?` on a value this path has just built (an expanded helper's `Ok(v)` / `Err(e)`): decided
                    good = ka in ("Ok", "Some")
                    return [] if good == cont else [("false",)]
                if cont and x[0] == "call" and not getattr(self, "unique_locals", False):
                    # `helper(args)?` continues iff every `?` inside the private helper continues
                    from .terms import try_helper_summary, subst_params
                    out_, todo, n_ = [], [x], 0
                    while todo and n_ < 32:
                        y = strip(todo.pop(0))
                        n_ += 1
                        summ = try_helper_summary(self.prog, y[1]) if y[0] == "call" else None
                        if summ is None:
                            y0_ = strip(y)
                            if y0_[0] == "call" and short(y0_[1]) in ("Option::<T>::ok_or", "Option::<T>::ok_or_else") and len(y0_[2]) == 2:
                                # `opt.ok_or(e)?` continues exactly when opt is Some
                                out_.append(("some", self.name(y0_[2][0]), y0_[2][0]))
                                continue
                            yty_ = self.type_of(y)
                            if yty_ is not None and yty_.get("k") == "adt" and yty_.get("p", "").endswith("option::Option"):
                                out_.append(("some", self.name(y), y))
                                continue
                            out_.append(("ok", self.name(y), y))
                        else:
                            todo = [subst_params(z, y[2]) for z in summ[1]] + todo
                    return out_
                if cont or brk:
                    x0_ = strip(x)
                    if x0_[0] == "call" and short(x0_[1]) in ("Option::<T>::ok_or", "Option::<T>::ok_or_else") and len(x0_[2]) == 2:
                        return [("some" if cont else "none", self.name(x0_[2][0]), x0_[2][0])]
                    xty_ = self.type_of(x)
                    if xty_ is not None and xty_.get("k") == "adt" and xty_.get("p", "").endswith("option::Option"):
                        return [("some" if cont else "none", self.name(x), x)]      # `opt?`
                    return [("ok" if cont else "err", self.name(x), x)]
            tyname = self.enum_of(ds[1])
            # `opt.map(f)` / `res.map(f)` has the variant of its receiver
            while inner[0] == "call" and short(inner[1]) in ("Option::<T>::map", "Result::<T, E>::map") and len(inner[2]) == 2:
                inner = strip(inner[2][0])
            kr_ = self.known_result(inner) if inner[0] == "var" and self.fresh_result_var(inner[1]) else None
            if kr_ in ("Some", "None") and tyname and tyname.endswith("option::Option"):
                # a value this path has just built (an expanded helper's `Some(v)` / `None`): the test is decided
                some = (rel == "in" and vs == [1]) or (rel == "notin" and vs == [0])
                none = (rel == "in" and vs == [0]) or (rel == "notin" and vs == [1])
                if some or none:
                    return [] if (kr_ == "Some") == some else [("false",)]
            if kr_ in ("Ok", "Err") and tyname and tyname.endswith("result::Result"):
                ok = (rel == "in" and vs == [0]) or (rel == "notin" and vs == [1])
                er = (rel == "in" and vs == [1]) or (rel == "notin" and vs == [0])
                if ok or er:
                    return [] if (kr_ == "Ok") == ok else [("false",)]
            if tyname and (tyname.startswith("std::option::Option") or tyname.startswith("core::option::Option")):
                some = (rel == "in" and vs == [1]) or (rel == "notin" and vs == [0])
                none = (rel == "in" and vs == [0]) or (rel == "notin" and vs == [1])
                if (some or none) and inner[0] == "call" and short(inner[1]) in ("<impl [T]>::first", "<impl [T]>::last") and len(inner[2]) == 1:
                    # `s.first()` / `s.last()` is Some exactly when s is not empty
                    return [("pred", "is_empty(%s)" % self.arg_name(inner[2][0]), bool(none))]
                if some or none:
                    return [("some" if some else "none", self.name(inner), inner)]
            if tyname and (tyname.startswith("std::result::Result") or tyname.startswith("core::result::Result")):
                ok = (rel == "in" and vs == [0]) or (rel == "notin" and vs == [1])
                er = (rel == "in" and vs == [1]) or (rel == "notin" and vs == [0])
                if ok or er:
                    return [("ok" if ok else "err", self.name(inner), inner)]
            a_ = self.prog.adts.get(tyname) if tyname else None
            if rel == "notin" and a_ and a_.get("kind") == "enum" and len(a_["variants"]) <= 3:
                # small enums: name the variants that remain (`_ =>` after `A =>` is `B =>` for a two-variant enum)
                alln = []
                for i, var in enumerate(a_["variants"]):
                    alln.append(int(var["discr"]) if var["discr"] is not None else i)
                rest_ = [v for v in alln if v not in vs]
                if rest_:
                    return [("variant", self.name(inner), "in", tuple(self.variant_names(tyname, rest_)))]
            return [("variant", self.name(inner), rel, tuple(self.variant_names(tyname, vs)))]
        tr = truth_of(rel, vals) if is_bool else None
        if tr is None and len(vals) == 1 and ds[0] == "bin" and ds[1] in ("BitAnd", "BitOr", "BitXor", "Shr", "Shl"):
            # `match x & m { 0 => .., _ => .. }`: the same test as `(x & m) == 0` / `!= 0` (bit-level atoms)
            v0 = next(iter(vals))
            if isinstance(v0, int) and not isinstance(v0, bool):
                bv_ = self.ev.bv(ds)
                cty_ = "u%d" % bv_.width if bv_ is not None and bv_.width in (8, 16, 32, 64, 128) else "u64"
                ba = self.bool_atoms(("bin", "Eq", ds, ("const", v0, cty_)), rel == "in")
                if ba is not None:
                    return ba
        if tr is None:
            # integer switch: value (not) in a set of constants
            p = self.poly(ds)
            if p is not None:
                vs = sorted(vals)
                if rel == "in" and len(vs) == 1:
                    return [rel_atom(p - Poly.const(vs[0]), "==")]
                if rel == "notin":
                    return [rel_atom(p - Poly.const(v), "!=") for v in vs]
                return [("switch", str(p), rel, tuple(vs))]
            return [("switch", self.name(ds), rel, tuple(sorted(vals)))]
        return self.bool_atoms(ds, tr)

    def bool_atoms(self, d, tr):
        d = strip(d)
        while d[0] == "un" and d[1] == "Not":
            d = strip(d[2])
            tr = not tr
        if d[0] == "bin" and d[1] in ("BitAnd", "BitOr", "BitXor", "Shr", "Shl") and len(d) == 4:
            # an integer used as a switch discriminant (`match x & m { 0 => .., _ => .. }`): "true" means non-zero
            ops_ = [strip(d[2]), strip(d[3])]
            if any(o_[0] == "const" and len(o_) > 2 and isinstance(o_[2], str) and o_[2][:1] in "ui" and o_[2] != "usize_bool" for o_ in ops_):
                cty_ = [o_[2] for o_ in ops_ if o_[0] == "const" and len(o_) > 2][0]
                return self.bool_atoms(("bin", "Ne", d, ("const", 0, cty_)), tr)
        fl = self.is_float_cmp(d)
        if fl:
            c = as_cmp(d, True)
            if c is not None:
                op, a, b = c
                if op in ("Gt", "Ge"):
                    # a > b is b < a (also for NaN): one canonical spelling
                    op, a, b = {"Gt": "Lt", "Ge": "Le"}[op], b, a
                return [("fcmp", op if tr else "not " + op, self.arg_name(a), self.arg_name(b))]
        c = as_cmp(d, tr)
        if c is not None and c[0].startswith("Not"):
            op, a, b = c[0][3:], c[1], c[2]
            if op in ("Gt", "Ge"):
                op, a, b = {"Gt": "Lt", "Ge": "Le"}[op], b, a
            return [("fcmp", "not " + op, self.arg_name(a), self.arg_name(b))]
        if c is not None:
            op, a, b = c
            # bit-level equality / inequality against constants
            va, vb = self.ev.bv(a), self.ev.bv(b)
            if op in ("Eq", "Ne") and va is not None and vb is not None and va.width == vb.width:
                ca, cb = va.const_value(), vb.const_value()
                x, cst = (va, cb) if cb is not None else ((vb, ca) if ca is not None else (None, None))
                if x is not None and x.const_value() is None:
                    live = [(i, bit) for i, bit in enumerate(x.bits) if bit not in (0, 1)]
                    masked = any(bit in (0, 1) for bit in x.bits) or True
                    if all(isinstance(bit, tuple) and bit[0] == "i" for _, bit in live):
                        # constant bits of x must agree with cst, else the atom is constant
                        if len(live) == 1:
                            i, bit = live[0]
                            cbit = (cst >> i) & 1
                            rest_ok = all(((cst >> j) & 1) == b for j, b in enumerate(x.bits) if b in (0, 1))
                            if not rest_ok:
                                return [("false",)] if op == "Eq" else []
                            return [("bit", "%s.%d" % (fmt_lin((bit[1], bit[2])), bit[3]), cbit if op == "Eq" else 1 - cbit)]
                        if op == "Eq":
                            out = []
                            for i, bit in enumerate(x.bits):
                                cbit = (cst >> i) & 1
                                if bit in (0, 1):
                                    if bit != cbit:
                                        return [("false",)]
                                else:
                                    out.append(("bit", "%s.%d" % (fmt_lin((bit[1], bit[2])), bit[3]), cbit))
                            # collapse whole selections into a rel atom when it is a named field
                            nm = self.bv_name(BV([bit for _, bit in live]))
                            if nm and not nm.startswith("sel{") and [i for i, _ in live] == list(range(len(live))) :
                                return [cmp_to_rel("Eq", Poly.sym(nm), Poly.const(cst))]
                            return out
                        if op == "Ne" and len(live) == 1:
                            i, bit = live[0]
                            cbit = (cst >> i) & 1
                            rest_ok = all(((cst >> j) & 1) == b for j, b in enumerate(x.bits) if b in (0, 1))
                            if rest_ok:
                                return [("bit", "%s.%d" % (fmt_lin((bit[1], bit[2])), bit[3]), 1 - cbit)]
            # byte-array equality
            if op in ("Eq", "Ne") and (va is None or vb is None):
                ba, bb = self.ev.byte_array(a), self.ev.byte_array(b)
                if ba is not None and bb is not None and len(ba) == len(bb):
                    A = BV([x for byte in ba for x in byte])
                    B = BV([x for byte in bb for x in byte])
                    na = self.arg_name(a)
                    nb = self.arg_name(b)
                    x, y = sorted([na, nb])
                    return [("bytes_eq" if op == "Eq" else "bytes_ne", x, y)]
            pa, pb = self.poly(a), self.poly(b)
            if pa is not None and pb is not None:
                return [cmp_to_rel(op, pa, pb)]
            x, y = self.arg_name(a), self.arg_name(b)
            if op in ("Eq", "Ne"):
                x, y = sorted([x, y])
            return [("cmp", op, x, y)]
        # single input bit as a boolean
        v = self.ev.bv(d)
        if v is not None and v.width == 1 and isinstance(v.bits[0], tuple):
            b = v.bits[0]
            val = 1 if tr else 0
            if b[0] == "n":
                b = b[1]
                val = 1 - val
            return [("bit", "%s.%d" % (fmt_lin((b[1], b[2])), b[3]), val)]
        if d[0] == "const" and isinstance(d[1], bool):
            return [] if d[1] == tr else [("false",)]
        # quantified predicates with closures: any / all / position
        if d[0] == "call" and short(d[1]) in ("Iterator::any", "Iterator::all") and len(d[2]) == 2:
            q = short(d[1]).split("::")[1]
            ci = closure_info(self.prog, self.an, d[2][1])
            body = "?"
            if ci:
                cb, cap = ci
                rets = closure_ret(self.prog, cb)
                if len(rets) == 1:
                    body = closure_pred_name(self, cb, subst_upvars(rets[0], cap))
                # a predicate that is a character / byte class: one spelling for `all(P)`, `!any(!P)`, and for classes
                # written as `a || b`, by ranges, or as "alphanumeric and not lowercase" (merged in accept.simplify)
                from .funeval import char_class, class_str
                cc = char_class(self.prog, cb) if not cap else None
                if cc is not None:
                    vals, nonascii = cc
                    it = self.iter_name(d[2][0])
                    if nonascii is None:
                        dom = frozenset(range(256))            # bytes
                        unit = "bytes"
                    else:
                        dom = frozenset(range(128))
                        unit = "chars"
                    # all(P) true / any(P) false: every element inside a class; the other two: some element outside
                    inside = (q == "all" and tr) or (q == "any" and not tr)
                    cls = vals if q == "all" else dom - vals
                    na = None if nonascii is None else (nonascii if q == "all" else not nonascii)
                    if na is False or (na is None and max(cls, default=0) < 128):
                        # an ASCII-only class: the same constraint whether the string is walked by chars or by bytes
                        for suf in (".chars", ".bytes"):
                            if it.endswith(suf):
                                it = it[:-len(suf)]
                        unit = "elems"
                    return [("quant", "within" if inside else "notwithin", it, "%s%s%s" % (unit, class_str(cls), "+nonascii" if na else ""), True)]
            return [("quant", q, self.iter_name(d[2][0]), body, tr)]
        if d[0] == "call" and short(d[1]) in ("RangeInclusive::<Idx>::contains", "Range::<Idx>::contains") and len(d[2]) == 2 and tr:
            # (a..=b).contains(&x)  ==  a <= x && x <= b   (only the positive form is a conjunction)
            rg, x = unmut(d[2][0]), d[2][1]
            lo = hi = None
            incl = short(d[1]).startswith("RangeInclusive")
            if incl and rg[0] == "call" and short(rg[1]) == "RangeInclusive::<Idx>::new" and len(rg[2]) == 2:
                lo, hi = rg[2]
            elif not incl and rg[0] == "aggr" and len(rg[2]) == 2:
                lo, hi = rg[2]
            px = self.poly(x)
            plo = self.poly(lo) if lo is not None else None
            phi_ = self.poly(hi) if hi is not None else None
            if px is not None and plo is not None and phi_ is not None:
                return [cmp_to_rel("Ge", px, plo), cmp_to_rel("Le" if incl else "Lt", px, phi_)]
        if d[0] == "call" and len(d[2]) == 1 and short(d[1]) in ("Option::<T>::is_some", "Option::<T>::is_none", "Result::<T, E>::is_ok", "Result::<T, E>::is_err"):
            # same atom as a `match` on the value
            s_ = short(d[1])
            inner = strip(d[2][0])
            if s_.startswith("Option"):
                some = s_.endswith("is_some") == tr
                return [("some" if some else "none", self.name(inner), inner)]
            ok = s_.endswith("is_ok") == tr
            return [("ok" if ok else "err", self.name(inner), inner)]
        if d[0] == "call" and len(d[2]) == 1 and short(d[1]) in ("Vec::<T, A>::is_empty", "<impl [T]>::is_empty", "<impl str>::is_empty", "String::is_empty"):
            # one spelling for emptiness tests (also produced from `len() > 0`, `len() == 0`: accept.simplify)
            er_ = self.emptiness_rel(d[2][0], tr)
            if er_ is not None:
                return er_
            return [("pred", "is_empty(%s)" % self.arg_name(d[2][0]), tr)]
        if d[0] == "call":
            return [("pred", self.name(d), tr)]
        if d[0] == "var":
            defs = self.var_defs(d[1])
            if defs and len(defs) == 1 and self.path_blocks is not None and strip(defs[0])[0] not in ("var", "loopval") and ("batom", d[1]) not in self._busy_vars:
                # on a concrete path the boolean has one definition: its atoms (`let ok = a && all(..); if !ok {..}`)
                self._busy_vars.add(("batom", d[1]))
                try:
                    return self.bool_atoms(defs[0], tr)
                finally:
                    self._busy_vars.discard(("batom", d[1]))
            if defs and len(defs) <= 4:
                return [("pred", "phi(%s)" % "|".join(sorted(self.name(x) for x in defs)), tr)]
        return [("pred", self.name(d), tr)]

    def is_float_cmp(self, d):
        """comparison of floats / uom quantities (no integer normalisation applies)"""
        d = strip(d)
        if d[0] == "bin" and len(d) == 5:
            return True
        if d[0] == "call" and short(d[1]) in ("PartialOrd::lt", "PartialOrd::le", "PartialOrd::gt", "PartialOrd::ge", "PartialEq::eq", "PartialEq::ne") and self.site_block(d[3]) is not None:
            blk = self.an.body.blocks[d[3]]["t"]
            for g in blk.get("gargs") or []:
                gs = pp.ty(g)
                if g.get("k") == "float" or "uom::si::Quantity" in gs or gs in ("f64", "f32"):
                    return True
        # operands whose type is known to be a float / a uom quantity (closure bodies inlined into a predicate have
        # no call-site block to ask)
        c_ = as_cmp(d, True) if d[0] in ("call", "bin", "un") else None
        if c_ is not None:
            for side in (c_[1], c_[2]):
                try:
                    ty = self.type_of(side)
                except Exception:
                    ty = None
                if ty is not None and (ty.get("k") == "float" or (ty.get("k") == "adt" and "uom::si::Quantity" in str(ty.get("p", "")))):
                    return True
        return False

    def iter_name(self, t):
        t = unmut(t)
        if t[0] == "call" and short(t[1]) in ("<impl [T]>::iter", "IntoIterator::into_iter", "<impl str>::chars", "<impl str>::bytes"):
            inner = t[2][0]
            n = self.arg_name(inner)
            suffix = "" if short(t[1]).endswith("iter") else "." + short(t[1]).split("::")[-1]
            if n.startswith("call") or True:
                sl = self.seq_src(inner)
                if sl:
                    return sl + suffix
            return n + suffix
        if t[0] == "call" and short(t[1]).startswith("Iterator::"):
            return "%s.%s(%s)" % (self.iter_name(t[2][0]), short(t[1]).split("::")[1], ",".join(self.arg_name(a) for a in t[2][1:] if a[0] != "aggr"))
        return self.name(t)

    def seq_src(self, t):
        t = strip(t)
        if t[0] == "call" and short(t[1]) in ("<impl [T]>::to_vec", "Deref::deref", "Vec::<T, A>::as_slice"):
            r = self.ev.region(t[2][0])
            if r is not None:
                return self.region_name(r)
            return self.seq_src(t[2][0])
        r = self.ev.region(t)
        if r is not None:
            return self.region_name(r)
        rp = self.region_poly(t)
        if rp is not None:
            return self.rp_name(rp)
        return None

    def known_result(self, x):
        """"Ok" / "Err" / "Some" / "None" when the term is such an aggregate on the current path (a multi-definition
        local resolved through the path), else None"""
        x = strip(x)
        for _ in range(3):
            if x[0] == "var" and self.path_blocks is not None:
                try:
                    ds = self.var_defs(x[1], x[2] if len(x) > 2 else None)
                except Exception:
                    ds = None
                if ds and len(ds) == 1:
                    x = strip(ds[0])
                    continue
            break
        if x[0] == "aggr" and x[1].startswith("adt:"):
            v = x[1].rsplit("::", 1)[-1]
            if x[1].endswith(("result::Result::Ok", "result::Result::Err", "option::Option::Some", "option::Option::None")):
                return v
        return None

    def fresh_result_var(self, l):
        """a local that only ever holds literal Option/Result variants and is not carried around a loop (the result of an
        expanded helper: all its definitions lie in the same loops) — as opposed to an accumulator such as
        `let mut seen = None; loop { .. seen = Some(x) }`"""
        tm = self.an.terms
        ds = tm.defs.whole[l]
        if tm.defs.partial[l] or len(ds) < 2:
            return False
        sig = None
        for d in ds:
            try:
                x = strip(self._def_term(d))
            except Exception:
                return False
            if not (x[0] == "aggr" and x[1].endswith(("option::Option::Some", "option::Option::None", "result::Result::Ok", "result::Result::Err"))):
                return False
            lps = frozenset(self.loops_containing(d[0]))
            if sig is None:
                sig = lps
            elif sig != lps:
                return False
        return True

    def known_payload(self, x):
        """payload term of a known Ok(..) / Some(..) on the current path"""
        x = strip(x)
        for _ in range(3):
            if x[0] == "var" and self.path_blocks is not None:
                try:
                    ds = self.var_defs(x[1], x[2] if len(x) > 2 else None)
                except Exception:
                    ds = None
                if ds and len(ds) == 1:
                    x = strip(ds[0])
                    continue
            break
        if x[0] == "aggr" and x[1].endswith(("result::Result::Ok", "option::Option::Some")) and len(x[2]) == 1:
            return x[2][0]
        return None

    def enum_of(self, place_term):
        """type path of the ADT whose discriminant is read"""
        ty = self.type_of(place_term)
        while ty is not None and ty.get("k") == "ref":
            ty = ty["t"]
        if ty is not None and ty.get("k") == "adt":
            return ty["p"]
        return None

    def type_of(self, term, depth=0):
        """type JSON of a term (through refs), or None"""
        if depth > 12:
            return None
        t = term
        while t[0] in ("ref", "deref", "mut"):
            t = t[1] if t[0] != "mut" else t[2]

        def unref(ty):
            while ty is not None and ty.get("k") == "ref":
                ty = ty["t"]
            return ty
        if t[0] == "call":
            if not isinstance(t[3], int) or t[3] < 0:
                return None
            blk = self.an.body.blocks[t[3]]["t"]
            d = blk.get("dest")
            if d is not None and not d["pr"]:
                return unref(self.an.body.locals[d["l"]]["ty"])
            return None
        if t[0] == "param":
            if not (0 <= t[1] < len(self.an.body.locals)):
                return getattr(self, "placeholder_ty", {}).get(t[1])      # element placeholder of agvlib.quant
            return unref(self.an.body.locals[t[1]]["ty"])
        if t[0] == "var":
            return unref(self.an.body.locals[t[1]]["ty"])
        if t[0] == "try":
            ty = self.type_of(t[1], depth + 1)
            if ty and ty.get("k") == "adt" and ty["p"].split("::")[-1] in ("Result", "Option") and ty["a"]:
                return unref(ty["a"][0])
            return None
        if t[0] == "downcast":
            return self.type_of(t[1], depth + 1)   # same value, narrowed to a variant
        if t[0] == "cdef":
            c_ = self.prog.consts.get(t[1])
            return unref(c_.get("ty")) if c_ and c_.get("ty") else None
        if t[0] in ("cindex", "index"):
            bty = self.type_of(t[1], depth + 1)
            if bty is not None and bty.get("k") in ("slice", "array"):
                return unref(bty.get("t"))
            return None
        if t[0] == "subslice":
            return self.type_of(t[1], depth + 1)
        if t[0] == "field":
            base = strip(t[1])
            if base[0] == "downcast":
                ety = self.type_of(base[1], depth + 1)
                if ety is None:
                    return None
                if ety.get("k") == "adt" and ety["p"].split("::")[-1] in ("Option", "Result") and ety["p"].startswith(("std::", "core::")):
                    idx = 1 if base[2] == "Err" else 0
                    return unref(ety["a"][idx]) if idx < len(ety["a"]) and t[2] == 0 else None
                a = self.prog.adts.get(ety.get("p")) if ety.get("k") == "adt" else None
                if a:
                    for var in a["variants"]:
                        if var["name"] == base[2] and t[2] < len(var["fields"]):
                            return unref(var["fields"][t[2]]["ty"])
                return None
            bty = self.type_of(base, depth + 1)
            if bty is None:
                return None
            if bty.get("k") == "closure" and bty.get("p") == self.an.body.path:
                # captured variable of this closure: type from the upvar debug info
                for uv in self.an.body.j.get("upvars") or []:
                    for pr in uv["p"]["pr"]:
                        if pr.get("k") == "field" and pr.get("i") == t[2] and pr.get("ty"):
                            return unref(pr["ty"])
                return None
            if bty.get("k") == "tuple" and t[2] < len(bty["ts"]):
                return unref(bty["ts"][t[2]])
            if bty.get("k") == "adt":
                a = self.prog.adts.get(bty["p"])
                if a and a["kind"] == "struct" and t[2] < len(a["variants"][0]["fields"]):
                    return unref(a["variants"][0]["fields"][t[2]]["ty"])
            return None
        if t[0] == "index":
            bty = self.type_of(t[1], depth + 1)
            if bty and bty.get("k") in ("array", "slice"):
                return unref(bty["t"])
            return None
        if t[0] == "loopval" or t[0] == "aggr":
            return None
        return None

    def variant_names(self, tyname, vs):
        a = self.prog.adts.get(tyname) if tyname else None
        if not a:
            return [str(v) for v in vs]
        out = []
        for v in vs:
            nm = None
            for i, var in enumerate(a["variants"]):
                if (var["discr"] is not None and int(var["discr"]) == v) or (var["discr"] is None and i == v):
                    nm = var["name"]
            out.append(nm or str(v))
        return out


def whole_chunk(ret, n):
    """`[x[0], x[1], .., x[n-1]]` where the closure argument x is an n-element chunk is x itself"""
    if not isinstance(n, int) or n <= 0:
        return ret

    def idx_of(e):
        e = strip(e)
        if e[0] == "index" and strip(e[1]) == ("carg", 0):
            i = strip(e[2])
            return i[1] if i[0] == "const" and isinstance(i[1], int) else None
        if e[0] == "cindex" and strip(e[1]) == ("carg", 0) and not e[3]:
            return e[2]
        if e[0] == "call" and short(e[1]) == "Index::index" and len(e[2]) == 2 and strip(e[2][0]) == ("carg", 0):
            i = strip(e[2][1])
            return i[1] if i[0] == "const" and isinstance(i[1], int) else None
        return None

    def sub(x):
        if not isinstance(x, tuple) or not x or not isinstance(x[0], str):
            return x
        if x[0] == "aggr" and x[1] == "array" and len(x[2]) == n and [idx_of(e) for e in x[2]] == list(range(n)):
            return ("carg", 0)
        out = [x[0]]
        for y in x[1:]:
            if isinstance(y, tuple) and y and isinstance(y[0], str):
                out.append(sub(y))
            elif isinstance(y, tuple):
                out.append(tuple(sub(z) if isinstance(z, tuple) else z for z in y))
            else:
                out.append(y)
        return tuple(out)
    return sub(ret)


def chunk_len(sym, src):
    """n when the iterator is `chunks_exact(_, n)` / `windows(_, n)` with a constant n (every item has n elements)"""
    x = unmut(src)
    while x[0] == "call" and short(x[1]) == "IntoIterator::into_iter" and len(x[2]) == 1:
        x = unmut(x[2][0])
    if x[0] == "call" and short(x[1]) in ("<impl [T]>::chunks_exact", "<impl [T]>::windows") and len(x[2]) == 2:
        k = sym.poly(x[2][1])
        if k is not None and k.is_const():
            return int(k.const_value())
    return None


def derived_eq(prog, callee):
    """`<T as PartialEq>::eq` / `ne` generated by #[derive(PartialEq)] (structural, hence symmetric)"""
    from .guards import impl_cmp
    if impl_cmp(callee) not in ("Eq", "Ne"):
        return False
    b = prog.bodies.get(callee)
    return b is not None and bool((b.j.get("span") or {}).get("exp"))


def closure_pred_name(sym, cbody, ret):
    """canonical rendering of a small closure body such as |&x| x != 0, |c| c.is_ascii_digit(),
    |b| i16::from_be_bytes(b.try_into().unwrap())"""
    r = strip(ret)

    def has_carg(x):
        from .terms import walk
        return any(y[0] in ("carg", "cenv") for y in walk(x))

    def nm(x, d=0):
        x = strip(x)
        if d > 8:
            return "..."
        if x == ("carg", 0):
            return "x"
        if not has_carg(x) and x[0] not in ("const",):
            # a captured value: name it in the parent's vocabulary
            return sym.arg_name(x)
        if x[0] == "carg":
            return "x%d" % x[1]
        if x[0] == "const":
            return str(x[1])
        if x[0] == "call":
            s = short(x[1])
            if s in ("Result::<T, E>::unwrap", "TryInto::try_into", "From::from", "Into::into", "Clone::clone") or \
                    "impl std::convert::From<" in x[1]:
                return nm(x[2][0], d + 1)
            if len(x[2]) == 2 and derived_eq(sym.prog, x[1]):
                # a derived (structural) `==` is symmetric: the closure argument first, else by name
                an_ = [nm(a, d + 1) for a in x[2]]
                an_.sort(key=lambda q: (q != "x", q))
                return "%s(%s)" % (s, ",".join(an_))
            return "%s(%s)" % (s, ",".join(nm(a, d + 1) for a in x[2]))
        if x[0] == "cast":
            return nm(x[2], d + 1)
        if x[0] == "bin":
            return "%s(%s,%s)" % (x[1], nm(x[2], d + 1), nm(x[3], d + 1))
        if x[0] == "field":
            return "%s.%d" % (nm(x[1], d + 1), x[2])
        return show(x)
    c = as_cmp(r, True)
    if c:
        op, a, b = c
        x, y = nm(a), nm(b)
        if op in ("Eq", "Ne") and y == "x":
            x, y = y, x
        if op in ("Gt", "Ge"):
            op, x, y = {"Gt": "Lt", "Ge": "Le"}[op], y, x
        return "%s %s %s" % (x, op, y)
    return nm(r)


# ---------------------------------------------------------------------- accept paths
def forward_paths(an, target, limit=20000, source=0, extra_cut=()):
    """All acyclic paths source -> target (back edges removed) as (switch_edges, blocks).
    Returns None if more than `limit` paths exist."""
    body = an.body
    back = set(body.back_edges()) | set(extra_cut)
    can = {target}
    preds = {b: [p for p in body.preds(b) if (p, b) not in back] for b in body.reachable()}
    st = [target]
    while st:
        b = st.pop()
        for p in preds.get(b, []):
            if p not in can:
                can.add(p)
                st.append(p)
    out = []
    count = [0]

    def rec(b, edges, blocks):
        if count[0] > limit:
            return
        blocks.append(b)
        if b == target and len(blocks) > 1 or (b == target and source == target and len(blocks) == 1 and False):
            out.append((list(edges), list(blocks)))
            count[0] += 1
            blocks.pop()
            return
        if b == target and source != target:
            out.append((list(edges), list(blocks)))
            count[0] += 1
            blocks.pop()
            return
        term = body.blocks[b]["t"]
        for s in body.succ(b):
            if (b, s) in back or s not in can:
                continue
            if term["k"] == "switch":
                edges.append((b, s))
                rec(s, edges, blocks)
                edges.pop()
            else:
                rec(s, edges, blocks)
        blocks.pop()
    import sys
    old = sys.getrecursionlimit()
    sys.setrecursionlimit(max(old, 20000))
    try:
        rec(source, [], [])
    finally:
        sys.setrecursionlimit(old)
    if count[0] > limit:
        return None
    return out


def loop_iteration_paths(an, header, limit=5000):
    """Per-iteration paths of the natural loop(s) with this header: header -> ... -> tail (back-edge source),
    as (switch_edges, blocks)."""
    body = an.body
    tails = [a for (a, b) in body.back_edges() if b == header]
    out = []
    for tail in tails:
        loop = body.natural_loop(tail, header)
        # paths inside the loop from header to tail
        ps = forward_paths(an, tail, limit=limit, source=header)
        if ps is None:
            return None
        for e, bl in ps:
            if all(b in loop for b in bl):
                out.append((e, bl))
    return out


def path_atoms(sym, path):
    edges, blocks = path
    sym.set_path(blocks)
    atoms = []
    try:
        for (s, t) in edges:
            for a in sym.atoms_of_edge(s, t):
                atoms.append(a)
    finally:
        sym.set_path(None)
    return atoms


def atom_key(a):
    """hashable/printable key of an atom (drops the Poly object)"""
    if a[0] == "rel":
        return ("rel", a[1])
    if a[0] in ("ok", "err", "some", "none") and len(a) > 2:
        return (a[0], a[1])
    return a


def atom_str(a):
    a = atom_key(a)
    if a[0] == "rel":
        return a[1]
    if a[0] == "bit":
        return "bit %s = %d" % (a[1], a[2])
    if a[0] in ("ok", "err", "some", "none"):
        return "%s %s" % (a[1], {"ok": "is Ok", "err": "is Err", "some": "is Some", "none": "is None"}[a[0]])
    if a[0] == "switch" and a[2] == "in" and " " not in a[1]:
        # same form as two paths `x == a`, `x == b` merged by accept.merge_value_sets
        return "%s in {%s}" % (a[1], ",".join(str(v) for v in a[3]))
    return " ".join(str(x) for x in a)
