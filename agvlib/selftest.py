"""Both-way testing of the checker: apply a patch to a scratch copy of /repo
(outside /repo and /verif), run checks against it, compare with the expectation
recorded in the patch header (`# expect: C04,C01` or `# expect: none`)."""
import glob
import os
import shutil
import subprocess
import sys
import tempfile

from . import build


def run_patch(patch, props=None, keep=False, verbose=False):
    with open(patch) as fh:
        head = fh.readline()
    expect = set()
    label = os.path.basename(patch)
    if head.startswith("# expect:"):
        e = head.split(":", 1)[1].strip()
        expect = set() if e == "none" else set(x.strip() for x in e.split(","))
    meta = os.path.join(os.path.dirname(patch), "meta.json")
    if os.path.basename(patch) == "patch.diff" and os.path.exists(meta):
        import json
        m = json.load(open(meta))
        expect = set(m.get("expect_checks") or [m["property"]])
        if m.get("not_detectable"):
            expect = set()
        label = "seeded/" + os.path.basename(os.path.dirname(patch))
    scratch = tempfile.mkdtemp(prefix="agv-scratch-", dir="/tmp")
    evid = tempfile.mkdtemp(prefix="agv-evid-", dir="/tmp")
    try:
        repo = os.path.join(scratch, "repo")
        shutil.copytree(build.REPO, repo, ignore=shutil.ignore_patterns("target", ".git"))
        p = subprocess.run(["patch", "-p1", "-s", "-f", "-i", os.path.abspath(patch)], cwd=repo, stdout=subprocess.PIPE, stderr=subprocess.STDOUT, text=True)
        if p.returncode != 0:
            return {"patch": patch, "error": "patch does not apply: " + p.stdout[-400:], "expect": sorted(expect)}
        from .cli import PROPS
        todo = props or PROPS
        fired = {}
        env = dict(os.environ, AGV_REPO=repo, AGV_EVID=evid)
        for pr in todo:
            mod = os.path.join(build.VERIF, "agvlib", "rules", pr.lower() + ".py")
            if not os.path.exists(mod):
                continue
            q = subprocess.run([os.path.join(build.VERIF, "agv"), "check", pr], env=env, stdout=subprocess.PIPE, stderr=subprocess.STDOUT, text=True)
            viol = [l for l in q.stdout.splitlines() if l.startswith("VIOLATION") or l.strip().startswith("key:")]
            if q.returncode != 0:
                fired[pr] = [l.strip() for l in q.stdout.splitlines() if l.strip().startswith("key:")] or [q.stdout[-300:]]
            if verbose:
                sys.stdout.write(q.stdout)
        return {"patch": label, "expect": sorted(expect), "fired": fired}
    finally:
        if not keep:
            shutil.rmtree(scratch, ignore_errors=True)
        shutil.rmtree(evid, ignore_errors=True)


def main(argv):
    verbose = "-v" in argv
    argv = [a for a in argv if a != "-v"]
    props = [a for a in argv if a.startswith("C") and len(a) == 3]
    pats = [a for a in argv if a not in props]
    jflag = [a for a in pats if a.startswith("-j")]
    pats = [a for a in pats if not a.startswith("-j")]
    if not pats:
        pats = sorted(glob.glob(os.path.join(build.VERIF, "selftest", "mutations", "*.patch"))) + \
            sorted(glob.glob(os.path.join(build.VERIF, "selftest", "benign", "*.patch")))
    else:
        out = []
        for p in pats:
            if os.path.exists(p):
                out.append(p)
            else:
                out += [x for x in sorted(glob.glob(os.path.join(build.VERIF, "selftest", "*", "*%s*.patch" % p)))
                        if "/brittle/" not in x or "brittle" in p]
                out += sorted(glob.glob(os.path.join(build.VERIF, "seeded", "*%s*" % p, "patch.diff")))
        pats = out
    pats = pats + jflag
    bad = 0
    jobs = 1
    for a in list(pats):
        if a.startswith("-j"):
            jobs = int(a[2:] or 8)
    pats = [p for p in pats if not p.startswith("-j")]
    def safe(p):
        try:
            return run_patch(p, props or None, verbose=verbose and jobs == 1)
        except Exception as e:          # a patch that disappears or a crash of one run must not lose the others' results
            return {"patch": p, "error": repr(e)[:300], "expect": []}
    from concurrent.futures import ThreadPoolExecutor
    ex = ThreadPoolExecutor(max_workers=max(1, jobs))
    results = ex.map(safe, pats)             # yields in order, as they complete
    for p, r in zip(pats, results):
        sys.stdout.flush()
        if "error" in r:
            print("ERROR  %s: %s" % (p, r["error"]))
            bad += 1
            continue
        fired = set(r["fired"])
        exp = set(r["expect"])
        if props:
            exp &= set(props)
        if exp:
            ok = exp <= fired
        else:
            ok = not fired
        status = "ok  " if ok else "FAIL"
        if not ok:
            bad += 1
        print("%s %-50s expect=%s fired=%s" % (status, r["patch"], ",".join(sorted(exp)) or "none", ",".join(sorted(fired)) or "none"))
        for pr, keys in r["fired"].items():
            for k in keys[:4]:
                print("       %s" % k)
    return 1 if bad else 0
