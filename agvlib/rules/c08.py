"""C08 — Channel identity is unambiguous: names, boards and detector elements biject."""
import json

from .. import accept, dispatch
from ..facts import AnchorMissing
from .common import check_lookup

LEVEL = "other"
D = "alpha_g_detector::"
BANKS = ["Adc16BankName", "Adc32BankName", "Alpha16BankName", "PadwingBankName", "TriggerBankName", "Trb3BankName",
         "McVertexBankName", "Seq2BankName", "ChronoboxBankName", "MainEventBankName"]


def le32(b):
    return b[0] | (b[1] << 8) | (b[2] << 16) | (b[3] << 24)


def distinct(xs):
    return len(set(map(repr, xs))) == len(xs)


def is_missing_map(e):
    """the error of a run number for which no map exists (`MissingMap`, `MissingPreampMap`, ...) — not the error of a
    key that is absent from an existing map (`MissingPad`, `MissingWire`), which every cell can return"""
    return e.startswith("Missing") and e.endswith("Map")


def table_loop_rows(prog, fn):
    """rows of `for (k, v) in TABLE { if name == k { return Ok(f(v)) } }` over a constant TABLE of string tuples, spelled
    like the rows of `match name { "k1" => Ok(f("v1")), "k2" => .. }`; None if the function is not of that shape"""
    import re as _re
    from ..facts import lit_value
    rows = accept.ret_table(prog, fn, quantified=True)
    oks = [(a, v) for a, v in rows if v.startswith("Ok{")]
    if len(oks) != 1:
        return None
    ats, val = oks[0]
    m = _re.search(r"x@(<?[\w:<>&\[\] ,']+?::[A-Z][A-Z0-9_]*)\[0\.\.\]", val + " " + " ".join(ats))
    if not m:
        return None
    cpath = m.group(1)
    c = prog.consts.get(cpath)
    if not c or "lit" not in c:
        return None
    try:
        table = lit_value(c["lit"], prog)
    except Exception:
        return None
    if not (isinstance(table, list) and table and all(isinstance(e, tuple) and all(isinstance(x, str) for x in e) for e in table)):
        return None
    wit = "x@%s[0..]" % cpath
    if len(ats) != 1 or not _re.match(r"^arg1 - %s\.0 == 0$" % _re.escape(wit), ats[0]):
        return None
    out = []
    for k, e in enumerate(table):
        a_ = ["cmp Eq %r [0..L)" % e[0]] + ["cmp Ne %r [0..L)" % table[j][0] for j in range(k)]
        v_ = val
        for i_, x in enumerate(e):
            v_ = v_.replace("%s.%d" % (wit, i_), repr(x))
        if wit in v_:
            return None
        out.append([sorted(a_), v_])
    return out


def run(prog, tier, res):
    spec = accept.load_spec("c08.json")
    res.explanation = ("Literal tables read from the type-checked constants (uniqueness, permutations, cross-table membership, "
                       "device id = le32 of the MAC prefix); total table lookups; run-number dispatch partitions of every "
                       "map / calibration function; accept + value tables of every bank-name parser vs the documented "
                       "grammar; wire/pad index arithmetic and the 8-wire shift agreeing across crates.")
    res.trusted = ["spec table tables/spec/c08.json transcribed from the property statement",
                   "single-character from_str_radix(_, R) is injective on the upper-case alphanumerics it accepts"]
    R1 = res.rule("C08.R1", "literal tables: names/MACs/device ids pairwise distinct, cross-table membership, permutations; lookups compare whole keys", 16)
    R2 = res.rule("C08.R2", "run-number dispatch: simulation cell = cell of run 5000 (or a dedicated map), below-first-map => Missing* error only there, no dead map arm", 8)
    R3 = res.rule("C08.R3", "bank-name parsers accept exactly the documented grammar and build (kind, board, channel) from the documented characters", 10)
    R4 = res.rule("C08.R4", "(board, channel) -> wire = preamp*16 + mapped mod 16 split at 16; (board, chip, channel) -> pad = (col*4 + pad_col, row*72 + pad_row)", 2)
    R5 = res.rule("C08.R5", "8-wire shift and 256/32 wires-per-column agree between the detector map and the physics matching code", 3)

    # ------------------------------------------------------------------ R1 tables
    def table(path):
        return prog.const_lit(path)
    a16 = table(D + "alpha16::ALPHA16BOARDS")
    pwb = table(D + "padwing::PADWING_BOARDS")
    pre = table(D + "alpha16::aw_map::PREAMPS_2941")
    inv = table(D + "alpha16::aw_map::INV_CHANNELS_2724")
    p44 = table(D + "padwing::map::PADWING_BOARDS_4418")
    p104 = table(D + "padwing::map::PADWING_BOARDS_10418")
    cbn = table(D + "chronobox::CHRONOBOX_NAMES")

    def t(ok, site, what, where=""):
        res.oblige(ok, "table")
        if ok:
            res.hit(R1)
        else:
            res.violate(R1, site.split("|")[0], site.split("|")[1], what, where)
    t(len(a16) >= 8 and distinct([r[0] for r in a16]) and distinct([r[1] for r in a16]), D + "alpha16::ALPHA16BOARDS|distinct",
      "ALPHA16BOARDS names or MAC addresses are not pairwise distinct (two boards would decode to the same id, or one name to two boards)")
    t(all(len(r[0]) == 2 and r[0].isascii() and r[0].isalnum() and not any(c.islower() for c in r[0]) for r in a16), D + "alpha16::ALPHA16BOARDS|name-shape",
      "an ALPHA16BOARDS name is not two upper-case ASCII alphanumerics (it could never appear in a bank name)")
    t(len(pwb) >= 64 and distinct([r[0] for r in pwb]) and distinct([r[1] for r in pwb]) and distinct([r[2] for r in pwb]), D + "padwing::PADWING_BOARDS|distinct",
      "PADWING_BOARDS names, MAC addresses or device ids are not pairwise distinct")
    bad = [r[0] for r in pwb if le32(r[1]) != r[2]]
    t(not bad, D + "padwing::PADWING_BOARDS|device-id", "device id != little-endian u32 of the first four MAC bytes for boards %s" % bad)
    t(all(len(r[0]) == 2 and r[0].isdigit() for r in pwb), D + "padwing::PADWING_BOARDS|name-shape", "a PADWING_BOARDS name is not two ASCII digits")
    names16 = set(r[0] for r in a16)
    t(len(pre) == 8 and distinct([r[0] for r in pre]) and all(r[0] in names16 for r in pre), D + "alpha16::aw_map::PREAMPS_2941|boards",
      "PREAMPS_2941 boards are not 8 distinct known Alpha16 boards")
    flat = sorted(x for r in pre for x in r[1])
    t(flat == list(range(16)), D + "alpha16::aw_map::PREAMPS_2941|permutation", "PREAMPS_2941 preamp numbers are not a permutation of 0..16: %s" % flat)
    t(sorted(inv) == list(range(32)), D + "alpha16::aw_map::INV_CHANNELS_2724|permutation", "INV_CHANNELS_2724 is not a permutation of 0..32")
    t(sorted(inv[:16]) == list(range(16)), D + "alpha16::aw_map::INV_CHANNELS_2724|halves", "INV_CHANNELS_2724 does not keep channels 0..16 on preamp_1 and 16..32 on preamp_2 (wire map would not be a bijection per preamp)")
    pnames = set(r[0] for r in pwb)
    for nm, tb in (("PADWING_BOARDS_4418", p44), ("PADWING_BOARDS_10418", p104)):
        fl = [x for col in tb for x in col]
        t(len(tb) == 8 and all(len(c) == 8 for c in tb) and distinct(fl) and all(x in pnames for x in fl), D + "padwing::map::%s|grid" % nm,
          "%s is not an 8x8 grid of 64 distinct known PadWing boards" % nm)
    t(len(cbn) == 4 and distinct(cbn), D + "chronobox::CHRONOBOX_NAMES|distinct", "CHRONOBOX_NAMES are not 4 distinct names")
    # lookups
    for fn, tab, key, n in spec["lookups"]:
        check_lookup(prog, res, R1, fn, tab, key, n)

    # ------------------------------------------------------------------ R2 dispatch
    found = 0
    for fn, b in sorted(prog.bodies.items()):
        if b.kind not in ("Fn", "AssocFn") or b.crate not in ("alpha_g_detector", "alpha_g_physics"):
            continue
        if dispatch.run_param(b) is None or b.j.get("impl_trait"):
            continue
        try:
            paths, statics = dispatch.dispatch(prog, fn)
        except RuntimeError:
            continue
        if not paths:
            continue
        cs = dispatch.cells(paths)
        if len(cs) < 2:
            continue
        found += 1
        res.functions.add(fn)
        info = []
        for c in cs:
            o = dispatch.outcomes(paths, c)
            sts = set(s for p in o for s in p["statics"])
            errs = set(p["err"] for p in o if p["err"])
            rets = set(p["ret"] for p in o if not p["err"])
            info.append({"cell": c, "statics": sts, "errs": errs, "rets": rets})
        ok = True
        sim = [i for i in info if i["cell"] == (dispatch.U32_MAX, dispatch.U32_MAX)]
        r5000 = [i for i in info if i["cell"][0] <= 5000 <= i["cell"][1]]
        first = info[0]
        missing_first = {e for e in first["errs"] if is_missing_map(e)}
        if not sim:
            ok = False
            res.violate(R2, fn, "no-simulation-cell", "u32::MAX (simulation) is not dispatched separately from real run numbers", b.where())
        elif r5000:
            r = r5000[0]
            r_missing = {e for e in r["errs"] if is_missing_map(e)}
            if r["statics"] and not r_missing:
                if sim[0]["statics"] != r["statics"] or {e for e in sim[0]["errs"] if is_missing_map(e)}:
                    ok = False
                    res.violate(R2, fn, "simulation!=5000", "simulation run selects %s but run 5000 selects %s: the simulation must map exactly like run 5000" % (
                        sorted(sim[0]["statics"]), sorted(r["statics"])), b.where())
            else:
                # no map for run 5000: the simulation needs a dedicated outcome that no real run selects
                others = [i for i in info if i is not sim[0]]
                shared = sim[0]["statics"] and any(sim[0]["statics"] & i["statics"] for i in others)
                if {e for e in sim[0]["errs"] if is_missing_map(e)} or shared or (not sim[0]["statics"] and not sim[0]["rets"]):
                    ok = False
                    res.violate(R2, fn, "simulation-map", "simulation run does not select a dedicated calibration (selects %s / errors %s)" % (
                        sorted(sim[0]["statics"]), sorted(sim[0]["errs"])), b.where())
        if first["cell"][0] != 0 or not missing_first or first["statics"] or first["rets"]:
            ok = False
            res.violate(R2, fn, "below-first-map", "run numbers below the first map (cell %s) do not uniformly give a Missing* error (statics %s, values %s)" % (
                first["cell"], sorted(first["statics"]), sorted(first["rets"])), b.where())
        for i in info[1:]:
            if {e for e in i["errs"] if is_missing_map(e)} & missing_first and not (i["statics"] or i["rets"]):
                ok = False
                res.violate(R2, fn, "gap:%s" % (i["cell"],), "run numbers %s..=%s fall into a gap: only a Missing* error is possible there" % i["cell"], b.where())
        # a map, once superseded, does not come back: over increasing run numbers (the simulation cell aside) the
        # selected outcome never returns to one that an intermediate range had replaced (`10418 => new` instead of
        # `10418.. => new` sends every later run back to the old map)
        seq_ = [(i["cell"], (frozenset(i["statics"]), frozenset(i["rets"]))) for i in info
                if i["cell"] != (dispatch.U32_MAX, dispatch.U32_MAX) and (i["statics"] or i["rets"])]
        seen_, last_ = [], None
        for cell_, sel_ in seq_:
            if sel_ == last_:
                continue
            if sel_ in seen_:
                ok = False
                res.violate(R2, fn, "map-returns:%d" % cell_[0], "from run %d on the lookup goes back to %s, which an earlier run range had already replaced: a later "
                            "calibration / cabling map only applies to an isolated range of runs" % (cell_[0], sorted(x.split("::")[-1] for x in sel_[0]) or sorted(sel_[1])), b.where())
                break
            seen_.append(sel_)
            last_ = sel_
        selected = set(s for i in info for s in i["statics"])
        dead = set(statics) - selected
        if dead:
            ok = False
            res.violate(R2, fn, "dead-arm:%s" % ",".join(sorted(d.split("::")[-1] for d in dead)),
                        "map(s) %s are referenced but no run number selects them (arm shadowed by an earlier, wider arm)" % sorted(dead), b.where())
        for st_path, first_run in spec.get("map_start", {}).items():
            if st_path in statics:
                lows = [i["cell"][0] for i in info if st_path in i["statics"] and i["cell"][0] != dispatch.U32_MAX]
                if not lows or min(lows) != first_run:
                    ok = False
                    res.violate(R2, fn, "map-start:%s" % st_path.split("::")[-1],
                                "map %s is documented as installed from run %d (included) but is selected from run %s" % (
                                    st_path.split("::")[-1], first_run, min(lows) if lows else "never"), b.where())
        res.oblige(ok, "dispatch")
        if ok:
            res.hit(R2)
        res.sample({"fn": fn, "cells": [{"runs": "%d..=%d" % i["cell"], "maps": sorted(s.split("::")[-1] for s in i["statics"]), "errors": sorted(i["errs"])} for i in info]})
    res.extra["dispatch_functions"] = found

    # ------------------------------------------------------------------ R3 bank names
    for bn in BANKS:
        fn = "<%smidas::%s as std::convert::TryFrom<&str>>::try_from" % (D, bn)
        got = [[a, v] for a, v in accept.ret_table(prog, fn, only_ok=True)]
        res.functions.add(fn)
        want = spec["bank_names"].get(bn)
        if got != want:
            # the same dispatch written as a first-match loop over a constant table of (name, value) string pairs:
            # one row per table entry, in table order (a `match` on the literals)
            tab_rows = table_loop_rows(prog, fn)
            if tab_rows is not None:
                got = tab_rows
        ok = got == want
        res.oblige(ok, "grammar")
        if ok:
            res.hit(R3)
        else:
            res.violate(R3, fn, "grammar", "`%s::try_from(&str)` accepts/builds\n      got  %s\n      want %s" % (bn, json.dumps(got), json.dumps(want)), prog.bodies[fn].where())

    # ------------------------------------------------------------------ R4 / R5 formulas
    for key, rule in (("formulas", R4), ("geometry", R5)):
        for fn, want in spec[key].items():
            got = [[a, v] for a, v in accept.ret_table(prog, fn, only_ok=(key == "formulas" and "try_new" in fn))]
            res.functions.add(fn)
            ok = got == want
            res.oblige(ok, "formula")
            if ok:
                res.hit(rule)
            else:
                res.violate(rule, fn, "formula", "index arithmetic of `%s` differs from the spec\n      got  %s\n      want %s" % (fn, json.dumps(got), json.dumps(want)), prog.bodies[fn].where())
    # constants agree
    consts = {k: prog.const_scalar(k) for k in (D + "alpha16::aw_map::TPC_ANODE_WIRES", D + "padwing::map::TPC_PAD_COLUMNS",
                                                "alpha_g_physics::matching::WIRES_PER_COLUMN", "alpha_g_physics::matching::WIRE_SHIFT",
                                                D + "padwing::map::PWB_PAD_COLUMNS", D + "padwing::map::PWB_PAD_ROWS",
                                                D + "padwing::map::TPC_PWB_COLUMNS", D + "padwing::map::TPC_PWB_ROWS")}
    w, c = consts[D + "alpha16::aw_map::TPC_ANODE_WIRES"], consts[D + "padwing::map::TPC_PAD_COLUMNS"]
    okc = (w == 256 and c == 32 and consts["alpha_g_physics::matching::WIRES_PER_COLUMN"] * c == w
           and consts[D + "padwing::map::PWB_PAD_COLUMNS"] * consts[D + "padwing::map::TPC_PWB_COLUMNS"] == c
           and consts[D + "padwing::map::PWB_PAD_ROWS"] * consts[D + "padwing::map::TPC_PWB_ROWS"] * c == 18432)
    if okc:
        res.hit(R5)
    else:
        res.violate(R5, "constants", "geometry", "geometry constants disagree: %s" % consts, "")
    identity_impls(prog, res)
    # ------------------------------------------------------------------ R6: the pad map inside one PWB is a bijection
    R6 = res.rule("C08.R6", "INV_PADS_0: (chip 0..=3, channel 1..=72) -> (pad column 0..=3, pad row 0..=71) is keyed by the loop variables, "
                  "total, injective and onto (the loop body's path formulas evaluated over the 4 x 72 iteration domain)", 288)
    from .. import audited, finite
    from .common import int_conversion_ranges, ranges_of
    STATIC = D + "padwing::map::INV_PADS_0"
    ib = audited.lazy_init_body(prog, STATIC)
    if ib is None:
        res.violate(R6, STATIC, "initialiser", "lazy initialiser of INV_PADS_0 not found", "", kind="anchor-missing")
    else:
        res.functions.add(ib.path)
        r = finite.nested_loop_table(prog, ib)
        if r[0] is None or r[1]:
            res.violate(R6, STATIC, "evaluate", "the initialiser is not a two-level constant-range loop nest with one insert whose key/value formulas can be evaluated: %s" % (r[1][:2],), ib.where())
        else:
            table, _, convs, (olo, ohi, ilo, ihi) = r
            bad = []
            # conversions of the value accept what they are given (no unwrap panic in the initialiser)
            acc = []
            for cv in convs["key"] + convs["value"]:
                if cv in prog.bodies:
                    cb = prog.bodies[cv]
                    cty = cb.locals[1]["ty"]
                    hi_ = min((1 << cty["w"]) - 1, 65535) if cty.get("k") == "int" else 255
                    acc.append(int_conversion_ranges(prog, cv, 0, hi_)[0])
                else:
                    acc.append(None)
            seen = {}
            for (i, j), (kv, vv) in sorted(table.items()):
                if kv != (i, j):
                    bad.append(("key:%d,%d" % (i, j), "entry built in iteration (%d, %d) is stored under key %s" % (i, j, kv)))
                    continue
                vals = list(kv) + list(vv)
                if any(a is not None and x not in a for a, x in zip(acc, vals)):
                    bad.append(("range:%d,%d" % (i, j), "iteration (%d, %d) passes a value outside a conversion's accepted range (%s): the initialiser panics" % (i, j, vals)))
                    continue
                if vv in seen:
                    bad.append(("collision:%d,%d" % (i, j), "(chip %d, channel %d) and (chip %d, channel %d) map to the same pad %s" % (seen[vv] + (i, j) + (vv,))))
                    continue
                seen[vv] = (i, j)
                res.hit(R6)
            want = set((c_, r_) for c_ in range(consts[D + "padwing::map::PWB_PAD_COLUMNS"]) for r_ in range(consts[D + "padwing::map::PWB_PAD_ROWS"]))
            if not bad and set(seen) != want:
                miss = sorted(want - set(seen))[:3]
                bad.append(("onto", "pads %s of a PWB are assigned to no (chip, channel)" % (miss,)))
            if (olo, ohi, ilo, ihi) != (0, 3, 1, 72):
                bad.append(("domain", "iteration domain is chips %d..=%d x channels %d..=%d" % (olo, ohi, ilo, ihi)))
            for k_, what in bad[:6]:
                res.violate(R6, STATIC, k_, what, ib.where())
    res.undecided = ["numerical phi values",
                     "whether each run-number threshold is the physically right one (no oracle in the repository other than the constants themselves)"]


def identity_impls(prog, res):
    """C08.R7: equality, hashing and ordering of the detector crate's identity types are structural.  "Distinct names denote
    distinct channels" is decided by the tables and parsers above on the VALUES they build; it reaches the user through
    `==`, `HashMap` keys and sorting, i.e. through these impls.  A `#[derive]`d impl (body from macro expansion) compares
    every field; a hand-written one is accepted when it calls nothing but comparison / hashing (trait methods of PartialEq, Ord,
    PartialOrd, Hash, Hasher, Ordering) on projections of its arguments, and reported otherwise (a helper between the fields and the comparison would have to be shown injective)."""
    R7 = res.rule("C08.R7", "identity types: PartialEq / Hash / Ord / PartialOrd impls are derived or call only std comparison/hashing on their fields", 30)
    TRAITS = ("std::cmp::PartialEq", "std::hash::Hash", "std::cmp::Ord", "std::cmp::PartialOrd")
    from ..facts import callee_of
    for p_, b in sorted(prog.bodies.items()):
        if b.kind != "AssocFn" or b.j.get("impl_trait") not in TRAITS or not (b.j.get("impl_self_s") or "").startswith("alpha_g_detector::"):
            continue
        if b.j.get("name") not in ("eq", "ne", "hash", "cmp", "partial_cmp"):
            continue
        res.functions.add(p_)
        if (b.j.get("span") or {}).get("exp"):
            res.oblige(True, "table")
            res.hit(R7)
            continue
        foreign = sorted(set(c for c in (callee_of(t) for _, t in b.calls()) if c and not any(k in c for k in ("cmp::PartialEq", "cmp::Ord", "cmp::PartialOrd", "hash::Hash", "hash::Hasher", "cmp::Ordering", "Option::<T>::then", "mem::discriminant"))))
        res.oblige(not foreign, "table")
        if foreign:
            res.violate(R7, p_, "non-structural:" + foreign[0].split("::")[-1],
                        "hand-written %s of the identity type %s goes through %s instead of comparing the fields themselves: distinct values may compare / hash equal"
                        % (b.j.get("impl_trait"), b.j.get("impl_self_s"), foreign), b.where())
        else:
            res.hit(R7)
