"""C01 — raw-data decoders are total: every panic obligation in the detector crate is discharged."""
from .. import audited, oblig, panicfree
from ..terms import short

LEVEL = "proof"

FIFO = "alpha_g_detector::chronobox::chronobox_fifo"
PAD_NEW = "alpha_g_detector::padwing::map::PwbPadPosition::try_new"
INV_PADS = "alpha_g_detector::padwing::map::INV_PADS_0"


def scope_of(prog):
    indep = audited.input_independent(prog)
    bodies, census = [], []
    for p, b in sorted(prog.bodies.items()):
        if b.crate != "alpha_g_detector" or "promoted[" in p:
            continue
        if panicfree.is_derive_or_fmt(b):
            continue
        if p in indep:
            census.append(p)
            continue
        if p in getattr(prog, "inlined", {}):
            # a new private helper: its code is analysed where it was expanded, with the callers' guards in force
            census.append(p)
            continue
        bodies.append(p)
    return panicfree.Scope(prog, bodies, census)


def audited_rules(prog):
    def fifo(ctx, o):
        return audited.fifo_total(prog)

    def pads(ctx, o):
        # the unwrapped value is INV_PADS_0.get(&(after_id, pad_channel_id)) with the two parameters as the key
        t = oblig.unmut(ctx.an.terms.operand(o.call["args"][0]))
        nm = ctx.sy.name(t)
        want = "HashMap::<K, V, S, A>::get(<%s as std::ops::Deref>::deref(" % INV_PADS
        if not nm.startswith(want) or not nm.endswith(",tuple{arg2,arg3})"):
            return False, "lookup is not INV_PADS_0.get(&(after_id, pad_channel_id)): %s" % nm[:120]
        return audited.full_key_cover(prog, INV_PADS)
    return [
        {"name": "fifo-total", "fn": FIFO, "kind": "call", "desc": "Result::<T, E>::unwrap", "check": fifo},
        {"name": "full-key-cover", "fn": PAD_NEW, "kind": "call", "desc": "Option::<T>::unwrap", "check": pads},
    ]


def run(prog, tier, res):
    res.explanation = ("Every MIR body of the detector crate except derive/fmt impls and lazy_static initialisers (decoders, id conversions, "
                       "bank-name parsers, map lookups, accessors, closures). Obligations = every MIR Assert (bounds, overflow, division), every call "
                       "to a std function with a documented panic condition, every explicit panic, every loop. Each is discharged from the guard "
                       "atoms on dominating edges (or on every acyclic path to the site), symbol ranges, type invariants from the constructor "
                       "census, and exact linear arithmetic; anything else is a violation. The dev-profile MIR carries the overflow Asserts, so "
                       "the verdict covers the unchecked build as well. Inputs are unconstrained (any length, any bytes, any string).")
    R1 = res.rule("C01.R1", "MIR Assert (index bounds, integer overflow, division by zero) proved from dominating guards", 60)
    R2 = res.rule("C01.R2", "std call with a panic condition (unwrap/expect, Index, copy_from_slice, chunks_exact, from_str_radix, sum, with_capacity, operator traits) proved", 100)
    R3 = res.rule("C01.R3", "explicit panic!/unreachable! sites are unreachable (contradictory guards on every path)", 1)
    R4 = res.rule("C01.R4", "every loop has a termination class (iterator over a finite source; audited clears-top-bit)", 6)
    R5 = res.rule("C01.R5", "every external callee has a panic rule or an audited-total entry", 60)
    R6 = res.rule("C01.R6", "entry floor: TryFrom impls and decoders present in the analysed scope", 40)
    R7 = res.rule("C01.R7", "premises of the audited implications re-checked", 3)
    sc = scope_of(prog)
    if tier == "thorough":
        # deeper path enumeration, and a verdict census of the lazy_static initialisers (reported, not obligations)
        oblig.PATH_LIMIT[0] = 4096
        census = {}
        for p in sc.census_only:
            try:
                ctx = oblig.Ctx(prog, prog.bodies[p])
                for o in oblig.collect(ctx):
                    oblig.discharge(ctx, o)
                    census.setdefault(short(p), {}).setdefault(o.verdict, 0)
                    census[short(p)][o.verdict] += 1
            except RecursionError:
                census[short(p)] = {"analysis": "recursion limit"}
        res.extra["lazy_init_census"] = census
    rules = {"assert": R1, "call": R2, "panic": R3, "loop": R4, "callee": R5}
    opens, used = panicfree.run_scope(prog, res, sc, rules, audited_rules(prog))
    # entries
    n = 0
    for p in sc.bodies:
        b = prog.bodies[p]
        if (b.j.get("impl_trait") or "").startswith("std::convert::TryFrom") and b.kind == "AssocFn":
            n += 1
    res.hit(R6, n)
    for must in (FIFO, "alpha_g_detector::padwing::suppression_baseline", PAD_NEW, "alpha_g_detector::alpha16::aw_map::TpcWirePosition::try_new",
                 "alpha_g_detector::padwing::map::TpcPadPosition::try_new"):
        if must not in sc.bodies:
            res.violate(R6, must, "entry", "decoder entry %s is not in the analysed scope" % must, kind="anchor-missing")
    # audited implications: each one that was needed had its premises checked (they would be OPEN otherwise)
    for k in sorted(used):
        res.hit(R7)
    if tier == "thorough":
        # self-check of the engine on functions with a known verdict (scratch copy of /repo + selftest/controls)
        R8 = res.rule("C01.R8", "engine controls: every `*_panics` control function keeps an undischarged obligation (soundness of the obligation engine on adversarial idioms)", 30)
        from .. import controls
        n_c, unsound, weak = controls.run(quiet=True)
        res.hit(R8, n_c - len(unsound))
        for name in unsound:
            res.violate(R8, "selftest/controls/verif_controls.rs::" + name, "control", "the obligation engine discharged every obligation of `%s`, which can panic: the engine is unsound on this idiom" % name, "", kind="engine-unsound")
        res.extra["engine_controls"] = {"functions": n_c, "unsound": unsound, "imprecise": weak}
    res.trusted = ["rustc MIR (dev profile: overflow/bounds Asserts are explicit)",
                   "documented panic conditions of the std functions listed in oblig.CALL_RULES; audited-total list panicfree.TOTAL (%d entries)" % len(panicfree.TOTAL),
                   "allocation failure is outside the property"] + \
                  ["audited implication `%s`: %s" % (k, audited.STATEMENTS.get(k, "")) for k in sorted(used)]
    res.assumptions = ["lazy_static initialisers (%d bodies) run once on embedded tables and are exercised by the unit tests; their panic sites are not obligations" % len(sc.census_only),
                       "fmt::Display/Debug and derive impls are not decoders"]
    res.undecided = []
    for o in opens[:6]:
        res.sample({"open": "%s %s %s" % (o.where, o.desc, o.how[:160])})
    res.sample({"scope_bodies": len(sc.bodies), "tryfrom_impls": n})
