"""Generic helper: compare the path/value tables of functions with a spec file."""
import json

from .. import accept


def check_fn_tables(prog, res, rule, fns, alias=None, only_ok=False, quantified=False):
    """fns: {fn_path: expected table [[atoms, value], ...]}"""
    for fn, want in fns.items():
        if fn not in prog.bodies:
            res.violate(rule, fn, "missing", "function `%s` not found" % fn, "", kind="anchor-missing")
            continue
        got = [[a, v] for a, v in accept.ret_table(prog, fn, alias=alias, only_ok=only_ok, quantified=quantified)]
        res.functions.add(fn)
        if isinstance(want, dict):
            # {"default": V, "rows": [...]}: the rows with another value are listed; every remaining path returns V.
            # The paths of a function partition its inputs, so the default rows are the complement and need not be
            # spelled out (their spelling depends on the order of `&&` operands and of early returns).
            dflt = want["default"]
            other = [r for r in got if r[1] != dflt]
            if not any(r[1] == dflt for r in got):
                other = other + [[["<no path returns the default %s>" % dflt], dflt]]
            got, want = other, want["rows"]
        ok = got == want
        res.oblige(ok, "table")
        if ok:
            res.hit(rule)
        else:
            key, text = diff_tables(got, want)
            res.violate(rule, fn, "table:%s" % key[:220], "guards/values of `%s` differ from the spec: %s" % (fn.split("::")[-2] + "::" + fn.split("::")[-1], text),
                        prog.bodies[fn].where(), detail={"got": got, "want": want})


def _flat(rows):
    """rows are [guards, value]; values (and, for tables of tables, whole rows) may be structured: render as strings"""
    out = []
    for r in rows:
        if isinstance(r, list) and len(r) == 2 and isinstance(r[0], list) and all(isinstance(x, str) for x in r[0]):
            out.append([r[0], r[1] if isinstance(r[1], str) else json.dumps(r[1])])
        else:
            out.append([[], json.dumps(r)])
    return out


def diff_tables(got, want):
    got, want = _flat(got), _flat(want)
    gs = {json.dumps(r) for r in got}
    ws = {json.dumps(r) for r in want}
    extra = sorted(gs - ws)
    missing = sorted(ws - gs)
    if extra and missing:
        e = json.loads(extra[0])
        # closest wanted row
        best = min((json.loads(m) for m in missing), key=lambda m: len(set(m[0]) ^ set(e[0])) + (0 if m[1] == e[1] else 1))
        lack = sorted(set(best[0]) - set(e[0]))
        more = sorted(set(e[0]) - set(best[0]))
        parts = []
        if lack:
            parts.append("lacks guard(s) %s" % lack)
        if more:
            parts.append("has unexpected guard(s) %s" % more)
        if best[1] != e[1]:
            parts.append("computes `%s` where the spec has `%s`" % (first_diff(e[1], best[1])))
        vkey = "" if best[1] == e[1] else "=value:" + first_diff(e[1], best[1], 50)[0][1:]
        return ("-%s+%s%s" % ("|".join(lack), "|".join(more), vkey), "; ".join(parts))
    if extra:
        e = json.loads(extra[0])
        return ("extra:" + "|".join(e[0]), "unexpected path with guards %s returning %s" % (e[0], e[1][:200]))
    if missing:
        m = json.loads(missing[0])
        return ("missing:" + "|".join(m[0]), "no path with guards %s returning %s" % (m[0], m[1][:200]))
    return ("order", "same rows in a different order")


def first_diff(a, b, ctx=60):
    i = 0
    while i < min(len(a), len(b)) and a[i] == b[i]:
        i += 1
    lo = max(0, i - ctx // 2)
    return ("…" + a[lo:i + ctx], "…" + b[lo:i + ctx])
