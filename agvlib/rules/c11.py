"""C11 — Event results do not depend on bank order and are bit-for-bit reproducible."""
import re

from .. import pp, report
from ..facts import AnchorMissing
from ..guards import analysis, truth_of, option_test
from ..sym import Sym, atom_str
from ..terms import strip, short, cname, unmut, walk

LEVEL = "other"
ME = "alpha_g_physics::MainEvent"
FN = ME + "::try_from_banks"
ENTRIES = [FN, ME + "::timestamp", ME + "::avalanches", ME + "::vertex",
           "<alpha_g_physics::SpacePoint as std::convert::TryFrom<alpha_g_physics::Avalanche>>::try_from"]

HASH_RE = re.compile(r"HashMap|HashSet|hash_map::|hash_set::|hash::map|hash::set")
ITER_METHODS = {"IntoIterator::into_iter", "iter", "iter_mut", "keys", "values", "values_mut", "into_keys", "into_values", "drain", "retain"}
ADAPTERS = {"Iterator::map", "Iterator::filter", "Iterator::filter_map", "Iterator::enumerate", "Iterator::cloned", "Iterator::copied",
            "Iterator::by_ref", "Iterator::inspect", "Iterator::flat_map", "Iterator::chain", "Iterator::zip", "IntoIterator::into_iter"}
COMMUTATIVE_SINKS = {"Iterator::count", "Iterator::any", "Iterator::all", "ExactSizeIterator::len"}
UNORDERED_COLLECTIONS = ("HashMap", "HashSet", "BTreeMap", "BTreeSet")
NONDET = [("rand", re.compile(r"^(rand|rand_core|rand_chacha|fastrand|getrandom)::")),
          ("time", re.compile(r"^std::time::|^core::time::|^chrono::|^time::")),
          ("thread", re.compile(r"^std::thread::")),
          ("env", re.compile(r"^std::env::")),
          ("hasher", re.compile(r"RandomState::new|DefaultHasher::new|hash_map::RandomState")),
          ("process", re.compile(r"^std::process::id"))]


def is_hash_iteration(t):
    r = (t.get("resolved") or "") + " " + (t.get("callee") or "")
    s = short(cname(t))
    meth = s.split("::")[-1]
    ga = " ".join(pp.ty(g) for g in (t.get("gargs") or []))
    if s == "IntoIterator::into_iter":
        # by-value / by-ref iteration of a hash container (the receiver type is the first generic argument)
        first = pp.ty((t.get("gargs") or [{"k": "other", "s": ""}])[0])
        return bool(re.search(r"(^|[ &<(])(std::collections::)?(HashMap|HashSet)<", first)) and "IntoIter" not in r.split(" ")[0][:40] or \
            ("HashMap<K, V, S" in r and "IntoIterator" in r) or ("HashSet<T, S" in r and "IntoIterator" in r)
    if meth in ITER_METHODS and re.search(r"std::collections::(HashMap|HashSet)::<", r):
        return True
    return False


def run(prog, tier, res):
    res.explanation = ("Every iteration over a std HashMap/HashSet in the workspace is located by resolved receiver type and "
                       "classified by what consumes it (commutative sink vs order-leaking sink); the bank loop's accumulators "
                       "must be test-and-set on the same slot with no path that passes the test but skips the set; no "
                       "nondeterminism source is called in the event closure; faer kernels run with Parallelism::None.")
    res.trusted = ["bit-for-bit reproducibility of floating point given identical operation order (hardware / libm)",
                   "C04's rules (imported as premises) for the order-independence of chunk reassembly"]
    R1 = res.rule("C11.R1", "every HashMap/HashSet iteration feeds a commutative sink (keyed collection, count/any/all, slot-guarded stores + early Err)", 3)
    R2 = res.rule("C11.R2", "bank loop accumulators are test-and-set on one slot: duplicate => Err, the set cannot be skipped after the test, same index in test and set", 2)
    R3 = res.rule("C11.R3", "no call to a nondeterminism source (rand/time/thread/env/hasher state/pointer-to-int) in the event closure; self-check of the matcher", 6)
    R4 = res.rule("C11.R4", "premise: chunk reassembly is order independent (C04.R1-R6 hold)", 1)
    R5 = res.rule("C11.R5", "every faer kernel call in the event closure passes Parallelism::None", 1)

    scope = prog.closure(ENTRIES) if tier == "quick" else set(p for p, b in prog.bodies.items() if b.crate in ("alpha_g_detector", "alpha_g_physics", "alpha_g_analysis", "alpha_g_vertices", "alpha_g_trg_scalers", "alpha_g_chronobox_timestamps"))
    # lazy_static initialisers run once on embedded data but their HashMap iteration can still leak order
    # into a static: always include the calibration loaders
    scope |= set(p for p in prog.bodies if "complete_from_bytes" in p)
    for e in ENTRIES:
        if e not in prog.bodies:
            raise AnchorMissing("entry point not found: %s" % e)
    res.extra["bodies_in_scope"] = len(scope)

    # ------------------------------------------------------------------ R1
    sites = 0
    for p in sorted(scope):
        b = prog.bodies.get(p)
        if b is None:
            continue
        an = analysis(prog, b)
        for bb, t in b.calls():
            if not is_hash_iteration(t):
                continue
            sites += 1
            res.functions.add(p)
            verdict, why = classify_sink(prog, an, bb, t)
            res.oblige(verdict, "sink")
            if verdict:
                res.hit(R1)
                res.sample({"site": "%s bb%d" % (p, bb), "sink": why})
            else:
                res.violate(R1, p, "hash-iteration:%s" % why.split(":")[0], "iteration over a HashMap/HashSet (random order per process/thread) feeds an order-sensitive sink: %s" % why, b.where(bb))
    res.call_sites += sites
    res.extra["hash_iteration_sites"] = sites

    # ------------------------------------------------------------------ R2
    b = prog.body(FN)
    an = analysis(prog, b)
    sy = Sym(prog, an, slice_param=99)
    res.functions.add(FN)
    bank_loops = []
    for (tail, head) in b.back_edges():
        for bb in [head]:
            t = b.blocks[bb]["t"]
            if t["k"] == "call" and short(cname(t)) == "Iterator::next":
                it = unmut(an.terms.operand(t["args"][0]))
                while it[0] == "call" and short(it[1]) == "IntoIterator::into_iter" and len(it[2]) == 1:
                    it = unmut(it[2][0])
                # the loop that consumes the `banks` argument itself (not a loop over data derived from one of its items,
                # e.g. the sample loop of an inlined calibration helper)
                if it == ("param", 2) or (it[0] == "call" and it[2] and unmut(it[2][0]) == ("param", 2) and short(it[1]).startswith("Iterator::")):
                    bank_loops.append((tail, head))
    heads = sorted(set(h for _, h in bank_loops))
    if len(heads) != 1:
        raise AnchorMissing("cannot find the loop over the `banks` argument in %s" % FN)
    head = heads[0]
    loop = set()
    for (tail, h) in bank_loops:
        loop |= b.natural_loop(tail, h)
    check_test_and_set(prog, res, R2, b, an, sy, loop, head)

    # ------------------------------------------------------------------ R3
    n3 = 0
    for p in sorted(prog.closure(ENTRIES)):
        body = prog.bodies[p]
        for bb, t in body.calls():
            callee = (t.get("resolved") or t.get("callee") or "")
            for kind, rx in NONDET:
                if rx.search(callee):
                    # HashMap::new() legitimately creates a RandomState; only explicit uses count
                    n3 += 1
                    res.violate(R3, p, "nondet:%s:%s" % (kind, callee[:80]), "call to a nondeterminism source `%s` in the event closure" % callee, body.where(bb))
        for bi, si, s in body.stmts():
            if s["k"] == "assign" and s["rv"]["k"] == "cast" and "Expose" in s["rv"].get("ck", ""):
                res.violate(R3, p, "nondet:ptr2int", "pointer-to-integer cast in the event closure (addresses differ between runs)", body.where(bi))
    # self-check: the matcher must recognise one synthetic example per category
    controls = {"rand": "rand::rngs::ThreadRng::gen", "time": "std::time::Instant::now", "thread": "std::thread::current",
                "env": "std::env::var", "hasher": "std::collections::hash_map::RandomState::new", "process": "std::process::id"}
    for kind, rx in NONDET:
        if rx.search(controls[kind]):
            res.hit(R3)
        else:
            res.violate(R3, "-", "control:%s" % kind, "self-check: nondeterminism matcher does not recognise `%s`" % controls[kind], "")

    # ------------------------------------------------------------------ R4 premise
    from . import c04
    sub = report.Result("C04", "other")
    c04.run(prog, tier, sub)
    sub.check_floors()
    if sub.violations:
        for v in sub.violations[:5]:
            res.violate(R4, v.fn, "premise:%s:%s" % (v.rule, v.site), "premise of bank-order independence broken — %s" % v.what, v.where)
    else:
        res.hit(R4)

    # ------------------------------------------------------------------ R5
    nfaer = 0
    for p in sorted(prog.closure(ENTRIES)):
        body = prog.bodies[p]
        ban = None
        for bb, t in body.calls():
            callee = (t.get("resolved") or t.get("callee") or "")
            if not callee.startswith("faer_"):
                continue
            par_args = [i for i, g in enumerate(t["args"]) if "Parallelism" in pp.ty(arg_ty(body, g))]
            if not par_args:
                continue
            nfaer += 1
            ban = ban or analysis(prog, body)
            for i in par_args:
                a = strip(ban.terms.operand(t["args"][i]))
                ok = a[0] == "aggr" and a[1].endswith("Parallelism::None")
                res.oblige(ok, "parallelism")
                if ok:
                    res.hit(R5)
                else:
                    res.violate(R5, p, "parallelism:%s" % callee[:60], "faer kernel `%s` is not called with Parallelism::None (threaded reductions change the operation order)" % callee, body.where(bb))
    res.extra["faer_calls_with_parallelism_arg"] = nfaer
    res.undecided = ["bit-for-bit equality of floating-point results across threads/processes given identical operation order"]


def arg_ty(body, op):
    if op.get("k") in ("copy", "move"):
        p = op["p"]
        ty = body.locals[p["l"]]["ty"]
        for e in p["pr"]:
            if e["k"] == "field":
                ty = e["ty"]
            elif e["k"] == "deref" and ty.get("k") in ("ref", "ptr"):
                ty = ty["t"]
        return ty
    return op.get("ty", {"k": "other", "s": "?"})


# ---------------------------------------------------------------------- sinks
def consumers(an, local):
    """calls that take `local` (by move, copy or &mut) as an argument"""
    body = an.body
    out = []
    for bb, t in body.calls():
        for i, a in enumerate(t["args"]):
            term = an.terms.operand(a)
            x = term
            while x[0] in ("ref", "deref"):
                x = x[1]
            if x[0] == "mut" and x[1] == local:
                out.append((bb, t, i))
            elif a.get("k") in ("copy", "move") and a["p"]["l"] == local and not a["p"]["pr"]:
                out.append((bb, t, i))
    return out


def dest_local(t):
    d = t["dest"]
    return d["l"] if not d["pr"] else None


def classify_sink(prog, an, bb, t, depth=0):
    """(ok, description)"""
    body = an.body
    if depth > 8:
        return False, "adapter chain too deep"
    l = dest_local(t)
    if l is None:
        return False, "iterator stored into a projection"
    # follow plain moves of the iterator into other locals
    seen = {l}
    work = [l]
    cons = []
    while work:
        x = work.pop()
        cons += consumers(an, x)
        for bi, si, s in body.stmts():
            if s["k"] == "assign" and not s["p"]["pr"] and s["rv"]["k"] == "use" and s["rv"]["o"].get("k") in ("move", "copy") \
                    and s["rv"]["o"]["p"]["l"] == x and not s["rv"]["o"]["p"]["pr"] and s["p"]["l"] not in seen:
                seen.add(s["p"]["l"])
                work.append(s["p"]["l"])
    if not cons:
        # returned?
        if l == 0:
            return False, "escapes: the hash iterator is returned"
        return True, "unused"
    verdicts = []
    for (cb, ct, idx) in cons:
        s = short(cname(ct))
        if s in ADAPTERS and idx == 0:
            verdicts.append(classify_sink(prog, an, cb, ct, depth + 1))
            continue
        if s == "Iterator::collect":
            dl = dest_local(ct)
            tys = pp.ty(body.locals[dl]["ty"]) if dl is not None else "?"
            if any(u + "<" in tys for u in UNORDERED_COLLECTIONS):
                verdicts.append((True, "collect into %s" % re.sub(r"(?:[a-z_0-9]+::)+", "", tys)[:60]))
            else:
                verdicts.append((False, "collect: into order-preserving %s" % re.sub(r"(?:[a-z_0-9]+::)+", "", tys)[:60]))
            continue
        if s in COMMUTATIVE_SINKS:
            verdicts.append((True, s))
            continue
        if s in ("Iterator::sum", "Iterator::product", "Iterator::max", "Iterator::min"):
            dl = dest_local(ct)
            ty = body.locals[dl]["ty"] if dl is not None else {}
            if ty.get("k") == "int" or (ty.get("k") == "adt" and ty["p"].endswith("Option") and ty["a"] and ty["a"][0].get("k") == "int"):
                verdicts.append((True, "%s over integers" % s))
            else:
                verdicts.append((False, "%s: over non-integers (float accumulation / ties are order dependent)" % s))
            continue
        if s == "Iterator::next":
            verdicts.append(classify_loop(prog, an, cb))
            continue
        if s in ("Drop::drop", "mem::drop"):
            continue
        verdicts.append((False, "%s: order-sensitive or unknown consumer" % s))
    bad = [v for v in verdicts if not v[0]]
    if bad:
        return bad[0]
    return True, "; ".join(sorted(set(v[1] for v in verdicts))) or "dropped"


def classify_loop(prog, an, next_bb):
    """for-loop driven by Iterator::next at next_bb: the body may only (a) return Err, (b) store into
    array slots guarded by a test on the same slot whose other edge returns Err, (c) do keyed updates of
    other hash/btree maps."""
    body = an.body
    loops = [(tail, head) for (tail, head) in body.back_edges() if next_bb in body.natural_loop(tail, head)]
    if not loops:
        return False, "next: hash iterator advanced outside a loop (selection by position)"
    # innermost loop containing the call
    loop = min((body.natural_loop(t, h) for t, h in loops), key=len)
    head = min(((body.natural_loop(t, h), h) for t, h in loops), key=lambda x: len(x[0]))[1]
    sy = Sym(prog, an, slice_param=99)
    problems = []
    # slot stores: per written slot (same index expression) there must be a test-and-set marker -- a store guarded by a
    # test of the same slot of its own array whose other edge leaves with Err -- that cannot be skipped once the test
    # passed; the other stores to that slot may then be conditional.  (A data store that is itself the marker but is
    # skipped for some values leaves the slot unset: which of two colliding keys is rejected then depends on the
    # iteration order of the hash map.)
    stores = []
    for l in range(len(body.locals)):
        for (bi, si, st) in an.terms.defs.partial[l]:
            if si == "t" or st["k"] != "assign" or bi not in loop:
                continue
            if any(e["k"] == "index" for e in st["p"]["pr"]) and not any(e["k"] == "deref" for e in st["p"]["pr"]):
                stores.append((l, bi, st))
    by_index = {}
    for (l, bi, st) in stores:
        idx = tuple(sy.name(an.terms.local(e["l"])) for e in st["p"]["pr"] if e["k"] == "index")
        by_index.setdefault(idx, []).append((l, bi, st))
    for idx, group in sorted(by_index.items()):
        markers = [(l, bi, st) for (l, bi, st) in group if slot_store_guarded(an, sy, bi, st)[0]]
        tyname = pp.ty(body.locals[group[0][0]]["ty"])[:40]
        if not markers:
            problems.append("store into %s: %s" % (tyname, slot_store_guarded(an, sy, group[0][1], group[0][2])[1]))
        elif all(skippable(body, an, loop, head, l, bi) for (l, bi, st) in markers):
            problems.append("store into %s: after the duplicate test passes the slot can stay unset (a path reaches the next iteration without the store), so which of two "
                            "entries that map to the same slot is rejected depends on the iteration order" % tyname)
    defined_in_loop = set()
    for bi in loop:
        for s in body.blocks[bi]["s"]:
            if s["k"] == "assign" and not s["p"]["pr"]:
                defined_in_loop.add(s["p"]["l"])
        t = body.blocks[bi]["t"]
        if t["k"] == "call" and not t["dest"]["pr"]:
            defined_in_loop.add(t["dest"]["l"])
    # live-out scalars: locals assigned in the loop and read after it
    after = set()
    for bi in body.reachable():
        if bi not in loop:
            after.add(bi)
    for bi in loop:
        blk = body.blocks[bi]
        for si, s in enumerate(blk["s"]):
            if s["k"] != "assign":
                continue
            p = s["p"]
        t = blk["t"]
        if t["k"] == "call":
            s_ = short(cname(t))
            if s_ in ("Vec::<T, A>::push", "Vec::<T, A>::extend_from_slice", "Vec::<T, A>::append", "Extend::extend", "Vec::<T, A>::insert",
                      "String::push_str", "String::push", "VecDeque::<T, A>::push_back"):
                recv = an.terms.operand(t["args"][0])
                x = recv
                while x[0] in ("ref", "deref"):
                    x = x[1]
                if x[0] == "mut" and x[1] not in defined_in_loop:
                    problems.append("%s onto a sequence that outlives the loop" % s_)
                elif x[0] in ("param", "var"):
                    problems.append("%s onto a sequence that outlives the loop" % s_)
            if re.search(r"fmt::|io::Write|print", t.get("resolved") or t.get("callee") or ""):
                problems.append("formats/prints inside the loop")
            # an insertion-ordered map/set (IndexMap, IndexSet, Vec-backed maps) remembers the order in which keys first
            # arrive: filling one from a hash-ordered loop stores the hash order
            cfull = (t.get("resolved") or "") + " " + (t.get("callee") or "")
            if re.search(r"\bindexmap::|\bIndexMap\b|\bIndexSet\b|\bLinkedHashMap\b", cfull) and re.search(r"::(entry|insert|insert_full|extend|push|append|or_default|or_insert\w*)\b", cfull):
                problems.append("fills an insertion-ordered map (%s) inside the loop: its key order becomes the hash order" % s_)
    # float accumulators: whole assignments to float locals that are live across the back edge
    for l in range(len(body.locals)):
        if body.locals[l]["ty"].get("k") == "float":
            defs = [d for d in an.terms.defs.whole[l] if d[0] in loop]
            outside = [d for d in an.terms.defs.whole[l] if d[0] not in loop]
            if defs and outside:
                problems.append("float accumulator updated in the loop")
    if problems:
        return False, "for: " + "; ".join(sorted(set(problems)))
    return True, "for-loop: slot-guarded stores + early Err only"


def slot_store_guarded(an, sy, bb, stmt):
    """the store `arr[i..] = v` is dominated by a test of `arr[i..]` (is_some / bool) on the not-yet-set edge"""
    idx = [sy.name(an.terms.local(e["l"])) for e in stmt["p"]["pr"] if e["k"] == "index"]
    arr = stmt["p"]["l"]
    for (d, rel, vals) in an.atoms_at(bb):
        tr = truth_of(rel, vals)
        x = strip(d)
        inner = x
        ot = option_test(d, rel, vals)
        if ot is not None:
            if ot[1] != "none":
                continue
            inner = ot[0]
        elif x[0] == "index":
            if tr is not False:
                continue
        else:
            continue
        # inner = index(index(var arr, i), j) ...
        got_idx = []
        y = inner
        while y[0] == "index":
            got_idx.insert(0, sy.name(y[2]))
            y = strip(y[1])
        if y[0] in ("var", "mut") and y[1] == arr and got_idx == idx:
            return True, "guarded"
        if y[0] in ("var", "mut") and y[1] == arr:
            return False, "the duplicate test reads slot %s but the store writes slot %s" % (got_idx, idx)
    return False, "no test of the same slot dominates the store (last write wins: order dependent)"


def check_test_and_set(prog, res, rule, body, an, sy, loop, head):
    """For each accumulator written in the bank loop: Option accumulator or slot array must be test-and-set."""
    fn = body.path
    found = 0
    # (1) Option<..> accumulators assigned in the loop
    for l in range(len(body.locals)):
        ty = body.locals[l]["ty"]
        defs_in = [d for d in an.terms.defs.whole[l] if d[0] in loop]
        defs_out = [d for d in an.terms.defs.whole[l] if d[0] not in loop]
        if not defs_in or not defs_out:
            continue
        if ty.get("k") == "bool":
            vals = set()
            for (bi, si, x) in defs_in + defs_out:
                if si != "t" and x["k"] == "use" and x["o"].get("k") == "const" and isinstance(x["o"].get("v"), bool):
                    vals.add(x["o"]["v"])
                else:
                    vals.add("?")
            if "?" not in vals:
                continue   # drop flag
        if ty.get("k") == "adt" and ty["p"].endswith("Option"):
            found += 1
            for (bi, si, x) in defs_in:
                ok = False
                for (d, rel, vals) in an.atoms_at(bi):
                    ot = option_test(d, rel, vals)
                    if ot is not None and ot[1] == "none" and ot[0] in (("var", l), ("mut", l)):
                        ok = True
                res.oblige(ok, "test-and-set")
                if ok:
                    res.hit(rule)
                else:
                    res.violate(rule, fn, "accumulator:%s" % pp.ty(ty)[:40], "an Option accumulator is overwritten in the bank loop without `is_some() => Err` on the same accumulator: first/last bank wins, so the result depends on bank order", body.where(bi))
            continue
        if ty.get("k") in ("int", "float"):
            found += 1
            res.violate(rule, fn, "accumulator:%s" % pp.ty(ty), "a scalar accumulator is updated across bank-loop iterations", body.where(defs_in[0][0]))
    # (2) slot arrays stored in the loop
    stores = []
    for l in range(len(body.locals)):
        for (bi, si, st) in an.terms.defs.partial[l]:
            if si == "t" or st["k"] != "assign" or bi not in loop:
                continue
            if any(e["k"] == "index" for e in st["p"]["pr"]) and not any(e["k"] == "deref" for e in st["p"]["pr"]):
                stores.append((l, bi, st))
    by_index = {}
    for (l, bi, st) in stores:
        idx = tuple(sy.name(an.terms.local(e["l"])) for e in st["p"]["pr"] if e["k"] == "index")
        by_index.setdefault(idx, []).append((l, bi, st))
    for idx, group in by_index.items():
        found += 1
        # a marker store: guarded on its own array (test-and-set) ...
        markers = []
        for (l, bi, st) in group:
            ok, why = slot_store_guarded(an, sy, bi, st)
            if ok:
                markers.append((l, bi, st))
        if not markers:
            res.oblige(False)
            res.violate(rule, fn, "slot:%s" % "|".join(idx)[:120], "slot store in the bank loop without a duplicate test on the same slot of the same array (last bank wins: order dependent)", body.where(group[0][1]))
            continue
        # ... that cannot be skipped once the test passed: every path from the test's pass edge to the loop latch crosses the marker store
        good = False
        for (l, bi, st) in markers:
            if not skippable(body, an, loop, head, l, bi):
                good = True
        res.oblige(good, "test-and-set")
        if good:
            res.hit(rule)
        else:
            res.violate(rule, fn, "skip:%s" % "|".join(idx)[:120], "after the duplicate test passes, the slot can stay unset (a path reaches the next iteration without the store): whether a later duplicate is rejected then depends on bank order", body.where(markers[0][1]))
        # all other stores with this index must be dominated by the marker's test (same index by construction)
    # (3) keyed collections filled in the loop: `map.insert(k, v)` keeps the LAST value of a key, so which bank survives
    # depends on bank order — unless the returned previous value is tested (duplicate => Err)
    import re as _re
    for bb_, t_ in body.calls():
        if bb_ not in loop:
            continue
        s_ = short(cname(t_))
        if _re.search(r"(HashMap|BTreeMap|IndexMap|HashSet|BTreeSet|IndexSet)(::<[^>]*>)?::insert$", s_):
            d_ = t_.get("dest")
            tested = False
            if d_ is not None and not d_["pr"]:
                for b2 in body.reachable():
                    t2 = body.blocks[b2]["t"]
                    if t2["k"] == "switch":
                        for y in walk(an.terms.operand(t2["d"])):
                            if y[0] == "call" and y[3] == bb_:
                                tested = True
            if not tested:
                res.oblige(False)
                res.violate(rule, fn, "insert:%s" % s_[:60], "a keyed collection is filled with `insert` in the bank loop and the replaced value is not tested: for a repeated key the last bank wins, so the result depends on bank order", body.where(bb_))
    if found == 0:
        raise AnchorMissing("no accumulator found in the bank loop of %s" % fn)


def skippable(body, an, loop, head, arr, store_bb):
    """is there a path from the guarding test's pass edge to the loop header that avoids store_bb?"""
    # find the guarding edge: dominating edge whose discriminant reads arr
    for (s, t) in an.dominating_edges(store_bb):
        d = an.terms.operand(body.blocks[s]["t"]["d"])
        reads = any(x[0] in ("var", "mut") and x[1] == arr for x in walk(d))
        if not reads:
            continue
        # paths t ->* head inside the loop avoiding store_bb
        if t == store_bb:
            return False          # the pass edge leads straight into the block that stores
        seen = {t}
        st = [t]
        while st:
            b = st.pop()
            if b == head:
                return True
            for n in body.succ(b):
                if n in loop and n != store_bb and n not in seen:
                    seen.add(n)
                    st.append(n)
        return False
    return True
