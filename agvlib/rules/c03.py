"""C03 — PWB chunks are integrity-checked: both CRC-32C words bind every accepted byte."""
import re

from .. import accept
from ..facts import AnchorMissing
from ..guards import analysis, field_index
from ..sym import Sym, forward_paths, path_atoms, atom_str, Poly
from ..terms import strip, short, cname, show
from .common import check_lookup, int_conversion_ranges, ranges_of

LEVEL = "other"
CHUNK = "alpha_g_detector::padwing::Chunk"
FN = "<%s as std::convert::TryFrom<&[u8]>>::try_from" % CHUNK
HCRC = CHUNK + "::header_crc32c"
PCRC = CHUNK + "::payload_crc32c"


def parse_lin(s):
    """'L-4' / '16' / 'L' / 'le16@14 + 20' -> Poly over the names"""
    s = s.replace(" ", "")
    p = Poly()
    for m in re.finditer(r"([+-]?)([^+-]+)", s):
        sign = -1 if m.group(1) == "-" else 1
        tok = m.group(2)
        mm = re.match(r"^(\d+)\*(.+)$", tok)
        if re.match(r"^\d+$", tok):
            p = p + Poly.const(sign * int(tok))
        elif mm:
            p = p + Poly.sym(mm.group(2)).scale(sign * int(mm.group(1)))
        else:
            p = p + Poly.sym(tok).scale(sign)
    return p


def field_names_subst(prog, s):
    a = prog.adts[CHUNK]
    for i, f in enumerate(a["variants"][0]["fields"]):
        s = re.sub(r"arg1\.%d(?!\d)" % i, "arg1." + f["name"], s)
    return s


def run(prog, tier, res):
    spec = accept.load_spec("c03.json")
    res.explanation = ("Accept table of Chunk::try_from (all accept paths as sets of canonical guard atoms) compared "
                       "with the property's conditions; the CRC'd regions and compared words must tile [0,len); field "
                       "provenance vs the documented layout; header_crc32c()/payload_crc32c() re-encode the same bytes.")
    res.trusted = ["crc32c::crc32c is the CRC-32C of its argument (error-detection strength of the polynomial is not analysed)",
                   "spec table tables/spec/c03.json transcribed from the property statement"]
    R1 = res.rule("C03.R1", "CRC'd regions + compared CRC words tile [0,len): no accepted byte escapes a CRC", 4)
    R2 = res.rule("C03.R2", "accept predicate of Chunk::try_from equals the spec (length, alignment, ids, flags, length window, zero padding, both inverted CRCs)", 1)
    R3 = res.rule("C03.R3", "stored fields are the documented little-endian fields; stored + forced + CRC regions tile the input", 7)
    R4 = res.rule("C03.R4", "header_crc32c()/payload_crc32c() re-encode exactly the bytes the decoder checked", 3)

    tabs, an, sy = accept.accept_tables(prog, FN)
    body = an.body
    res.functions.add(FN)
    if len(tabs) != 1:
        raise AnchorMissing("expected one Ok site in %s" % FN)
    tb = tabs[0]
    want = accept.expand_spec(spec["accept"])
    accept.compare(res, R2, FN, body.where(tb.site), tb.paths, want)
    res.sample({"accept_paths": [sorted(p) for p in tb.paths]})

    # ---------------------------------------------------------------- R1: CRC tiling
    segs = []
    for p in tb.paths:
        for a in p:
            m = re.match(r"^cmp Eq (le32@(\S+)) not\(crc32c\(\[(.+)\.\.(.+)\)\)\)$", a)
            if m:
                word_at = parse_lin(m.group(2))
                segs.append((parse_lin(m.group(3)), parse_lin(m.group(4)), "crc-region"))
                segs.append((word_at, word_at + Poly.const(4), "crc-word"))
    segs = list({(str(a), str(b), k): (a, b, k) for a, b, k in segs}.values())
    ok = tiles(segs, Poly.const(0), Poly.sym("L"))
    if ok:
        res.hit(R1, len(segs))
    else:
        res.violate(R1, FN, "crc-tiling", "the CRC-32C'd regions and the compared CRC words %s do not tile [0, L): some accepted byte is not bound by a CRC (or a region overlaps)" % (
            sorted("[%s..%s)%s" % (a, b, k) for a, b, k in segs)), body.where(tb.site))

    # ---------------------------------------------------------------- R3: fields
    oks = an.ok_sites()
    st = strip(oks[0][1][2][0])
    adt = prog.adts[CHUNK]
    names = [f["name"] for f in adt["variants"][0]["fields"]]
    got = {}
    if st[0] != "aggr":
        raise AnchorMissing("Ok value is not a struct aggregate")
    for n, op in zip(names, st[2]):
        p = sy.poly(op)
        rp = sy.region_poly(op)
        got[n] = sy.rp_name(rp) if rp is not None else (str(p) if p is not None else sy.name(op))
    for n, w in spec["fields"].items():
        if got.get(n) == w:
            res.hit(R3)
        else:
            res.violate(R3, FN, "field:%s" % n, "field `%s` is decoded from %s, the documented layout says %s" % (n, got.get(n), w), body.where(oks[0][0]))
    for n in names:
        if n not in spec["fields"]:
            res.violate(R3, FN, "field-extra:%s" % n, "struct field `%s` is not in the spec" % n, body.where())
    # coverage: fields + length field + crc words + payload + padding tile [0, L)
    cov = []
    for n, w in spec["fields"].items():
        m = re.match(r"^(le|be)(\d+)@(.+)$", w) or re.match(r"^(u)(8)@(.+)$", w)
        if m and got.get(n) == w:
            a = parse_lin(m.group(3))
            cov.append((a, a + Poly.const(int(m.group(2)) // 8), n))
        m = re.match(r"^\[(.+)\.\.(.+)\)$", w)
        if m and got.get(n) == w:
            cov.append((parse_lin(m.group(1)), parse_lin(m.group(2)), n))
    cov.append((Poly.const(14), Poly.const(16), "payload length (stored as payload.len())"))
    for a, b, k in segs:
        if k == "crc-word":
            cov.append((a, b, k))
    for p in tb.paths:
        for a in p:
            m = re.match(r"^quant within \[(.+)\.\.(.+)\) elems\[\\x00\] True$", a)
            if m:
                cov.append((parse_lin(m.group(1)), parse_lin(m.group(2)), "zero padding"))
    cov = list({(str(a), str(b)): (a, b, k) for a, b, k in cov}.values())
    if not tiles(cov, Poly.const(0), Poly.sym("L")):
        res.violate(R3, FN, "byte-coverage", "stored fields, forced-zero padding and CRC words do not tile the input: %s" % sorted("[%s..%s) %s" % (a, b, k) for a, b, k in cov), body.where())

    # ---------------------------------------------------------------- R4: writer side
    hb = prog.body(HCRC)
    han = analysis(prog, hb)
    hsy = Sym(prog, han, slice_param=99)
    res.functions.add(HCRC)
    # the bytes handed to crc32c, whichever way the buffer is assembled (iterator chain or array filled in place)
    from .. import bytemap
    hbytes = None
    hret = [strip(t) for _, t in han.ret_assignments()]
    if len(hret) == 1 and hret[0][0] == "un" and hret[0][1] == "Not":
        c_ = strip(hret[0][2])
        if c_[0] == "call" and c_[1].endswith("crc32c::crc32c") and len(c_[2]) == 1:
            bs_ = bytemap.bytes_of(prog, han, hsy, c_[2][0])
            hbytes = field_names_subst(prog, bytemap.render(bs_)) if bs_ is not None else None
    if hbytes == spec["header_crc_bytes"]:
        res.hit(R4)
    else:
        res.violate(R4, HCRC, "header-writer", "header_crc32c() does not hash device_id|packet_sequence|channel_sequence|channel_id|flags|chunk_id|payload.len() as little-endian in the decoder's order: %s" % (
            hbytes or [field_names_subst(prog, hsy.name(t)) for _, t in han.ret_assignments()]), hb.where())
    pb = prog.body(PCRC)
    pan = analysis(prog, pb)
    psy = Sym(prog, pan, slice_param=99)
    res.functions.add(PCRC)
    takes = [(bb, t) for bb, t in pb.calls() if short(cname(t)) == "Iterator::take"]
    resizes = [(bb, t) for bb, t in pb.calls() if short(cname(t)) == "Vec::<T, A>::resize"]
    # the number of zero bytes appended, as a function of the payload length: evaluated for every length 0..256 from
    # the guard atoms and value polynomial of each path (the decoder's padding is (4 - len % 4) % 4).  The zeros are
    # appended by `take(padding)` of repeated zeros, or by `resize(len + padding, 0)` of a buffer that holds the payload.
    from ..finite import eval_poly
    from ..funeval import holds
    from ..sym import Poly as _Poly
    LEN = "len(arg1.%d)" % field_index(prog, "alpha_g_detector::padwing::Chunk", "payload")
    pad_bad = []
    per_path = []
    pad_sites = [(bb, t, 1, False) for bb, t in takes] + [(bb, t, 1, True) for bb, t in resizes]
    # third way: the CRC continued over a prefix of a constant zero buffer, `crc32c_append(crc32c(payload), &ZEROS[..p])`
    appends = [(bb, t) for bb, t in pb.calls() if cname(t).endswith("crc32c::crc32c_append")]
    append_pad = {}
    for bb, t in appends:
        a0 = strip(pan.terms.operand(t["args"][0]))
        a1 = strip(pan.terms.operand(t["args"][1]))
        while a1[0] == "cast" and "Unsize" in str(a1[1]):
            a1 = strip(a1[2])
        if a0[0] == "call" and a0[1].endswith("crc32c::crc32c") and len(a0[2]) == 1 and field_names_subst(prog, psy.name(a0[2][0])) == "arg1.payload" \
                and a1[0] == "call" and short(a1[1]) == "Index::index" and len(a1[2]) == 2:
            zb = psy.ev.byte_array(a1[2][0])
            rg = strip(a1[2][1])
            if zb is not None and all(all(b_ == 0 for b_ in byte) for byte in zb) and rg[0] == "aggr" and rg[1].endswith("RangeTo::RangeTo") and len(rg[2]) == 1:
                append_pad[bb] = (rg[2][0], len(zb))
                pad_sites.append((bb, t, None, False))
    for bb, t, ai, is_resize in pad_sites:
        for path in forward_paths(pan, bb) or [([], [0])]:
            ats = path_atoms(psy, path)
            psy.set_path(path[1])
            v = psy.poly(pan.terms.operand(t["args"][ai])) if ai is not None else psy.poly(append_pad[bb][0])
            fill = strip(pan.terms.operand(t["args"][2])) if is_resize else ("const", 0)
            psy.set_path(None)
            if is_resize and v is not None:
                v = v - _Poly.sym(LEN)          # new length minus the payload already in the buffer (checked below)
            if not (fill[0] == "const" and fill[1] == 0):
                v = None
            per_path.append((ats, v))
    if len(pad_sites) != 1 or not per_path or any(v is None for _, v in per_path):
        pad_bad.append("no single `take(padding)` of repeated zeros / `resize(len + padding, 0)` with an integer count")
    else:
        for n in range(0, 257):
            env = {LEN: n}
            vals = []
            for ats, v in per_path:
                h = holds(psy, ats, env)
                if h is None:
                    vals = None
                    break
                if h:
                    vals.append(eval_poly(psy, v, env))
            if not vals or any(x is None for x in vals) or len(set(vals)) != 1:
                pad_bad.append("cannot evaluate the padding for a payload of %d bytes" % n)
                break
            if vals[0] != (4 - n % 4) % 4:
                pad_bad.append("a payload of %d bytes is padded with %s zero bytes, the decoder expects %d" % (n, vals[0], (4 - n % 4) % 4))
                break
    if not pad_bad:
        res.hit(R4)
    else:
        res.violate(R4, PCRC, "padding", "payload_crc32c(): %s" % pad_bad[0], pb.where())
    prets = [field_names_subst(prog, psy.name(t)) for _, t in pan.ret_assignments()]
    pw_ok = len(prets) == 1 and prets[0].startswith("not(crc32c::crc32c(Iterator::collect(Iterator::chain(arg1.payload,Iterator::take(iter::repeat(0),")
    if not pw_ok and len(prets) == 1 and len(append_pad) == 1 and len(appends) == 1:
        # !crc32c_append(crc32c(payload), &ZEROS[..p]): the CRC of payload ++ p zero bytes (p checked above, p <= len(ZEROS)
        # by the finite evaluation: a longer prefix would have been reported as a wrong padding)
        rt_ = [strip(t_) for _, t_ in pan.ret_assignments()]
        pw_ok = len(rt_) == 1 and rt_[0][0] == "un" and rt_[0][1] == "Not" and strip(rt_[0][2])[0] == "call" and strip(rt_[0][2])[3] == appends[0][0]
    if not pw_ok and len(prets) == 1:
        # a buffer filled in place: the hashed value is one local Vec<u8>, and the calls that take it mutably are, in
        # dominance order, [payload copy] then [zero padding]:
        #   init = payload.clone()                      + extend(repeat(0).take(p))
        #   init = Vec::new() / with_capacity(..)       + extend_from_slice(payload) / extend(payload)  + extend(take) / resize
        pw_ok = buffer_writer_ok(prog, pb, pan, psy)
    if pw_ok:
        res.hit(R4)
    else:
        res.violate(R4, PCRC, "payload-writer", "payload_crc32c() is not !crc32c(payload ++ zero padding): %s" % prets, pb.where())
    R5 = res.rule("C03.R5", "device-id / chip-id conversions are total lookups (whole value compared; chip 0..=3)", 2)
    check_lookup(prog, res, R5, "<alpha_g_detector::padwing::BoardId as std::convert::TryFrom<u32>>::try_from",
                 "alpha_g_detector::padwing::PADWING_BOARDS", 2, 3)
    AFN = "<alpha_g_detector::padwing::AfterId as std::convert::TryFrom<u8>>::try_from"
    allowed, stored, unknown = int_conversion_ranges(prog, AFN)
    res.functions.add(AFN)
    if ranges_of(allowed) == [[0, 3]] and not unknown:
        res.hit(R5)
    else:
        res.violate(R5, AFN, "range", "chip-id conversion accepts %s, the property says chips 0..=3" % ranges_of(allowed), prog.bodies[AFN].where())
    res.undecided = ["CRC-32C detecting all 1-3 bit errors and bursts <= 32 is a property of the polynomial (trusted)"]


def buffer_writer_ok(prog, pb, pan, psy):
    rets = [strip(t) for _, t in pan.ret_assignments()]
    if not (len(rets) == 1 and rets[0][0] == "un" and rets[0][1] == "Not"):
        return False
    c_ = strip(rets[0][2])
    if not (c_[0] == "call" and c_[1].endswith("crc32c::crc32c") and len(c_[2]) == 1):
        return False
    crc_bb = c_[3] if isinstance(c_[3], int) else None
    buf = c_[2][0]
    while True:
        if buf[0] in ("ref", "deref"):
            buf = buf[1]
        elif buf[0] == "call" and short(buf[1]) in ("Deref::deref", "Vec::<T, A>::as_slice", "AsRef::as_ref") and len(buf[2]) == 1:
            buf = buf[2][0]
        elif buf[0] == "call" and short(buf[1]) == "Index::index" and len(buf[2]) == 2 and strip(buf[2][1])[0] == "aggr" and strip(buf[2][1])[1].endswith("RangeFull::RangeFull"):
            buf = buf[2][0]
        else:
            break
    if buf[0] != "mut":
        return False
    l, init = buf[1], strip(buf[2])
    init_nm = field_names_subst(prog, psy.name(init))
    muts = []
    for bb_, t_ in pb.calls():
        if not t_["args"]:
            continue
        a0 = pan.terms.operand(t_["args"][0])
        x = a0
        while x[0] in ("ref", "deref"):
            x = x[1]
        if x[0] == "mut" and x[1] == l and a0[0] == "ref":
            s_ = short(cname(t_))
            if s_ in ("Deref::deref", "Vec::<T, A>::as_slice", "Vec::<T, A>::len", "crc32c::crc32c", "Index::index"):
                continue
            muts.append((bb_, s_, [field_names_subst(prog, psy.name(pan.terms.operand(a))) for a in t_["args"][1:]]))
    # a total order by dominance, all before the hash
    for i in range(len(muts) - 1):
        if not pb.dominates(muts[i][0], muts[i + 1][0]):
            return False
    if crc_bb is not None and muts and not pb.dominates(muts[-1][0], crc_bb):
        return False

    def is_payload_copy(m):
        return (m[1] in ("Vec::<T, A>::extend_from_slice",) and m[2] == ["arg1.payload"]) or \
               (m[1] in ("Extend::extend", "Vec::<T, A>::extend") and m[2] and m[2][0] in ("arg1.payload", "<impl [T]>::iter(arg1.payload)"))

    def is_zero_pad(m):
        return (m[1] in ("Extend::extend", "Vec::<T, A>::extend") and m[2] and m[2][0].startswith("Iterator::take(iter::repeat(0),")) or \
               (m[1] == "Vec::<T, A>::resize" and len(m[2]) == 2 and m[2][1] == "0")
    if init_nm == "arg1.payload":
        return len(muts) == 1 and is_zero_pad(muts[0])
    if init[0] == "call" and short(init[1]) in ("Vec::<T>::new", "Vec::<T>::with_capacity"):
        return len(muts) == 2 and is_payload_copy(muts[0]) and is_zero_pad(muts[1])
    return False


def tiles(segs, start, end):
    """segments (a, b, _) with polynomial bounds chain from start to end without gap or overlap"""
    cur = start
    left = list(segs)
    guard = 0
    while str(cur) != str(end) and guard < 100:
        guard += 1
        nxt = [s for s in left if str(s[0]) == str(cur)]
        if len(nxt) != 1:
            return False
        left.remove(nxt[0])
        cur = nxt[0][1]
    return str(cur) == str(end) and not left
