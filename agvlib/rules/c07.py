"""C07 — Chronobox FIFO parsing: the winnow grammar reconstructed from resolved MIR.

The parser is a combinator expression; its behaviour is the library's contract applied to a
*grammar* that is read off statically: each parser function is a dominance-ordered sequence of
`Parser::parse_next` calls whose receiver terms spell the combinator tree.
"""
import re

from .. import accept, pp
from ..facts import AnchorMissing
from ..guards import analysis, closure_info, closure_ret, subst_upvars, as_cmp, truth_of
from ..sym import Sym
from ..terms import strip, short, cname, unmut, show
from .common import int_conversion_ranges, ranges_of
from .. import bitsem

LEVEL = "other"
M = "alpha_g_detector::chronobox::"
ENTRY = M + "chronobox_fifo"

LEAVES = {"winnow::binary::le_u24": ("le_u24", 3), "winnow::binary::le_u32": ("le_u32", 4), "winnow::binary::u8": ("u8", 1),
          "winnow::combinator::empty": ("empty", 0), "winnow::binary::le_u16": ("le_u16", 2), "winnow::binary::le_u64": ("le_u64", 8),
          "winnow::binary::be_u16": ("be_u16", 2), "winnow::binary::be_u32": ("be_u32", 4)}
# combinators that only ever produce ErrMode::Backtrack on a complete stream and restore the checkpoint
BACKTRACKING = {"alt", "repeat", "separated_foldl1", "value", "verify", "try_map", "map", "void", "trace", "take", "seq",
                "lit", "leaf", "ref", "skip"}


class G:
    def __init__(self, kind, kids=(), **attr):
        self.kind = kind
        self.kids = list(kids)
        self.attr = attr

    def render(self):
        a = ""
        if self.attr:
            a = "[" + ",".join("%s=%s" % (k, self.attr[k]) for k in sorted(self.attr)) + "]"
        if self.kids:
            return "%s%s(%s)" % (self.kind, a, ", ".join(k.render() for k in self.kids))
        return "%s%s" % (self.kind, a)

    def walk(self):
        yield self
        for k in self.kids:
            yield from k.walk()


class Builder:
    def __init__(self, prog, res):
        self.prog = prog
        self.res = res
        self.fn_cache = {}
        self.stream_types = set()

    # -------------------------------------------------------------- function / closure bodies
    def body_grammar(self, path, captured=None, depth=0, parent=None):
        """Seq of the parse_next calls of a parser function or seq!-closure, in dominance order."""
        if depth > 12:
            return G("deep")
        # words parsed earlier that this body computes fields from: closure captures that are outputs of the parent's
        # parse calls (`temp` inside seq!{..}), or this body's own `parse_next(..)?` results
        self.words = {}
        self.cap_ctx = None
        if captured and parent:
            pan, pcalls = parent
            for j, c in enumerate(captured):
                w = self.which_call(pan, pcalls, c)
                if w != "?":
                    self.words[("cap", j)] = "^%s" % w
            # captures that are values the enclosing body computed from its parsed words (`let top = (temp >> 23) & 1 != 0;`
            # before the seq!): rendered in the enclosing body's context
            pwords = {("call", bb_): "^%d" % (i_ + 1) for i_, (bb_, _) in enumerate(pcalls)}
            self.cap_ctx = (pan, Sym(self.prog, pan, slice_param=99), list(captured), pwords)
        b = self.prog.bodies.get(path)
        if b is None:
            return G("unknown", name=path)
        self.res.functions.add(path)
        an = analysis(self.prog, b)
        sy = Sym(self.prog, an, slice_param=99)
        calls = [(bb, t) for bb, t in b.calls() if short(cname(t)) == "Parser::parse_next"]
        # order by dominance (each call dominates the next on the Ok path)
        order = b.rpo()
        calls.sort(key=lambda c: order.index(c[0]))
        kids = []
        names = {}
        words_here = dict(self.words)
        for i, (bb, t) in enumerate(calls):
            ga = t.get("gargs") or []
            if len(ga) >= 2:
                self.stream_types.add(pp.ty(ga[1]))
            pt = an.terms.operand(t["args"][0])
            self._parent = (an, calls)
            g = self.parser_grammar(an, sy, pt, captured, depth + 1)
            g.attr["#"] = i + 1
            kids.append(g)
        self.words = words_here
        for i, (bb, t) in enumerate(calls):
            self.words[("call", bb)] = "#%d" % (i + 1)
        # result construction: which parser output feeds which struct field
        out = None
        for bb, t in an.ok_sites():
            v = strip(t[2][0])
            if v[0] == "aggr" and v[1].startswith("adt:"):
                adt = v[1][4:].rsplit("::", 1)[0]
                a = self.prog.adts.get(adt)
                if a:
                    fnames = [f["name"] for f in a["variants"][0]["fields"]]
                    m = []
                    for fn_, op in zip(fnames, v[2]):
                        w = self.which_call(an, calls, op)
                        m.append("%s<-#%s" % (fn_, w) if w != "?" else "%s<-%s" % (fn_, self.value_name(an, sy, op)))
                    out = "%s{%s}" % (adt.split("::")[-1], ",".join(m))
        g = G("seq", kids)
        if out:
            g.attr["out"] = out
        else:
            oks_ = an.ok_sites()
            if oks_ and all(strip(t_[2][0]) == ("aggr", "tuple", ()) for _, t_ in oks_):
                g.attr["unit"] = 1
        # tail call form: `_0 = parse_next(..)` (no Ok aggregate)
        return g

    def which_call(self, an, calls, op):
        t = strip(op)
        if t[0] == "try":
            t = strip(t[1])
        if t[0] == "call":
            for i, (bb, _) in enumerate(calls):
                if t[3] == bb:
                    return str(i + 1)
        return "?"

    # -------------------------------------------------------------- parser terms
    def parser_grammar(self, an, sy, t, captured, depth):
        t = unmut(t)
        k = t[0]
        if k == "fn":
            p = t[1]
            if p in LEAVES:
                return G("leaf", name=LEAVES[p][0], w=LEAVES[p][1])
            if p in self.prog.bodies:
                return G("ref", [self.fn_grammar(p, depth)], name=p.split("::")[-1])
            return G("unknown", name=p)
        if k in ("bytes", "mem"):
            return G("lit", bytes="".join("%02x" % b for b in t[1]), w=len(t[1]))
        if k == "const" and isinstance(t[1], int):
            return G("lit", bytes="%02x" % t[1], w=1)
        if k == "cdef":
            # a named byte-string constant used as a literal parser: its evaluated bytes
            try:
                v = self.prog.const_lit(t[1])
                if isinstance(v, (bytes, bytearray, list)) and all(isinstance(b_, int) for b_ in v):
                    return G("lit", bytes="".join("%02x" % b_ for b_ in v), w=len(v))
            except Exception:
                pass
            return G("unknown", name="cdef:" + t[1])
        if k == "aggr" and t[1] == "tuple":
            return G("seq", [self.parser_grammar(an, sy, o, captured, depth + 1) for o in t[2]])
        if k == "aggr" and t[1].startswith("closure:"):
            ci = closure_info(self.prog, an, t)
            if ci:
                cb, cap = ci
                saved = self.words
                g_ = self.body_grammar(cb.path, cap, depth + 1, parent=getattr(self, "_parent", None))
                self.words = saved
                return g_
        if k == "call":
            s = short(t[1])
            a = t[2]
            if s == "combinator::trace":
                return self.parser_grammar(an, sy, a[1], captured, depth + 1)
            if s == "Parser::value":
                return G("value", [self.parser_grammar(an, sy, a[0], captured, depth + 1)], v=self.value_name(an, sy, a[1]))
            if s == "Parser::verify":
                return G("verify", [self.parser_grammar(an, sy, a[0], captured, depth + 1)], pred=self.closure_name(an, sy, a[1]))
            if s == "Parser::try_map":
                return G("try_map", [self.parser_grammar(an, sy, a[0], captured, depth + 1)], f=self.closure_name(an, sy, a[1]))
            if s == "Parser::map":
                f = strip(a[1])
                fname = f[1].split("::")[-2] + "::" + f[1].split("::")[-1] if f[0] == "fn" else self.closure_name(an, sy, a[1])
                return G("map", [self.parser_grammar(an, sy, a[0], captured, depth + 1)], f=fname)
            if s == "Parser::void":
                return G("void", [self.parser_grammar(an, sy, a[0], captured, depth + 1)])
            if s == "combinator::alt":
                inner = self.parser_grammar(an, sy, a[0], captured, depth + 1)
                return G("alt", inner.kids if inner.kind == "seq" else [inner])
            if s in ("token::literal", "token::tag") and len(a) == 1:
                lt = unmut(a[0])
                while lt[0] == "cast":
                    lt = unmut(lt[2])
                if lt[0] in ("bytes", "mem"):
                    return G("lit", bytes="".join("%02x" % b for b in lt[1]), w=len(lt[1]))
                if lt[0] == "cdef":
                    try:
                        v = self.prog.const_lit(lt[1])
                        if isinstance(v, (bytes, bytearray, list)) and all(isinstance(b, int) for b in v):
                            return G("lit", bytes="".join("%02x" % b for b in v), w=len(v))
                    except Exception:
                        pass
                return G("unknown", name=s)
            if s == "token::take":
                p = sy.poly(a[0])
                n = int(p.const_value()) if p is not None and p.is_const() else None
                return G("take", w=n)
            if s == "combinator::repeat":
                return G("repeat", [self.parser_grammar(an, sy, a[1], captured, depth + 1)], range=sy.name(a[0]))
            if s == "combinator::separated_foldl1":
                return G("separated_foldl1", [self.parser_grammar(an, sy, a[0], captured, depth + 1),
                                              self.parser_grammar(an, sy, a[1], captured, depth + 1)],
                         fold=self.fold_name(an, a[2]))
            return G("unknown", name=s)
        if k == "ref":
            return self.parser_grammar(an, sy, t[1], captured, depth)
        return G("unknown", name=show(t)[:60])

    def fn_grammar(self, path, depth):
        if path not in self.fn_cache:
            self.fn_cache[path] = G("pending")
            self.fn_cache[path] = self.body_grammar(path, None, depth)
        return self.fn_cache[path]

    TEMP = (("field", ("param", 1), 0), ("field", ("deref", ("param", 1)), 0))

    def word_of(self, x):
        """name of the previously parsed word a term denotes (`^1` = output #1 of the enclosing body, `#1` = of this body)"""
        x0 = x
        while x0[0] in ("ref", "deref"):
            if x0[0] == "deref" and x0[1] == ("param", 1):
                break
            x0 = x0[1]
        if x0[0] == "field" and x0[1] in (("param", 1), ("deref", ("param", 1))):
            return self.words.get(("cap", x0[2]))
        y = strip(x0)
        if y[0] == "try":
            y = strip(y[1])
        if y[0] == "call" and isinstance(y[3], int):
            return self.words.get(("call", y[3]))
        return None

    def sem(self, t, width=24):
        """semantic signature `<word>:<signature>` of a bit-level expression over one previously parsed 24-bit word, or None"""
        found = []
        sy_ = getattr(self, "_sy", None)

        def fold(x):
            """constant subterms (`(1 << TOP_BIT_SHIFT) - 1`) as literals"""
            if not isinstance(x, tuple) or not x or sy_ is None:
                return x
            if x[0] in ("bin", "cast", "cdef"):
                try:
                    px = sy_.poly(x)
                except Exception:
                    px = None
                if px is not None and px.is_const() and px.const_value() == int(px.const_value()) and px.const_value() >= 0:
                    return ("const", int(px.const_value()), "u64")
            if x[0] == "bin" and len(x) == 4:
                return (x[0], x[1], fold(x[2]), fold(x[3]))
            if x[0] == "cast":
                return (x[0], x[1], fold(x[2])) + tuple(x[3:])
            if x[0] == "un":
                return (x[0], x[1], fold(x[2]))
            return x
        t = fold(t)

        def is_var(x):
            w = self.word_of(x)
            if w is not None:
                found.append(w)
                return True
            return False
        sg = bitsem.signature(t, is_var, width)
        if sg is None or len(set(found)) != 1:
            return None
        return "%s:%s" % (found[0], sg)

    def capture_of(self, t0):
        x = t0
        while x[0] in ("ref", "deref") and x[1] != ("param", 1):
            x = x[1]
        if x[0] == "field" and x[1] in (("param", 1), ("deref", ("param", 1))):
            return x[2]
        return None

    def value_name(self, an, sy, t):
        t0 = strip(t)
        j = self.capture_of(t0)
        if j is not None and self.cap_ctx is not None and ("cap", j) not in self.words and j < len(self.cap_ctx[2]):
            pan, psy, caps, pwords = self.cap_ctx
            saved = (self.words, self.cap_ctx)
            self.words, self.cap_ctx = dict(pwords), None
            try:
                return self.value_name(pan, psy, caps[j])
            finally:
                self.words, self.cap_ctx = saved
        self._sy = sy
        if t0[0] == "var":
            # if c {A} else {B}: render both definitions with their guards
            outs = []
            for (bi, si, x) in an.terms.defs.whole[t0[1]]:
                val = an.terms.rvalue(x) if si != "t" else an.terms.call_term(x, bi)
                guards = []
                int_switch = []
                for (d, rel, vals) in an.atoms_at(bi):
                    # integer switch (`match temp & 1 { 0 => .., _ => .. }`): one equality per listed value
                    bt = sy.bin_type(d) if strip(d)[0] in ("bin", "cast") and as_cmp(strip(d), True) is None else None
                    if bt is not None and bt.get("k") == "int" and rel in ("in", "notin") and len(vals) == 1:
                        eq = ("bin", "Eq", d, ("const", int(next(iter(vals))), "u32"))
                        sg = self.sem(eq if rel == "in" else ("un", "Not", eq))
                        if sg is not None:
                            guards.append(sg)
                            int_switch.append(d)
                for (d, tr) in an.bool_atoms_at(bi):
                    if d in int_switch:
                        continue
                    sg = self.sem(d if tr else ("un", "Not", d))
                    if sg is not None:
                        guards.append(sg)
                        continue
                    c = as_cmp(d, tr)
                    if c:
                        guards.append("%s %s %s" % (self.expr(an, sy, c[1]), c[0], self.expr(an, sy, c[2])))
                outs.append("%s if %s" % (self.expr(an, sy, val), " and ".join(sorted(guards)) or "true"))
            return "{" + " | ".join(sorted(outs)) + "}"
        return self.expr(an, sy, t)

    def expr(self, an, sy, t):
        t = strip(t)
        self._sy = sy
        if t[0] == "aggr" and t[1].startswith("adt:") and not t[2]:
            return t[1].split("::")[-1]
        sg = self.sem(t)
        if sg is not None and not (t[0] == "const"):
            return sg
        c = as_cmp(t, True)
        if c:
            return "%s %s %s" % (self.expr(an, sy, c[1]), c[0], self.expr(an, sy, c[2]))
        p = sy.poly(t)
        s = str(p) if p is not None else sy.name(t)
        # the closure environment's first capture is the previously parsed word
        s = re.sub(r"arg1\.0\b", "temp", s)
        return s

    def closure_name(self, an, sy, t):
        ci = closure_info(self.prog, an, strip(t))
        if not ci:
            return "?"
        cb, cap = ci
        self.res.functions.add(cb.path)
        can = analysis(self.prog, cb)
        csy = Sym(self.prog, can, slice_param=99)
        rets = closure_ret(self.prog, cb)
        if len(rets) != 1:
            return "?%d" % len(rets)
        r = strip(rets[0])
        # one-argument closures over a small integer: semantic signature
        if cb.argc == 2:
            aty = cb.locals[2]["ty"]
            while aty.get("k") == "ref":
                aty = aty["t"]
            if aty.get("k") == "int" and aty["w"] <= 16:
                def is_arg(x):
                    while x[0] in ("ref", "deref"):
                        x = x[1]
                    return x == ("param", 2)
                sg = bitsem.signature(r, is_arg, aty["w"])
                if sg is not None:
                    return "x:" + sg
                if r[0] == "call" and len(r[2]) == 1 and r[1] in self.prog.bodies:
                    sg = bitsem.signature(r[2][0], is_arg, aty["w"])
                    if sg is not None:
                        return "%s(x:%s)" % (r[1], sg)
        c = as_cmp(r, True)

        def e(x):
            p = csy.poly(x)
            s = str(p) if p is not None else csy.name(x)
            return s.replace("arg2", "x")
        if c:
            return "%s %s %s" % (e(c[1]), c[0], e(c[2]))
        return e(r)

    def fold_name(self, an, t):
        ci = closure_info(self.prog, an, strip(t))
        off = 0
        if not ci:
            f0 = strip(t)
            if f0[0] == "fn" and f0[1] in self.prog.bodies:
                ci = (self.prog.bodies[f0[1]], [])       # `separated_foldl1(.., .., join_runs)`: a named function
                off = -1                                   # its parameters are (left, sep, right) = 1, 2, 3
            else:
                return "?"
        cb, cap = ci
        self.res.functions.add(cb.path)
        can = analysis(self.prog, cb)
        rets = [strip(x) for x in closure_ret(self.prog, cb)]
        apps = [(bb, tt) for bb, tt in cb.calls() if short(cname(tt)) == "Vec::<T, A>::append"]
        L_, R_ = ("param", 2 + off), ("param", 4 + off)
        # mutable borrows of the two vectors: only the ones the append / extend itself takes (a `mem::swap(&mut l, &mut r)`
        # or any other mutation before it changes which elements end up where)
        nmut = {L_[1]: 0, R_[1]: 0}
        for bi_, si_, st_ in cb.stmts():
            if st_["k"] == "assign" and st_["rv"]["k"] == "ref" and st_["rv"].get("m") and not st_["rv"]["p"]["pr"] and st_["rv"]["p"]["l"] in nmut:
                nmut[st_["rv"]["p"]["l"]] += 1
        if nmut[L_[1]] > 1 or nmut[R_[1]] > 1 or any(bb_ for bb_ in cb.reachable() if cb.blocks[bb_]["t"]["k"] == "switch"):
            return "other"
        if len(rets) == 1 and rets[0] == L_ and len(apps) == 1:
            a0 = unmut(can.terms.operand(apps[0][1]["args"][0]))
            a1 = unmut(can.terms.operand(apps[0][1]["args"][1]))
            if a0 == L_ and a1 == R_:
                return "append(left,right)->left"
        exts = [(bb, tt) for bb, tt in cb.calls() if short(cname(tt)) in ("Extend::extend", "Vec::<T, A>::extend")]
        if len(rets) == 1 and rets[0] == L_ and len(exts) == 1 and not apps:
            # `l.extend(r)` with the right vector by value: the same elements in the same order
            a0 = unmut(can.terms.operand(exts[0][1]["args"][0]))
            a1 = unmut(can.terms.operand(exts[0][1]["args"][1]))
            if a0 == L_ and a1 == R_:
                return "append(left,right)->left"
        return "other"


def width(g):
    k = g.kind
    if k in ("leaf", "lit", "take"):
        return g.attr.get("w")
    if k in ("value", "verify", "try_map", "map", "void", "ref"):
        return width(g.kids[0])
    if k == "seq":
        ws = [width(x) for x in g.kids]
        return None if any(w is None for w in ws) else sum(ws)
    if k == "alt":
        ws = [width(x) for x in g.kids]
        return ws[0] if ws and all(w == ws[0] and w is not None for w in ws) else None
    return None


def first_width(g):
    """minimal number of bytes an alternative consumes before it can succeed (progress)"""
    return width(g)


def run(prog, tier, res):
    spec = accept.load_spec("c07.json")
    res.explanation = ("The combinator tree of chronobox_fifo is reconstructed from resolved calls, fn-item arguments and "
                       "closure bodies and compared with the grammar stated by the property: widths (entries 4 bytes, "
                       "scaler block 244), masks and tag constants, channel range, field wiring, fold order, and that only "
                       "backtracking combinators on a complete &[u8] stream are used under separated_foldl1(repeat(0..)).")
    res.trusted = ["winnow 0.6: repeat(0..)/separated_foldl1/alt/seq!/verify/try_map/value/map/void/take/literals backtrack to their checkpoint on failure over a complete (&[u8]) stream and never produce Cut/Incomplete",
                   "spec table tables/spec/c07.json transcribed from the property statement"]
    R1 = res.rule("C07.R1", "width analysis: every fifo_entry alternative is 4 bytes, scalers_block is 4+236+4 = 244", 2)
    R2 = res.rule("C07.R2", "grammar (combinators, masks, tag bytes, field wiring) equals the spec for each parser function", 5)
    R3 = res.rule("C07.R3", "the final unwrap is safe: complete stream, backtracking-only combinators, outer separated_foldl1(repeat(0.., ..))", 3)
    R4 = res.rule("C07.R4", "entries are accumulated left then right, in parse order", 1)
    R5 = res.rule("C07.R5", "channel id accepted iff < 59 and stored unchanged", 1)

    b = prog.body(ENTRY)
    an = analysis(prog, b)
    sy = Sym(prog, an, slice_param=99)
    bld = Builder(prog, res)
    top = bld.body_grammar(ENTRY)
    grammars = {"chronobox_fifo": top}
    for p, g in bld.fn_cache.items():
        grammars[p.split("::")[-1]] = g
    rendered = {k: canon(g).render() for k, g in grammars.items()}
    for name, want in spec["grammar"].items():
        got = rendered.get(name)
        if got == want:
            res.hit(R2)
        else:
            res.violate(R2, M + name, "grammar", "grammar of `%s` differs from the spec:\n      got  %s\n      want %s" % (name, got, want),
                        prog.bodies[M + name].where() if M + name in prog.bodies else "")
    for name in rendered:
        if name not in spec["grammar"]:
            res.violate(R2, M + name, "grammar-extra", "parser function `%s` is not in the spec grammar" % name, "")
    res.sample({"grammar": rendered})

    # widths
    for name, want in spec["widths"].items():
        g = grammars.get(name)
        w = width(g) if g else None
        if w == want:
            res.hit(R1)
        else:
            res.violate(R1, M + name, "width", "`%s` consumes %s bytes per element; the property requires %d" % (name, w, want), "")
    # unwrap safety
    kinds = set()
    unknown = []
    for g in grammars.values():
        for n in g.walk():
            kinds.add(n.kind)
            if n.kind in ("unknown", "deep", "pending"):
                unknown.append(n.attr.get("name", n.kind))
    if unknown:
        res.violate(R3, ENTRY, "combinators", "parser tree contains combinators outside the audited backtracking set: %s" % sorted(set(unknown)), b.where())
    else:
        res.hit(R3)
    if bld.stream_types == {"&[u8]"}:
        res.hit(R3)
    else:
        res.violate(R3, ENTRY, "stream-type", "parsers run over stream type(s) %s, not the complete `&[u8]`" % sorted(bld.stream_types), b.where())
    outer = top.kids[0] if top.kids else None
    ok_outer = (outer is not None and len(top.kids) == 1 and outer.kind == "separated_foldl1" and outer.kids[0].kind == "repeat"
                and outer.kids[0].attr.get("range") == "RangeFrom{0}")
    unwraps = [(bb, t) for bb, t in b.calls() if short(cname(t)) == "Result::<T, E>::unwrap"]
    if ok_outer and len(unwraps) == 1:
        res.hit(R3)
    else:
        res.violate(R3, ENTRY, "outer", "chronobox_fifo is not `separated_foldl1(repeat(0.., entry), block, fold).parse_next(input).unwrap()`; an unbounded repeat that accepts zero elements is what makes the parser total and longest-prefix", b.where())
    if outer is not None and outer.attr.get("fold") == "append(left,right)->left":
        res.hit(R4)
    else:
        res.violate(R4, ENTRY, "fold", "the fold closure is not `l.append(&mut r); l` (entries would be lost or reordered)", b.where())
    # progress: every alternative of the repeated parser consumes >= 1 byte
    for name in ("fifo_entry",):
        g = grammars.get(name)
        if g is None or not width(g):
            res.violate(R1, M + name, "progress", "repeated parser may succeed without consuming input", "")
    # channel range
    fn = "<%sChannelId as std::convert::TryFrom<u8>>::try_from" % M
    allowed, stored, unknown2 = int_conversion_ranges(prog, fn)
    res.functions.add(fn)
    if ranges_of(allowed) == [[0, 58]] and stored == ["arg1"] and not unknown2:
        res.hit(R5)
    else:
        res.violate(R5, fn, "range", "channel conversion accepts %s (stores %s); the property says channel < 59" % (ranges_of(allowed), stored), prog.bodies[fn].where())
    res.undecided = ["longest-prefix, untouched remainder and split-invariance as behaviours over all cut positions follow from the decided grammar facts plus winnow's checkpoint contract (trusted, not analysed)"]


def canon(g, top=True):
    """canonical form of a parser function's grammar: nested seq!{..} flattened into the enclosing sequence, zero-width
    `empty.value(v)` nodes folded into the field wiring, consumers renumbered, ignored fixed-width consumers under
    `void` merged into one `skip[w]`"""
    g = strip_refs(g)

    def void_norm(x):
        if x.kind == "seq":
            kids, acc = [], 0
            for k in [y for z in x.kids for y in (void_norm(z).kids if void_norm(z).kind == "seq" else [void_norm(z)])]:
                if k.kind in ("leaf", "take", "skip") and k.attr.get("w") is not None and not k.kids:
                    acc += k.attr["w"]
                    continue
                if acc:
                    kids.append(G("skip", w=acc))
                    acc = 0
                kids.append(k)
            if acc:
                kids.append(G("skip", w=acc))
            return G("seq", kids)
        return x

    def walk(x):
        if x.kind == "void":
            a = {k: v for k, v in x.attr.items()}
            return G("void", [void_norm(walk(k)) for k in x.kids], **a)
        return G(x.kind, [walk(k) for k in x.kids], **x.attr)
    g = walk(g)
    if top and g.kind == "seq" and len(g.kids) > 1 and not g.attr.get("out") and g.attr.get("unit") and all(k.kind in ("lit", "leaf", "take", "skip") for k in g.kids):
        # `a.parse_next(i)?; b.parse_next(i)?; Ok(())` is `(a, b).void().parse_next(i)`
        inner = void_norm(G("seq", [G(k.kind, k.kids, **{kk: vv for kk, vv in k.attr.items() if kk != "#"}) for k in g.kids]))
        g = G("seq", [G("void", [inner], **{"#": 1})])
    if g.kind == "seq" and g.kids and g.kids[-1].kind == "seq" and g.kids[-1].attr.get("out") and not g.attr.get("out"):
        inner = g.kids[-1]
        outer = g.kids[:-1]
        n_outer = len(outer)
        out = inner.attr["out"]
        # outer outputs: ^k -> #k ; inner outputs: renumber after dropping the zero-width value nodes
        new_kids = list(outer)
        remap = {}
        values = {}
        for k in inner.kids:
            idx = k.attr.get("#")
            if k.kind == "value" and len(k.kids) == 1 and k.kids[0].kind == "leaf" and k.kids[0].attr.get("w") == 0:
                values[idx] = k.attr.get("v")
                continue
            new_kids.append(k)
            remap[idx] = len(new_kids)
        import re as _re

        def fix(m):
            fld, idx = m.group(1), int(m.group(2))
            if idx in values:
                return "%s<-%s" % (fld, values[idx])
            return "%s<-#%d" % (fld, remap.get(idx, 0))
        out = _re.sub(r"(\w+)<-#(\d+)(?![\d:])", fix, out)
        out = out.replace("^", "#")
        kids2 = []
        for i, k in enumerate(new_kids):
            a = dict(k.attr)
            a["#"] = i + 1
            kids2.append(G(k.kind, k.kids, **a))
        g = G("seq", kids2, out=out)
    return g


def strip_refs(g):
    """replace `ref` nodes by name only (each function's grammar is compared separately)"""
    if g.kind == "ref":
        return G("ref", [], **g.attr)
    return G(g.kind, [strip_refs(k) for k in g.kids], **g.attr)
