"""C05 — PWB packet decoding is exact and every sent channel has its full waveform."""
import re

from .. import accept
from ..facts import AnchorMissing
from ..guards import analysis
from ..sym import Sym, forward_paths, path_atoms, atom_str, Poly
from ..terms import strip, cname, short, unmut
from .common import check_accessors, int_conversion_ranges, ranges_of, check_lookup

LEVEL = "other"
V2 = "alpha_g_detector::padwing::PwbV2Packet"
FN = "<%s as std::convert::TryFrom<&[u8]>>::try_from" % V2
WRAP = "alpha_g_detector::padwing::PwbPacket"
WRAP_FN = "<%s as std::convert::TryFrom<&[u8]>>::try_from" % WRAP
WAVE = V2 + "::waveform_at"


def run(prog, tier, res):
    spec = accept.load_spec("c05.json")
    alias = [tuple(a) for a in spec["alias"]]
    res.explanation = ("Accept table of PwbV2Packet::try_from (header guards, mask bit-79 guards, data-length equation for "
                       "both paritites, end marker) and the per-channel table of its channel loop compared with the "
                       "property; field provenance vs the documented little-endian layout; mask->list loop shape; "
                       "sibling agreement of waveform_at's index arithmetic with the decoder's block layout.")
    res.trusted = ["spec table tables/spec/c05.json transcribed from the property statement and the struct's doc table",
                   "audited implication: a loop `while num != 0 { push(127 - lz(num)); num ^= 1 << (127 - lz(num)) }` followed by rev() lists the set bits of num in ascending order"]
    R1 = res.rule("C05.R1", "header/marker accept predicate + data-length equation (both parities) equal the spec", 2)
    R2 = res.rule("C05.R2", "masks are the 80-bit LE fields at bytes 24/34; list = set bits ascending (loop shape), mapped by ChannelId::try_from(bit+1)", 6)
    R3 = res.rule("C05.R3", "every stored field is the documented little-endian field", 15)
    R4 = res.rule("C05.R4", "per-channel guards: channel id at block start equals the i-th sent channel, size == requested samples, zero padding when odd", 2)
    R5 = res.rule("C05.R5", "waveform_at: start = samples_per_channel*index + 2, len = requested_samples, with 2*spc == bytes_per_channel for both parities; None iff channel not sent", 3)
    R6 = res.rule("C05.R6", "accessors return their field; PwbPacket wrappers forward; small id conversions accept exactly the documented values", 30)
    from .common import check_try_from_wrapper as _ctw
    _ctw(prog, res, R6, '<alpha_g_detector::padwing::PwbPacket as std::convert::TryFrom<&[u8]>>::try_from', '<alpha_g_detector::padwing::PwbV2Packet as std::convert::TryFrom<&[u8]>>::try_from', 'V2', '[0..L)')

    tabs, an, sy = accept.accept_tables(prog, FN, alias=alias)
    body = an.body
    res.functions.add(FN)
    if len(tabs) != 1:
        raise AnchorMissing("expected one Ok site in %s" % FN)
    tb = tabs[0]
    accept.compare(res, R1, FN, body.where(tb.site), tb.paths, accept.expand_spec(spec["accept"]))
    res.sample({"accept_case": sorted(sorted(tb.paths, key=sorted)[0])})

    # ---------------------------------------------------------------- per-channel loop
    loops = {}
    for (tail, head) in body.back_edges():
        loops[head] = accept.loop_tables(prog, an, sy, head, alias=alias)
    chan_loops = [h for h, paths in loops.items() if any(any("ch_i" in a for a in p) for p in paths)]
    if len(chan_loops) != 1:
        res.violate(R4, FN, "channel-loop", "cannot find the per-channel validation loop over channels_sent (found %d candidates)" % len(chan_loops), body.where())
    else:
        accept.compare(res, R4, FN, body.where(chan_loops[0]), loops[chan_loops[0]], accept.expand_spec(spec["per_channel"]), "per-channel accept path")
        res.sample({"per_channel_case": sorted(sorted(loops[chan_loops[0]], key=sorted)[-1])})
        # the loop's normal exit must lead to the Ok site only through the end-marker check (already in R1's table)

    # ---------------------------------------------------------------- fields
    oks = an.ok_sites()
    st = strip(oks[0][1][2][0])
    adt = prog.adts[V2]
    names = [f["name"] for f in adt["variants"][0]["fields"]]
    if st[0] != "aggr":
        raise AnchorMissing("Ok value is not a struct aggregate")
    for n, op in zip(names, st[2]):
        p = sy.poly(op)
        s = str(p) if p is not None else sy.name(op)
        s = accept.apply_alias(s, alias)
        w = spec["fields"].get(n)
        if w is None:
            res.violate(R3, FN, "field-extra:%s" % n, "struct field `%s` is not in the spec" % n, body.where())
        elif s == w:
            res.hit(R3)
            res.oblige(True, "field-provenance")
        else:
            res.oblige(False)
            res.violate(R3, FN, "field:%s" % n, "field `%s` is decoded as %s; the documented layout says %s" % (n, s, w), body.where(oks[0][0]))

    # ---------------------------------------------------------------- mask loops
    pure = set(h for (h, _) in sy.pure_map_loops().values())      # a map/collect written as a push loop is an expression
    mask_loops = [h for h in loops if h not in chan_loops and h not in pure]
    good = 0
    for h in mask_loops:
        info = mask_loop_shape(prog, an, sy, h)
        if info in (spec["mask_loop"] if isinstance(spec["mask_loop"], list) else [spec["mask_loop"]]):
            good += 1
            res.hit(R2, 3)
        else:
            res.violate(R2, FN, "mask-loop", "bit-mask loop does not have the shape `while num != 0 { push(127 - lz(num)); num ^= 1 << (127 - lz(num)) }`: %s" % info, body.where(h))
    if len(mask_loops) != 2:
        res.violate(R2, FN, "mask-loop-count", "expected two bit-mask loops (sent, over threshold), found %d" % len(mask_loops), body.where())

    # ---------------------------------------------------------------- waveform_at
    wb = prog.body(WAVE)
    wan = analysis(prog, wb)
    wsy = Sym(prog, wan, slice_param=99)
    res.functions.add(WAVE)
    fields = {i: f["name"] for i, f in enumerate(adt["variants"][0]["fields"])}

    def fsub(s):
        s = re.sub(r"arg1\.(\d+)", lambda m: "arg1." + fields.get(int(m.group(1)), m.group(1)), s)
        s = re.sub(r"Iterator::position\(mut\(<impl \[T\]>::iter\(arg1\.channels_sent\)\),\|x\| <alpha_g_detector::padwing::ChannelId as std::cmp::PartialEq>::eq\(x,arg2\)\)", "POS", s)
        s = s.replace("(POS as Some).0", "POS")
        return s
    got = []
    for bb, t in wan.some_sites():
        for path in forward_paths(wan, bb) or []:
            ats = accept.simplify(path_atoms(wsy, path), wsy.sym_box)
            if ats is None:
                continue
            wsy.set_path(path[1])
            val = unmut(strip(t[2][0]))
            rec = {"atoms": sorted(fsub(atom_str(a)) for a in ats), "start": None, "len": None}
            # Index(Index(self.data, RangeFrom{start}), RangeTo{len})
            if val[0] == "call" and short(val[1]) == "Index::index":
                outer_rng = strip(val[2][1])
                inner = strip(val[2][0])
                if inner[0] == "call" and short(inner[1]) == "Index::index" and outer_rng[0] == "aggr" and outer_rng[1].endswith("RangeTo::RangeTo"):
                    inner_rng = strip(inner[2][1])
                    base = fsub(wsy.name(inner[2][0]))
                    if inner_rng[0] == "aggr" and inner_rng[1].endswith("RangeFrom::RangeFrom") and base == "arg1.data":
                        ps = wsy.poly(inner_rng[2][0])
                        pl = wsy.poly(outer_rng[2][0])
                        rec["start"] = fsub(str(ps)) if ps is not None else None
                        rec["len"] = fsub(str(pl)) if pl is not None else None
                        # `n + n % 2` is the parity case split written as arithmetic: a remainder mod 2 that occurs in the
                        # formula and that no guard of the path fixes is split into its two values
                        rems = sorted(set(x for q in (ps, pl) if q is not None for x in q.syms() if re.match(r"^rem\(.*,2\)$", x)))
                        if len(rems) == 1 and not any(fsub(rems[0]) in a for a in rec["atoms"]):
                            wsy.set_path(None)
                            for v_, at_ in ((0, "%s == 0"), (1, "%s - 1 == 0")):
                                q1, q2 = ps.subs_poly(rems[0], Poly.const(v_)), pl.subs_poly(rems[0], Poly.const(v_))
                                got.append({"atoms": sorted(rec["atoms"] + [at_ % fsub(rems[0])]), "start": fsub(str(q1)), "len": fsub(str(q2))})
                            continue
            wsy.set_path(None)
            got.append(rec)
    want = [dict(w, atoms=sorted(w["atoms"])) for w in spec["waveform_at"]]
    if sorted(got, key=lambda r: r["atoms"]) == sorted(want, key=lambda r: r["atoms"]):
        res.hit(R5, 2)
    else:
        res.violate(R5, WAVE, "index-formula", "waveform_at slices %s; the decoder's block layout requires %s" % (got, want), wb.where())
    # None iff position is None
    none_rows = [[fsub(a) for a in ats] for ats, val in accept.ret_table(prog, WAVE) if val == "None{}"]
    none_ok = none_rows == [["POS is None"]]      # the explicit `else { None }` arm or the early return of `position(..)?`
    if none_ok:
        res.hit(R5)
    else:
        res.violate(R5, WAVE, "none", "waveform_at does not return None exactly when the channel is absent from channels_sent", wb.where())

    # ---------------------------------------------------------------- accessors / conversions
    check_accessors(prog, res, R6, V2, WRAP, names, accessor_of={"data": None}, consts={"packet_version": 2})
    for fn, want in spec["id_ranges"].items():
        if isinstance(want, str):
            lo, hi = 0, 255
            want_r = [[ord("A"), ord("D")]]
        else:
            lo, hi, want_r = 0, 255, want
        allowed, stored, unknown = int_conversion_ranges(prog, fn, lo, hi)
        res.functions.add(fn)
        gotr = ranges_of(allowed)
        if gotr == want_r and not unknown:
            res.hit(R6)
        else:
            res.violate(R6, fn, "range", "conversion accepts %s, spec says %s %s" % (gotr, want_r, unknown[:2]), prog.bodies[fn].where())
    check_lookup(prog, res, R6, "<alpha_g_detector::padwing::BoardId as std::convert::TryFrom<[u8; 6]>>::try_from",
                 "alpha_g_detector::padwing::PADWING_BOARDS", 1, 3)
    # ---------------------------------------------------------------- readout index -> ChannelId is a bijection
    R7 = res.rule("C05.R7", "ChannelId::try_from(readout index) accepts exactly 1..=79, is injective (re-encoding is unambiguous), maps onto every reset/FPN/pad id, and numbers the ids of each kind in ascending readout order", 4)
    from .common import conversion_outputs
    CH = "<alpha_g_detector::padwing::ChannelId as std::convert::TryFrom<u16>>::try_from"
    res.functions.add(CH)
    outs, unk = conversion_outputs(prog, CH, 0, 65535)
    where_ch = prog.bodies[CH].where() if CH in prog.bodies else ""
    if unk or not outs:
        res.violate(R7, CH, "evaluate", "the readout-index conversion cannot be evaluated over its domain: %s" % (unk[:2],), where_ch)
    else:
        if ranges_of(outs.keys()) == [[1, 79]]:
            res.hit(R7)
        else:
            res.violate(R7, CH, "domain", "accepted readout indices are %s, expected 1..=79" % ranges_of(outs.keys()), where_ch)
        inv = {}
        for k_, v_ in outs.items():
            inv.setdefault(v_, []).append(k_)
        dup = sorted(ks for ks in inv.values() if len(ks) > 1)
        if not dup:
            res.hit(R7)
        else:
            res.violate(R7, CH, "injective", "readout indices %s map to the same channel id: a block header of one is accepted for the other and re-encoding is ambiguous" % dup[0], where_ch)
        # onto + ascending per kind: the payload ids of each kind are 1..n in readout order
        kinds = {}
        for k_ in sorted(outs):
            v_ = outs[k_]
            num = v_
            while isinstance(num, tuple):
                num = num[-1]
            kinds.setdefault(v_[0], []).append(num)
        want_n = spec.get("channel_kinds", {"Reset": 3, "Fpn": 4, "Pad": 72})
        ok_onto = all(kinds.get(kd) == list(range(1, n_ + 1)) for kd, n_ in want_n.items()) and set(kinds) == set(want_n)
        if ok_onto:
            res.hit(R7, 2)
        else:
            res.violate(R7, CH, "onto-ascending", "ids per kind in readout order are %s; expected each kind numbered 1..n ascending (%s)" % (
                {k: (v if len(v) < 8 else v[:4] + ["..."] + v[-2:]) for k, v in kinds.items()}, want_n), where_ch)
    wfn = prog.body(WRAP_FN)
    if len([1 for _, t in wfn.calls() if cname(t) == FN]) != 1:
        res.violate(R6, WRAP_FN, "forward", "PwbPacket::try_from(&[u8]) does not call PwbV2Packet::try_from exactly once", wfn.where())
    res.functions.add(WRAP_FN)
    res.undecided = ["mask -> list equality rests on the audited loop-shape implication"]


def mask_loop_shape(prog, an, sy, header):
    """{cond, push, update} of a `while num != 0 {..}` loop in canonical form with the loop variable named `loop`"""
    body = an.body
    tails = [a for (a, b) in body.back_edges() if b == header]
    if len(tails) != 1:
        return {"error": "tails"}
    loop = body.natural_loop(tails[0], header)
    out = {}
    # loop variable: local assigned inside the loop and used in the header's switch
    hterm = body.blocks[header]["t"]
    if hterm["k"] != "switch":
        return {"error": "header is not a switch"}
    from ..guards import as_cmp
    d = an.terms.operand(hterm["d"])
    c = as_cmp(d, True)
    if c is None:
        return {"error": "cond"}
    var = None
    for side in (c[1], c[2]):
        s_ = strip(side)
        if s_[0] == "var":
            var = s_[1]
    if var is None:
        return {"error": "no loop variable"}

    def ren(term):
        p = sy.poly(term)
        s = str(p) if p is not None else sy.name(term)
        return re.sub(r"loop\([^()]*(\([^()]*\))?[^()]*\)|loopvar", "loop", s)
    # evaluate inside the loop: mark var as busy so that it renders as `loopvar`
    sy._busy_vars.add(var)
    sy._poly = {}
    try:
        op, a, b = c
        out["cond"] = "%s %s %s" % (ren(a), {"Ne": "!=", "Eq": "=="}.get(op, op), ren(b))
        upd = [x for (bi, si, x) in an.terms.defs.whole[var] if bi in loop and si != "t"]
        out["update"] = ren(an.terms.rvalue(upd[0])) if len(upd) == 1 else "?%d" % len(upd)
        pushes = [(bb, t) for bb, t in body.calls() if bb in loop and short(cname(t)) == "Vec::<T, A>::push"]
        out["push"] = ren(an.terms.operand(pushes[0][1]["args"][1])) if len(pushes) == 1 else "?%d" % len(pushes)
    finally:
        sy._busy_vars.discard(var)
        sy._poly = {}
    return out
