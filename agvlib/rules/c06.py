"""C06 — TRG packet decoding is exact and decoded counters are ordered.

Bit-level account of the accept path of `<TrgV3Packet as TryFrom<&[u8]>>::try_from`.
"""
import json
import os

from .. import build
from ..bits import Evaluator, constraints_from_atom, BV, fmt_lin
from ..facts import AnchorMissing
from ..guards import analysis, accessor_field, as_cmp, truth_of, FLIP
from ..terms import strip, short, show, cname

LEVEL = "proof"
V3 = "alpha_g_detector::trigger::TrgV3Packet"
FN = "<%s as std::convert::TryFrom<&[u8]>>::try_from" % V3
WRAP_TY = "alpha_g_detector::trigger::TrgPacket"
WRAP_FN = "<%s as std::convert::TryFrom<&[u8]>>::try_from" % WRAP_TY


def spec_bits(e):
    return [("i", 0, e["byte"] + b // 8, b % 8) for b in range(e["lo"], e["hi"])]


def run(prog, tier, res):
    spec = json.load(open(os.path.join(build.VERIF, "tables", "spec", "c06.json")))
    body = prog.body(FN)
    an = analysis(prog, body)
    ev = Evaluator(prog, an)
    res.functions.add(FN)
    res.trusted = ["rustc MIR construction", "std summaries: from_le_bytes, TryInto<[u8;N]> of an N-byte slice, integer From/TryFrom",
                   "spec table tables/spec/c06.json transcribed from the property statement"]
    res.explanation = ("Every obligation is one input bit (640), one struct field, one ordering atom or one accessor; "
                       "discharged means: the bit is stored bijectively in a field, forced to the spec value by a guard "
                       "dominating the Ok return, or tied by an equality guard to a stored bit.")
    R1 = res.rule("C06.R1", "length guard: len == 80 dominates the Ok return", 1)
    R2 = res.rule("C06.R2", "all 640 input bits stored / forced / tied, forced and tied sets equal the spec bit for bit", 640)
    R3 = res.rule("C06.R3", "each struct field is the documented little-endian bit range", 18)
    R4 = res.rule("C06.R4", "ordering guards on the accept path equal the spec (operands and strictness)", 5)
    R5 = res.rule("C06.R5", "accessors return their field; TrgPacket wrappers forward to the same-named accessor", 36)
    from .common import check_try_from_wrapper as _ctw
    _ctw(prog, res, R5, '<alpha_g_detector::trigger::TrgPacket as std::convert::TryFrom<&[u8]>>::try_from', '<alpha_g_detector::trigger::TrgV3Packet as std::convert::TryFrom<&[u8]>>::try_from', 'V3', '[0..L)')

    oks = an.ok_sites()
    if len(oks) != 1:
        raise AnchorMissing("expected one Ok site in %s, found %d" % (FN, len(oks)))
    okbb, okt = oks[0]
    st = strip(okt[2][0])
    if st[0] != "aggr" or not st[1].startswith("adt:" + V3):
        raise AnchorMissing("Ok value of %s is not a TrgV3Packet aggregate: %s" % (FN, show(st)))
    adt = prog.adts.get(V3)
    if adt is None:
        raise AnchorMissing("adt " + V3)
    names = [f["name"] for f in adt["variants"][0]["fields"]]

    # ---------------------------------------------------------------- constraints from guards
    forced = {}
    ties = []
    cmps = []
    others = []
    len_ok = False
    for (d, rel, vals) in an.atoms_at(okbb):
        tr = truth_of(rel, vals)
        c = as_cmp(d, tr) if tr is not None else None
        if c is not None:
            op, a, b = c
            la = _len_const(ev, a)
            lb = _len_const(ev, b)
            if op == "Eq" and ((la == "L" and lb == spec["length"]) or (lb == "L" and la == spec["length"])):
                len_ok = True
                continue
        for k in constraints_from_atom(ev, d, rel, vals):
            if k[0] == "force":
                if k[1] in forced and forced[k[1]] != k[2]:
                    others.append("contradictory forced bit")
                forced[k[1]] = k[2]
            elif k[0] == "tie":
                ties.append((k[1], k[2]))
            elif k[0] == "cmp":
                cmps.append(k[1:])
            else:
                others.append(k[1])
    if len_ok:
        res.hit(R1)
        res.oblige(True, "guard")
    else:
        res.oblige(False)
        res.violate(R1, FN, "len==80", "the Ok return is not dominated by the guard `slice.len() == %d`" % spec["length"], body.where(okbb))

    # ---------------------------------------------------------------- stored fields
    stored = {}
    field_bv = {}
    for name, op in zip(names, st[2]):
        v = ev.bv(op)
        field_bv[name] = v
        want = spec["fields"].get(name)
        if want is None:
            res.violate(R3, FN, "field:%s" % name, "struct field `%s` is not in the spec table" % name, body.where(okbb))
            continue
        want_bits = [b for e in want for b in spec_bits(e)]
        ok = v is not None and v.is_selection() and [b for b in v.bits if isinstance(b, tuple)] == want_bits \
            and all(b == 0 for b in v.bits[len(want_bits):])
        res.oblige(ok, "field-provenance")
        if ok:
            res.hit(R3)
            for b in want_bits:
                stored[b] = name
        else:
            got = "unknown" if v is None else describe(v)
            res.violate(R3, FN, "field:%s" % name,
                        "field `%s` is not the documented bits (want %s, got %s)" % (name, describe(BV(want_bits)), got), body.where(okbb))
    for name in spec["fields"]:
        if name not in names:
            res.violate(R3, FN, "field-missing:%s" % name, "spec field `%s` does not exist in the struct" % name, body.where())

    # ---------------------------------------------------------------- forced / tied vs spec
    want_forced = {}
    for e in spec["forced"]:
        for i, b in enumerate(spec_bits(e)):
            want_forced[b] = (e["value"] >> i) & 1
    want_ties = set()
    for t in spec["ties"]:
        for x, y in zip(spec_bits(t["a"]), spec_bits(t["b"])):
            want_ties.add(frozenset((x, y)))
    got_ties = set(frozenset(p) for p in ties)
    # union-find over ties for coverage
    parent = {}

    def find(x):
        while parent.get(x, x) != x:
            x = parent[x]
        return x
    for a, b in ties:
        parent[find(a)] = find(b)
    classes = {}
    for x in list(parent) + [b for p in ties for b in p]:
        classes.setdefault(find(x), set()).add(x)
    nbits = spec["length"] * 8
    uncovered = []
    for k in range(nbits):
        bit = ("i", 0, k // 8, k % 8)
        cov = bit in stored or bit in forced
        if not cov:
            cl = classes.get(find(bit), set())
            cov = any(x in stored for x in cl)
        res.oblige(cov, "bit-coverage")
        if cov:
            res.hit(R2)
        else:
            uncovered.append(bit)
    for grp in group_bits(uncovered):
        res.violate(R2, FN, "uncovered:%s" % grp, "input bits %s are neither stored in a field, forced by a guard nor tied to a stored bit: "
                    "two different accepted inputs decode to the same packet (or a reserved bit is not checked)" % grp, body.where(okbb))
    for b, v in want_forced.items():
        if forced.get(b) != v:
            res.violate(R2, FN, "forced:%s" % bitname(b), "spec requires input bit %s == %d on the accept path; the code %s" % (
                bitname(b), v, "forces it to %d" % forced[b] if b in forced else "does not check it"), body.where(okbb))
    for b, v in forced.items():
        if b not in want_forced:
            res.violate(R2, FN, "overforced:%s" % bitname(b), "input bit %s is forced to %d but the spec leaves it free (valid packets rejected)" % (bitname(b), v), body.where(okbb))
    missing_ties = [t for t in want_ties if t not in got_ties and not tie_implied(t, classes, find)]
    for grp in group_bits(sorted(min(t) for t in missing_ties)):
        res.violate(R2, FN, "tie-missing:%s" % grp, "spec requires header/footer/output-counter agreement on bits %s; no equality guard ties them" % grp, body.where(okbb))
    extra = [t for t in got_ties if not tie_implied_spec(t, want_ties)]
    for grp in group_bits(sorted(min(t) for t in extra)):
        res.violate(R2, FN, "tie-extra:%s" % grp, "an equality guard ties bits %s that the spec leaves independent" % grp, body.where(okbb))
    for o in others:
        res.violate(R2, FN, "guard:%s" % o[:60], "unrecognised guard on the accept path: %s" % o, body.where(okbb))

    # ---------------------------------------------------------------- ordering atoms
    def field_of(t):
        v = ev.bv(t)
        if v is None:
            return None
        for n, fv in field_bv.items():
            if fv is not None and fv.bits == v.bits:
                return n
        return None
    got = set()
    for (op, a, b) in cmps:
        fa, fb = field_of(a), field_of(b)
        if fa is None or fb is None:
            res.violate(R4, FN, "cmp:%s" % op, "comparison guard on the accept path between values that are not decoded fields: %s %s %s" % (show(a), op, show(b)), body.where(okbb))
            continue
        got.add((fa, op, fb))
    want = set()
    for a, op, b in spec["order"]:
        want.add((a, op, b))
    norm = lambda s: set(min((a, op, b), (b, FLIP[op], a)) for (a, op, b) in s)
    g, w = norm(got), norm(want)
    for x in sorted(w):
        ok = x in g
        res.oblige(ok, "ordering-guard")
        if ok:
            res.hit(R4)
        else:
            res.violate(R4, FN, "order-missing:%s %s %s" % x, "accept path lacks the ordering guard %s %s %s (strictness included)" % x, body.where(okbb))
    for x in sorted(g - w):
        res.violate(R4, FN, "order-extra:%s %s %s" % x, "accept path has an ordering guard the spec does not state: %s %s %s" % x, body.where(okbb))

    # ---------------------------------------------------------------- accessors and wrappers
    for i, name in enumerate(names):
        acc = "%s::%s" % (V3, name)
        if acc in prog.bodies:
            res.functions.add(acc)
            ok = accessor_field(prog, acc) == i
            res.oblige(ok, "accessor")
            if ok:
                res.hit(R5)
            else:
                res.violate(R5, acc, "accessor", "accessor `%s` does not return the field `%s` unchanged" % (acc, name), prog.bodies[acc].where())
        else:
            res.violate(R5, acc, "accessor-missing", "no accessor for field `%s`" % name, body.where())
        w = "%s::%s" % (WRAP_TY, name)
        if w in prog.bodies:
            wb = prog.bodies[w]
            res.functions.add(w)
            wan = analysis(prog, wb)
            rets = [strip(t) for _, t in wan.ret_assignments()]
            # `v3.x()` or, for fields that other packet versions may lack, `Some(v3.x())`
            rets = [strip(r[2][0]) if (r[0] == "aggr" and r[1].endswith("Option::Some") and len(r[2]) == 1) else r for r in rets]
            ok = len(rets) == 1 and rets[0][0] == "call" and rets[0][1] == acc and \
                strip_v3(rets[0][2][0])
            res.oblige(ok, "wrapper")
            if ok:
                res.hit(R5)
            else:
                res.violate(R5, w, "wrapper", "wrapper `%s` does not forward to `%s`" % (w, acc), wb.where())
        else:
            res.violate(R5, w, "wrapper-missing", "no TrgPacket wrapper for `%s`" % name, body.where())
    # TrgPacket::try_from forwards
    wb = prog.body(WRAP_FN)
    wcalls = [t for _, t in wb.calls() if cname(t) == FN]
    if len(wcalls) != 1:
        res.violate(R5, WRAP_FN, "forward", "TrgPacket::try_from does not call TrgV3Packet::try_from exactly once", wb.where())
    res.functions.add(WRAP_FN)

    res.extra["bits_stored"] = len(stored)
    res.extra["bits_forced"] = len(forced)
    res.extra["bits_tied_pairs"] = len(got_ties)
    res.sample({"field": "aw16_multiplicity", "bits": describe(field_bv.get("aw16_multiplicity")) if field_bv.get("aw16_multiplicity") else None})
    res.sample({"forced_bits": sorted(bitname(b) + "=%d" % v for b, v in forced.items())[:12]})
    res.sample({"ordering_atoms": sorted("%s %s %s" % x for x in g)})
    res.undecided = []


def _len_const(ev, t):
    t = strip(t)
    if t[0] == "const" and isinstance(t[1], int):
        return t[1]
    if (t[0] == "call" and short(t[1]) == "<impl [T]>::len" and strip(t[2][0]) == ev.p) or (t[0] == "len" and strip(t[1]) == ev.p):
        return "L"
    return None


def bitname(b):
    return "byte %s bit %d" % (fmt_lin((b[1], b[2])), b[3])


def describe(v):
    """Compact description of a selection bit-vector as byte/bit runs."""
    runs = []
    cur = None
    for i, b in enumerate(v.bits):
        if isinstance(b, tuple) and b[0] == "i":
            k = b[2] * 8 + b[3]
            if cur and cur[1] + 1 == k and cur[3] + 1 == i and cur[4] == b[1]:
                cur[1] = k
                cur[3] = i
            else:
                cur = [k, k, i, i, b[1]]
                runs.append(cur)
        else:
            cur = None
    return ", ".join("in[%s%d..%d]->out[%d..%d]" % ("L+" if r[4] else "", r[0], r[1], r[2], r[3]) for r in runs) or "const"


def group_bits(bits):
    ks = sorted(b[2] * 8 + b[3] for b in bits)
    out = []
    i = 0
    while i < len(ks):
        j = i
        while j + 1 < len(ks) and ks[j + 1] == ks[j] + 1:
            j += 1
        out.append("%d..%d" % (ks[i], ks[j]) if j > i else "%d" % ks[i])
        i = j + 1
    return out


def tie_implied(t, classes, find):
    a, b = tuple(t)
    return find(a) == find(b)


def tie_implied_spec(t, want):
    # got tie must be within the transitive closure of the spec ties
    parent = {}

    def find(x):
        while parent.get(x, x) != x:
            x = parent[x]
        return x
    for w in want:
        a, b = tuple(w)
        parent[find(a)] = find(b)
    a, b = tuple(t)
    return find(a) == find(b)


def strip_v3(t):
    """the wrapper passes its own V3 payload: (self as V3).0"""
    t = strip(t)
    return t[0] == "field" and t[2] == 0 and t[1][0] == "downcast" and strip(t[1][1]) == ("param", 1)
