"""C09 — every main event yields a result: panic obligations of event assembly (decided in full) and of the
reconstruction kernels (integer/index obligations bounded by a committed census; float pipeline = census only)."""
import collections
import json
import os

from .. import audited, build, oblig, panicfree
from ..terms import short, cname
from . import c01

LEVEL = "proof"
ME = "alpha_g_physics::MainEvent::"
ASSEMBLY = [ME + "try_from_banks", ME + "timestamp"]
KERNELS = [ME + "avalanches", ME + "vertex"]
DECIDED = os.path.join(build.VERIF, "tables", "c09_decided.json")
CENSUS = os.path.join(build.VERIF, "tables", "c09_census.json")

FLOAT_SOURCES = ("PartialOrd::partial_cmp", "compute::cholesky", "solve::", "Executor::", "NelderMead::", "Iterator::reduce", "MinMaxResult::",
                 "Iterator::min_by", "Iterator::max_by", "Option::<&T>::copied(Iterator::min_by", "Result::<T, E>::unwrap(Executor", "IterState")


def ob_class(o):
    """'int' for integer / index / structural obligations, 'float' for results of the numerical kernels"""
    if o.kind == "call" and o.desc.endswith(("::unwrap", "::expect")):
        h = o.how or ""
        i = h.find("unwrap of ")
        what = h[i + 10:] if i >= 0 else h
        if any(what.startswith(x) or (x in what[:80]) for x in FLOAT_SOURCES):
            return "float"
    if o.kind == "panic":
        return "float" if "nan" in (o.how or "").lower() else "int"
    return "int"


INDEX_CALLS = ("Index::index", "IndexMut::index_mut", "Vec::<T, A>::swap_remove", "Vec::<T, A>::remove", "Vec::<T, A>::split_off",
               "<impl [T]>::split_at", "<impl str>::split_at", "<impl [T]>::copy_from_slice", "Vec::<T>::with_capacity")


def census_key(o):
    """coarse class of an undischarged obligation: swapping one indexing API for another, or `a - b` for `a - b - c`
    written differently, must not change the census; a *new* index / arithmetic / loop site must"""
    if o.kind == "loop":
        return "loop/int"
    if o.kind == "panic":
        return "panic/" + ob_class(o)
    if o.kind == "assert":
        if o.desc == "bounds":
            return "index/int"
        # an unsigned subtraction that may underflow and an addition that may overflow fail on different inputs: moving a
        # term across a comparison (`i + a <= n` -> `i <= n - a`) trades one for the other and is not behaviour-preserving
        op = o.desc.split(":")[-1] if o.desc.startswith("overflow:") else ""
        return "arith-sub/int" if op in ("Sub", "Neg") else "arith/int"
    if o.desc in INDEX_CALLS:
        return "index/int"
    if o.desc.startswith("int-op:") or o.desc == "Iterator::sum":
        return "arith/int"
    if o.desc.endswith(("::unwrap", "::expect")):
        return "unwrap/" + ob_class(o)
    return "other/int"


def physics_scope(prog, entries, exclude=()):
    indep = audited.input_independent(prog)
    cl = prog.closure(entries)
    bodies, census, det = [], [], []
    for p in sorted(cl):
        b = prog.bodies[p]
        if "promoted[" in p or panicfree.is_derive_or_fmt(b):
            continue
        if p in indep:
            census.append(p)
            continue
        if b.crate == "alpha_g_detector":
            det.append(p)
            continue
        if b.crate != "alpha_g_physics" or p in exclude:
            continue
        bodies.append(p)
    return panicfree.Scope(prog, bodies, census), det


def result_discipline(prog, res, rid, fn):
    """every Result produced by a call in `fn` is consumed by `?`, returned, or matched — never dropped or `.ok()`ed"""
    b = prog.body(fn)
    n = 0
    for bb, t in b.calls():
        d = t.get("dest")
        if d is None or d["pr"]:
            continue
        ty = b.locals[d["l"]]["ty"]
        if not (ty.get("k") == "adt" and ty.get("p") == "std::result::Result"):
            continue
        if short(cname(t)) in ("Try::branch", "FromResidual::from_residual"):
            continue
        uses = uses_of(b, d["l"])
        ok = [u for u in uses if u[1] in ("Try::branch", "return", "discr")]
        bad = [u for u in uses if u[1] not in ("Try::branch", "return", "discr", "drop", "storage")]
        n += 1
        if not ok or bad:
            res.violate(rid, fn, "result:%s" % short(cname(t)), "the Result of `%s` in %s is not propagated with `?`/match (%s)" % (
                short(cname(t)), short(fn), ", ".join(sorted(set(u[1] for u in bad))) or "dropped"), b.where(bb))
        else:
            res.hit(rid)
    return n


def _places(x, out):
    if isinstance(x, dict):
        if "l" in x and "pr" in x and isinstance(x.get("pr"), list):
            out.append(x["l"])
        for v in x.values():
            _places(v, out)
    elif isinstance(x, list):
        for v in x:
            _places(v, out)


def uses_of(b, l):
    out = []
    if l == 0:
        out.append((None, "return"))
    for i, blk in enumerate(b.blocks):
        if blk["cleanup"]:
            continue
        for s in blk["s"]:
            if s["k"] == "assign":
                ps = []
                _places(s["rv"], ps)
                if l in ps:
                    if s["rv"]["k"] == "discr":
                        out.append((i, "discr"))
                    elif s["p"]["l"] == 0:
                        out.append((i, "return"))
                    else:
                        # moved into another local: follow one step
                        nxt = s["p"]["l"]
                        if not s["p"]["pr"] and s["rv"]["k"] in ("use", "ref"):
                            out += [(bb_, k_) for bb_, k_ in uses_of_cached(b, nxt, l)]
                        else:
                            out.append((i, "stored"))
        t = blk["t"]
        if t["k"] == "call":
            ps = []
            _places(t["args"], ps)
            if l in ps:
                out.append((i, short(cname(t))))
        elif t["k"] == "switch":
            ps = []
            _places(t.get("d"), ps)
            if l in ps:
                out.append((i, "discr"))
        elif t["k"] == "drop":
            ps = []
            _places(t.get("p"), ps)
            if l in ps:
                out.append((i, "drop"))
    return out


def uses_of_cached(b, l, frm, _depth=[0]):
    if _depth[0] > 6 or l == frm:
        return []
    _depth[0] += 1
    try:
        return uses_of(b, l)
    finally:
        _depth[0] -= 1


def top_fn(prog, p):
    b = prog.bodies[p]
    while b.kind == "Closure" and b.j.get("parent") in prog.bodies and b.j["parent"] != b.path:
        b = prog.bodies[b.j["parent"]]
    return b.path


_HPF = {}


def helper_panic_free(prog, path):
    """every panic obligation of the helper's own body (closures included) is discharged for arbitrary arguments"""
    key = (id(prog), path)
    if key in _HPF:
        return _HPF[key]
    _HPF[key] = False
    ok = True
    for p2, b2 in prog.bodies.items():
        if not (p2 == path or p2.startswith(path + "::{closure")):
            continue
        try:
            ctx = oblig.Ctx(prog, b2)
            ctx._in_context = True            # no appeal to the helper's call sites: for every argument
            for o in oblig.collect(ctx):
                oblig.discharge(ctx, o)
                if o.verdict == "OPEN":
                    ok = False
        except RecursionError:
            ok = False
    _HPF[key] = ok
    return ok


def kernel_census(prog, sc):
    """per top-level kernel function (closures folded in): obligations, OPEN ones by coarse class, first OPEN site"""
    out = {}
    for p in sc.bodies:
        b = prog.bodies[p]
        f = out.setdefault(top_fn(prog, p), {"obligations": 0, "open": {}, "where": {}, "how": {}})
        try:
            ctx = oblig.Ctx(prog, b)
            obs = oblig.collect(ctx)
        except RecursionError:
            f["open"]["other/int"] = f["open"].get("other/int", 0) + 1
            continue
        for o in obs:
            oblig.discharge(ctx, o)
            f["obligations"] += 1
            if o.verdict == "OPEN":
                # a site inside the inlined copy of a new private helper: if the helper, analysed on its own, is shown
                # panic-free for every argument, the site is panic-free here as well (the inlined copy only ADDS the
                # caller's facts; it can lose a length relation through the extra deref/reborrow of the argument)
                hp = next((c_ for (lo_, hi_, c_) in getattr(b, "inl_ranges", []) if lo_ <= o.bb < hi_), None)
                if hp is not None and helper_panic_free(prog, hp):
                    continue
                k = census_key(o)
                f["open"][k] = f["open"].get(k, 0) + 1
                f["where"].setdefault(k, o.where)
                f["how"].setdefault(k, "%s `%s`: %s" % (o.kind, o.desc, (o.how or "")[:200]))
    return out


def accept_spec(name):
    from .. import accept
    return accept.load_spec(name)


def run(prog, tier, res):
    res.explanation = ("Event assembly (MainEvent::try_from_banks, timestamp and every physics-crate function they reach): every MIR Assert, "
                       "panicking std call, explicit panic and loop is discharged as in C01 (detector-crate callees are C01's scope, inputs "
                       "unconstrained there). Reconstruction kernels (closure of avalanches/vertex): obligations are collected the same way; "
                       "integer/index obligations that are not discharged must not exceed the committed census of sites the analysis cannot "
                       "decide, and results of the float pipeline (Cholesky, NaN asserts, partial_cmp, argmin) are census only.")
    R1 = res.rule("C09.R1", "assembly: MIR Asserts (bounds/overflow) proved", 7)
    R2 = res.rule("C09.R2", "assembly: panicking std calls proved (unwrap of board_id under non-empty waveform, waveform_at of a sent channel, slot indices from position types)", 1)
    R3 = res.rule("C09.R3", "assembly: explicit panics unreachable", 0)
    R4 = res.rule("C09.R4", "assembly: loops iterate finite sources", 2)
    R5 = res.rule("C09.R5", "assembly: every external callee has a panic rule or an audited-total entry", 10)
    R6 = res.rule("C09.R6", "detector-crate functions reached from the event pipeline are inside C01's scope", 50)
    R7 = res.rule("C09.R7", "kernels: every function on the committed decided list (all obligations discharged, closures included) is still fully discharged", 5)
    R8 = res.rule("C09.R8", "result discipline of try_from_banks: every Result is `?`-propagated, returned or matched", 10)
    R10 = res.rule("C09.R10", "kernels not on the decided list: per function, the undischarged integer/index/unwrap obligations do not exceed the committed census (a discharged site stays discharged)", 20)
    if tier == "thorough":
        oblig.PATH_LIMIT[0] = 4096
    sa, det_a = physics_scope(prog, ASSEMBLY)
    rules = {"assert": R1, "call": R2, "panic": R3, "loop": R4, "callee": R5}
    opens, used = panicfree.run_scope(prog, res, sa, rules, ())
    # detector functions of the whole pipeline are C01's
    sk, det_k = physics_scope(prog, KERNELS, exclude=set(sa.bodies))
    c01sc = c01.scope_of(prog)
    c01set = set(c01sc.bodies) | set(c01sc.census_only)
    for p in sorted(set(det_a) | set(det_k)):
        if p in c01set:
            res.hit(R6)
        else:
            res.violate(R6, p, "scope", "detector function %s is reached from the event pipeline but is outside C01's scope" % short(p), prog.bodies[p].where())
    # kernels
    with open(DECIDED) as fh:
        decided = json.load(fh)["functions"]
    got = kernel_census(prog, sk)
    with open(CENSUS) as fh:
        census = json.load(fh)["functions"]
    inl = getattr(prog, "inlined", {}) or {}
    got = {f: g for f, g in got.items() if f not in inl}          # new private helpers are counted inside their callers
    n_int = n_float = n_obl = n_dis = 0
    undecided = {}
    for p in sk.bodies:
        res.functions.add(p)
    for f, g in sorted(got.items()):
        n_obl += g["obligations"]
        n_open = sum(g["open"].values())
        n_dis += g["obligations"] - n_open
        fl = sum(n for k, n in g["open"].items() if k.endswith("/float"))
        n_float += fl
        n_int += n_open - fl
        if f in decided:
            if n_open == 0:
                res.hit(R7)
            for k, n in sorted(g["open"].items()):
                res.violate(R7, f, k, "%s was fully discharged and now has %d undischarged %s obligation(s): %s" % (
                    short(f), n, k.split("/")[0], g["how"].get(k, "")), g["where"].get(k, prog.bodies[f].where()), kind="undischarged")
        elif n_open:
            undecided[short(f)] = dict(g["open"])
        if f not in decided:
            # partly decided kernels: the integer/index/unwrap sites the analysis cannot decide are counted on the pinned
            # tree (tables/c09_census.json); one more of a class means a site that used to be discharged (or a new site) is
            # no longer shown panic-free.  Float-pipeline classes are census only.
            base = census.get(f)
            for k, n in sorted(g["open"].items()):
                if k.endswith("/float"):
                    continue
                n0 = (base or {}).get(k, 0)
                if n > n0:
                    res.violate(R10, f, "census:%s" % k, "%s has %d undischarged %s obligation(s), the committed census has %d: %s" % (
                        short(f), n, k.split("/")[0], n0, g["how"].get(k, "")), g["where"].get(k, prog.bodies[f].where()), kind="undischarged")
            if base is not None:
                res.hit(R10)
    # a decided function that disappeared (renamed/removed) is not an alarm; the floor on R7 guards against vacuity
    result_discipline(prog, res, R8, ME + "try_from_banks")
    res.extra["kernel_scope"] = {"bodies": len(sk.bodies), "top_level_functions": len(got), "decided_functions": sorted(short(f) for f in decided if f in got),
                                 "obligations": n_obl, "discharged": n_dis, "undecided_integer_sites": n_int, "undecided_float_sites": n_float,
                                 "undecided_by_function": undecided}
    res.trusted = ["C01 for the detector-crate callees", "rustc MIR (dev profile)", "audited-total list panicfree.TOTAL", "tables/c09_decided.json lists the kernel functions that are fully discharged; the others are reported as a census of undecided sites (not findings: no failing input is known for them)"] + \
                  ["audited implication `%s`: %s" % (k, audited.STATEMENTS.get(k, "")) for k in sorted(used)]
    # R9: the pad centroid divides by ln(middle^2 / (first * last)); that logarithm is non-zero (and the centroid's z finite,
    # which DriftTables::at's `find(..).unwrap()` downstream relies on) exactly because a hit is only built for a STRICT
    # local maximum with positive neighbours
    R9 = res.rule("C09.R9", "pad_hits_at_t builds a hit only under `first > 0 && last > 0 && middle > first && middle > last` (strict): the centroid's logarithm is never 0, so z is never NaN/inf downstream", 1)
    from . import c13 as _c13
    pw = _c13.pad_window(prog)
    want = accept_spec("c13.json")["pad_window"]["guards"]
    res.functions.add(_c13.PADHITS)
    if pw.get("guards") == want and pw.get("pushes") == 1:
        res.hit(R9)
    else:
        res.violate(R9, _c13.PADHITS, "centroid-guard", "a pad hit is built under %s; the centroid formula needs the strict local maximum %s (an equal-amplitude plateau "
                    "gives ln(1) = 0 in the denominator and a NaN z, which panics in DriftTables::at)" % (pw.get("guards"), want), prog.body(_c13.PADHITS).where())
    res.assumptions = ["lazy_static initialisers (embedded calibration/drift tables) are census only"]
    res.undecided = ["float pipeline: Cholesky/solve unwraps, NaN asserts, partial_cmp().unwrap(), argmin run().unwrap() (%d sites)" % n_float,
                     "%d kernel integer/index/loop sites in functions outside the decided list (evidence: undecided_by_function): loop-carried indices, table-shape dependent lookups" % n_int]
    res.sample({"assembly_bodies": len(sa.bodies), "kernel_bodies": len(sk.bodies), "detector_bodies_delegated": len(set(det_a) | set(det_k))})
