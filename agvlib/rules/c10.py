"""C10 — Event assembly puts each waveform on its detector element, calibrated, or fails."""
import json

from .. import accept
from ..facts import AnchorMissing
from ..guards import analysis
from ..sym import Sym
from ..terms import strip, short, cname, unmut

LEVEL = "other"
FN = "alpha_g_physics::MainEvent::try_from_banks"
ME = "alpha_g_physics::MainEvent"


def collect(prog, alias):
    tabs, an, sy = accept.accept_tables(prog, FN, alias=alias)
    body = an.body
    out = {"accept": [sorted(p) for tb in tabs for p in tb.paths], "loops": {}, "stores": [], "group": None, "trg": None}
    # loops keyed by a stable descriptor: the iterator advanced in the header
    pure = set(h for (h, _) in sy.pure_map_loops().values())
    for head in sorted(set(h for (_, h) in body.back_edges())):
        if head in pure:
            continue                         # a map/collect written as a push loop: an expression, not a decision
        paths = accept.loop_tables(prog, an, sy, head, alias=alias)
        key = None
        for p in paths:
            for a in p:
                if a.startswith("Iterator::next(") and a.endswith(" is Some"):
                    key = a[len("Iterator::next("):-len(") is Some")]
        out["loops"][key or "?"] = sorted(sorted(p) for p in paths)
    # array stores (slot writes)
    for l in range(len(body.locals)):
        for (bi, si, st) in an.terms.defs.partial[l]:
            if si == "t" or st["k"] != "assign":
                continue
            pr = st["p"]["pr"]
            if any(e["k"] == "index" for e in pr):
                idx = [accept.apply_alias(sy.name(an.terms.local(e["l"])), alias) for e in pr if e["k"] == "index"]
                val = accept.apply_alias(sy.name(an.terms.rvalue(st["rv"])), alias)
                # the stored collection (inside Some{..}): guards on it (`!signal.is_empty()`) decide whether the slot is filled
                inner_val = None
                inner_term = None
                rvt = strip(an.terms.rvalue(st["rv"]))
                if rvt[0] == "aggr" and rvt[1].endswith("Option::Some") and rvt[2]:
                    inner_val = sy.name(rvt[2][0])
                    inner_term = rvt[2][0]
                guards = sorted(accept.apply_alias(g.replace(inner_val, "SIGNAL") if inner_val else g, alias)
                                for g in store_guards(an, sy, bi, inner_val, inner_term))
                out["stores"].append({"array_type": arr_ty(body.locals[l]["ty"]), "index": idx, "value": val, "slot_guards": guards})
    out["stores"].sort(key=lambda s: s["array_type"])
    # grouping of chunks
    for bb, t in body.calls():
        s = short(cname(t))
        if s == "HashMap::<K, V, S, A>::entry":
            out["group"] = accept.apply_alias(sy.name(an.terms.operand(t["args"][1])), alias)
        if s == "Vec::<T, A>::push":
            a0 = unmut(an.terms.operand(t["args"][0]))
            if a0[0] == "call" and short(a0[1]).endswith("or_default"):
                out["group_push"] = accept.apply_alias(sy.name(an.terms.operand(t["args"][1])), alias)
    # trigger timestamp: every definition of the Option<u32> accumulator
    trg = []
    for l in range(len(body.locals)):
        ty = body.locals[l]["ty"]
        if ty.get("k") == "adt" and ty["p"].endswith("Option") and ty["a"] and ty["a"][0] == {"k": "int", "w": 32, "s": False, "ptr": False}:
            ds = an.terms.defs.whole[l]
            if len(ds) >= 2:
                for (bi, si, x) in ds:
                    v = an.terms.rvalue(x) if si != "t" else an.terms.call_term(x, bi)
                    trg.append(accept.apply_alias(sy.name(v), alias))
    out["trg"] = sorted(trg)
    # the returned struct
    for bb, t in an.ok_sites():
        st = strip(t[2][0])
        if st[0] == "aggr":
            out["ok_value"] = accept.apply_alias(sy.name(st), alias)
    return out, an


def arr_ty(ty):
    d = 0
    while ty.get("k") == "array":
        d += 1
        ty = ty["t"]
    return "array%dd" % d


def store_guards(an, sy, bb, stored=None, stored_term=None):
    """boolean atoms dominating a store that mention the stored-to array (the duplicate guard) or the stored
    collection itself (the non-empty guard)"""
    out = []
    from ..sym import atom_str
    import re as _re
    ats = []
    for (d, rel, vals) in an.atoms_at(bb):
        ats += sy.atoms(d, rel, vals)
    nonempty = None
    if stored:
        ea = accept.emptiness_atom(stored, False)
        if ea is not None:
            nonempty = atom_str(ea)
    for a in (accept.simplify(ats, sy.sym_box) or []):
        s = atom_str(a)
        if _re.search(r"var<\[.*\]>\[", s) or (stored and stored in s):
            out.append(s)
        elif nonempty is not None and s == nonempty:
            out.append("pred is_empty(%s) False" % stored)          # the stored collection is not empty, as a length relation
    return out


def run(prog, tier, res):
    spec = accept.load_spec("c10.json")
    alias = [tuple(a) for a in spec["alias"]]
    res.explanation = ("The bank loop, the chunk-group loop and the channel loop of MainEvent::try_from_banks as tables of "
                       "per-iteration accept paths (canonical guard atoms), the slot-store index/value terms with their "
                       "duplicate guards, the chunk grouping key, the trigger-timestamp definitions and the returned struct, "
                       "all compared with the property's rules in one vocabulary.")
    res.trusted = ["spec table tables/spec/c10.json transcribed from the property statement",
                   "run-number dispatch of the calibration / map functions is checked by C08.R2"]
    R1 = res.rule("C10.R1", "slot stores: index = position map of the packet's own ids, value = (elem - baseline) * gain after skip(delay) with same-kind lookups at the same position, duplicate guard on the same slot", 2)
    R2 = res.rule("C10.R2", "bank-kind action table and rejection guards of the bank loop (per-iteration accept paths)", 1)
    R3 = res.rule("C10.R3", "chunk groups: keyed by (chunk board, chunk chip), every group reassembled, packet board == group board; per-channel paths", 3)
    R4 = res.rule("C10.R4", "event requires a TRG bank; timestamp is the TRG packet's timestamp; duplicate TRG rejected; struct built from the three accumulators", 3)

    got, an = collect(prog, alias)
    body = an.body
    res.functions.add(FN)

    def cmp(rule, key, g, w, what):
        ok = g == w
        res.oblige(ok, "table")
        if ok:
            res.hit(rule)
        else:
            diff = explain(g, w)
            res.violate(rule, FN, "%s:%s" % (key, diff[0][:200]), "%s differs from the spec: %s" % (what, diff[1]), body.where(),
                        detail={"got": g, "want": w})
    for i, (g, w) in enumerate(zip_longest(got["stores"], spec["stores"])):
        cmp(R1, "store%d" % i, g, w, "slot store #%d" % i)
    loops_g, loops_w = got["loops"], spec["loops"]
    for key in sorted(set(loops_g) | set(loops_w)):
        rule = R2 if key == spec["bank_loop_key"] else R3
        cmp(rule, "loop[%s]" % key[:40], loops_g.get(key), loops_w.get(key), "per-iteration accept table of the loop over `%s`" % key[:60])
    cmp(R3, "group-key", got.get("group"), spec["group"], "chunk grouping key")
    cmp(R3, "group-push", got.get("group_push"), spec["group_push"], "value pushed into a chunk group")
    cmp(R4, "accept", got["accept"], spec["accept"], "final accept path")
    cmp(R4, "trg", got["trg"], spec["trg"], "trigger timestamp definitions")
    cmp(R4, "ok-value", got.get("ok_value"), spec["ok_value"], "returned struct")
    # MainEvent::timestamp returns the field
    from ..guards import accessor_field, field_index
    ts = ME + "::timestamp"
    if accessor_field(prog, ts) == field_index(prog, ME, "trigger_timestamp"):
        res.hit(R4)
    else:
        res.violate(R4, ts, "accessor", "MainEvent::timestamp() does not return the trigger_timestamp field", prog.body(ts).where())
    res.functions.add(ts)
    calibration_tables(prog, res)
    calibration_lookups(prog, res)
    res.sample({"bank_loop_paths": len(loops_g.get(spec["bank_loop_key"]) or [])})
    res.sample({"wire_store": got["stores"][0] if got["stores"] else None})
    res.undecided = ["numerical equality of stored samples (follows from the expression shape and IEEE arithmetic)", "contents of the embedded calibration files"]


CAL = "alpha_g_physics::calibration::"
INIT = " as std::ops::Deref>::deref::__static_ref_initialize"
DEREF = " as std::ops::Deref>::deref"


def calibration_tables(prog, res):
    """C10.R5: a calibration table (lazy static under physics::calibration) is built from its own embedded file only: the
    code reachable from its initialiser inside the calibration modules never dereferences another lazy table, so an
    element that the file of run N leaves out is absent from table N (`try_*` then answers with an error) and can never
    be served from the table of another run."""
    R5 = res.rule("C10.R5", "calibration tables: the initialiser of each lazy table reads no other lazy table (a missing element stays missing, no stale fallback)", 7)
    inits = sorted(p for p in prog.bodies if p.startswith("<" + CAL) and p.endswith(INIT))
    for ip in inits:
        own = ip[1:-len(INIT)]
        seen, todo, reads = set(), [ip], []
        while todo:
            q = todo.pop()
            if q in seen:
                continue
            seen.add(q)
            b = prog.bodies.get(q)
            if b is None:
                continue
            for c in sorted(prog.callees(b)) + [x.path for x in prog.closures_of(q)]:
                if c.startswith("<") and c.endswith(DEREF) and "__static_ref_initialize" not in c:
                    other = c[1:-len(DEREF)]
                    if other != own and (other + INIT) in ("%s" % k[1:] for k in prog.bodies if k.endswith(INIT)):
                        reads.append((q, other))
                    continue
                if c.startswith(CAL) or c.startswith("<" + CAL):
                    todo.append(c)
        res.functions.add(ip)
        res.oblige(not reads, "table")
        if reads:
            q, other = reads[0]
            res.violate(R5, own, "reads:" + other.split("calibration::")[-1],
                        "the initialiser of the calibration table %s reads the table %s (through %s): an element missing from its own file is "
                        "served from another run's table instead of being reported as unavailable" % (own, other, q), prog.bodies[ip].where())
        else:
            res.hit(R5)


def _calls_in(t, out):
    if isinstance(t, tuple):
        if t and t[0] == "call" and isinstance(t[1], str):
            out.append(short(t[1]))
        for x in t:
            _calls_in(x, out)
    return out


def calibration_lookups(prog, res):
    """C10.R6: a table lookup that finds no entry for the element is an error, never a default (`get(..).ok_or(..)`, or an
    explicit Ok only under `get(..) is Some`); C10.R7: the table MAP_<tag> is built from the embedded constant BYTES_<tag>
    of its own module (the repository's own convention, stated above every `lazy_static!` block)."""
    import re
    R6 = res.rule("C10.R6", "calibration lookups: no Ok result without an entry of the table for the element (missing entry => error, no default)", 2)
    R7 = res.rule("C10.R7", "calibration tables: MAP_<tag> is built from BYTES_<tag> of the same module", 7)
    DEFAULTS = ("Option::<T>::unwrap_or", "Option::<T>::unwrap_or_default", "Option::<T>::unwrap_or_else", "Option::<T>::or", "Option::<T>::or_else",
                "Option::<T>::map_or", "Option::<T>::map_or_else", "Option::<T>::unwrap", "Option::<T>::expect")
    PASS = ("HashMap::<K, V, S, A>::get", "Option::<&T>::copied", "Option::<&T>::cloned")
    fns = sorted(p for p, b in prog.bodies.items() if p.startswith(CAL) and "::try_" in p and b.kind in ("Fn", "AssocFn"))
    for fn in fns:
        b = prog.bodies[fn]
        gets = [t for _, t in b.calls() if short(cname(t)) == "HashMap::<K, V, S, A>::get"]
        if not gets:
            continue                       # a delay function: a run-number table without elements (C08.R2)
        res.functions.add(fn)
        tabs, an, sy = accept.accept_tables(prog, fn)
        bad, seen_form = None, False
        for tb in tabs:
            for pth in tb.paths:
                seen_form = True
                if not any("HashMap" in a_ and "get(" in a_ and a_.endswith(" is Some") for a_ in pth):
                    bad = ("ok-without-entry", "an Ok result is built on a path that does not require `get(..)` to be Some: %s" % sorted(pth))
        for _, t in b.calls():
            nm = short(cname(t))
            if not t["args"]:
                continue
            chain = _calls_in(an.terms.operand(t["args"][0]), [])
            if "HashMap::<K, V, S, A>::get" not in chain:
                continue
            if nm in DEFAULTS or any(c in DEFAULTS for c in chain):
                bad = ("default-for-missing", "`%s` on the result of the table lookup supplies a value when the element has no entry" % nm)
            elif nm in ("Option::<T>::ok_or", "Option::<T>::ok_or_else") and all(c in PASS for c in chain):
                seen_form = True
        if bad:
            res.oblige(False, "table")
            res.violate(R6, fn, bad[0], bad[1], b.where())
        elif seen_form:
            res.oblige(True, "table")
            res.hit(R6)
    for ip in sorted(p for p in prog.bodies if p.startswith("<" + CAL) and p.endswith(INIT)):
        own = ip[1:-len(INIT)]
        mod, tag = own.rsplit("::MAP_", 1) if "::MAP_" in own else (None, None)
        used = sorted(set(re.findall(r'"def": "([^"]*::BYTES_\w+)"', json.dumps(prog.bodies[ip].j))))
        if mod is None or not used:
            continue                       # another way of building the table: not this rule's vocabulary
        ok = used == ["%s::BYTES_%s" % (mod, tag)]
        res.oblige(ok, "table")
        if ok:
            res.hit(R7)
        else:
            res.violate(R7, own, "bytes:" + ",".join(u.split("::")[-1] for u in used),
                        "the calibration table %s is built from %s, expected BYTES_%s of its own module" % (own, used, tag), prog.bodies[ip].where())


def zip_longest(a, b):
    n = max(len(a), len(b))
    return [((a[i] if i < len(a) else None), (b[i] if i < len(b) else None)) for i in range(n)]


def explain(g, w):
    """(short key, human text) describing the first difference between two JSON-like values"""
    if isinstance(g, list) and isinstance(w, list) and g and w and isinstance(g[0], list):
        gs, ws = set(map(tuple, g)), set(map(tuple, w))
        extra, missing = gs - ws, ws - gs
        if extra:
            e = sorted(extra)[0]
            best = min(ws, key=lambda x: len(set(x) ^ set(e))) if ws else ()
            lack = sorted(set(best) - set(e))
            more = sorted(set(e) - set(best))
            return ("-%s+%s" % ("|".join(lack), "|".join(more)), "a path lacks the guard(s) %s and has the unexpected guard(s) %s" % (lack, more))
        if missing:
            m = sorted(missing)[0]
            return ("missing:%s" % "|".join(m)[:150], "no path with guards %s" % (list(m),))
    if isinstance(g, dict) and isinstance(w, dict):
        for k in sorted(set(g) | set(w)):
            if g.get(k) != w.get(k):
                return ("%s" % k, "`%s` is %s, expected %s" % (k, json.dumps(g.get(k))[:600], json.dumps(w.get(k))[:600]))
    return ("value", "got %s, expected %s" % (json.dumps(g)[:600], json.dumps(w)[:600]))
