"""C13 — cylindrical and mirror symmetry: the index maps and the induction model (structural part only).

Equivariance of the *numerical* pipeline is a relation between pairs of floating-point executions and is not decided
here.  What is decided are the necessary conditions that live in the shape of the code: the wire <-> pad-column maps
commute with the rotation, blocks of wires are enumerated cyclically, the labels of the deconvolved wires follow that
enumeration, the induction matrix depends on the wire distance only (Toeplitz), the pad rows are placed
antisymmetrically about the mid-plane — and that the induction matrix of a block that covers the whole ring couples
the wires by *ring* distance (today it does not: known finding F7)."""
import json
import re

from .. import accept
from ..facts import AnchorMissing
from .. import funeval
from ..finite import eval_poly
from ..guards import analysis, closure_info as closure_info_
from ..sym import Sym, Poly, forward_paths, path_atoms
from ..terms import strip, unmut, short, cname, walk

LEVEL = "other"
M = "alpha_g_physics::matching::"
W = "alpha_g_physics::deconvolution::wires::"
W2C = M + "wire_to_pad_column"
C2W = M + "pad_column_to_wires"
R2I = W + "range_to_indices"
R2L = W + "range_to_len"
AMAT = W + "a_matrix"
YMAT = W + "y_matrix"
WRD = W + "wire_range_deconvolution"
PDIM = W + "problem_dimensions"
CONTIG = W + "contiguous_ranges"
AVAL = "alpha_g_physics::MainEvent::avalanches"
PADROW_Z = "alpha_g_detector::padwing::map::TpcPadRow::z"
WIRES, COLUMNS, ROWS = 256, 32, 576


def consts(prog):
    out = {}
    for name, path in (("wires", "alpha_g_detector::alpha16::aw_map::TPC_ANODE_WIRES"), ("columns", "alpha_g_detector::padwing::map::TPC_PAD_COLUMNS"),
                       ("rows", "alpha_g_detector::padwing::map::TPC_PAD_ROWS")):
        try:
            out[name] = int(prog.const_scalar(path))
        except Exception:
            raise AnchorMissing("constant %s" % path)
    return out


def seq_of(v):
    """list of indices of an evaluated iterator value: Range / Chain"""
    if isinstance(v, tuple) and v and v[0] == "Range" and len(v) == 3:
        return list(range(v[1], v[2]))
    if isinstance(v, tuple) and v and v[0] == "Chain" and len(v) == 3:
        a, b = seq_of(v[1]), seq_of(v[2])
        return None if a is None or b is None else a + b
    return None


def boxed_iter_table(prog, fn, names, domain):
    """like funeval.fn_table for a function returning `Box::new(<range or chain of ranges>)`: the value on each path
    is the argument of the path's Box::new call"""
    body = prog.body(fn)
    an = analysis(prog, body)
    sy = Sym(prog, an, slice_param=99)
    per_path = []
    for rb in body.returns():
        for path in forward_paths(an, rb) or []:
            ats = path_atoms(sy, path)
            boxes = [(bb, t) for bb, t in body.calls() if bb in path[1] and short(cname(t)) == "Box::<T>::new"]
            if len(boxes) != 1:
                return {}, ["%d Box::new calls on one return path of %s" % (len(boxes), short(fn))]
            per_path.append((ats, path, an.terms.operand(boxes[0][1]["args"][0])))

    def ev(t, env):
        t0 = unmut(t)
        if t0[0] == "call" and short(t0[1]) == "Iterator::chain" and len(t0[2]) == 2:
            a, b = ev(t0[2][0], env), ev(t0[2][1], env)
            return None if a is None or b is None else ("Chain", a, b)
        return funeval.ev_value(prog, sy, t0, env)
    table, problems = {}, []
    for pt in domain:
        env = dict(zip(names, pt))
        hits = []
        for ats, path, d in per_path:
            h = funeval.holds(sy, ats, env)
            if h is None:
                problems.append("a path guard of %s cannot be evaluated at %r" % (short(fn), pt))
                break
            if h:
                sy.set_path(path[1])
                try:
                    v = ev(d, env)
                finally:
                    sy.set_path(None)
                if v is None:
                    problems.append("the iterator built by %s cannot be evaluated at %r" % (short(fn), pt))
                    break
                hits.append(v)
        else:
            if len(set(map(repr, hits))) == 1:
                table[pt] = hits[0]
            else:
                problems.append("%d feasible paths of %s at %r" % (len(hits), short(fn), pt))
        if len(problems) > 4:
            break
    return table, problems


def a_matrix_model(prog):
    """per path of the a_matrix closure: (atoms, index polynomial of the NEIGHBOR_FACTORS lookup); plus Sym, the table"""
    clo = [p for p in prog.bodies if p.startswith(AMAT + "::{closure#") and "promoted" not in p]
    if len(clo) != 1:
        raise AnchorMissing("the element closure of a_matrix")
    body = prog.body(clo[0])
    an = analysis(prog, body)
    sy = Sym(prog, an, slice_param=99)
    out = []
    for rb in body.returns():
        for path in forward_paths(an, rb) or []:
            ats = path_atoms(sy, path)
            sy.set_path(path[1])
            try:
                defs = sy.var_defs(0) or []
                if len(defs) != 1:
                    return None, sy, "the closure's value has %d definitions on one path" % len(defs)
                v = strip(defs[0])
                # unwrap_or(copied(get(TABLE, idx)), 0.0)   or   match TABLE.get(idx) { Some(&f) => f, None => 0.0 }
                ok = v[0] == "call" and short(v[1]) == "Option::<T>::unwrap_or" and len(v[2]) == 2
                dflt = funeval.ev_value(prog, sy, v[2][1], {}) if ok else None
                g = strip(v[2][0]) if ok else None
                while g is not None and g[0] == "call" and short(g[1]) in ("Option::<&T>::copied", "Option::<&T>::cloned") and g[2]:
                    g = strip(g[2][0])
                if not ok:
                    gets = [(bb_, t_) for bb_, t_ in body.calls() if short(cname(t_)) == "<impl [T]>::get" and bb_ in path[1]]
                    if len(gets) == 1:
                        gc = strip(an.terms.call_term(gets[0][1], gets[0][0]))
                        gname = sy.name(gc)
                        tags = [a_[0] for a_ in ats if a_[0] in ("some", "none") and a_[1] == gname]
                        if tags == ["some"] and v[0] == "field" and v[2] == 0 and strip(v[1])[0] == "downcast" and strip(strip(v[1])[1]) == gc:
                            ok, dflt, g = True, 0.0, gc
                        elif tags == ["none"] and funeval.ev_value(prog, sy, v, {}) == 0.0:
                            ok, dflt, g = True, 0.0, gc
                        ats = [a_ for a_ in ats if not (a_[0] in ("some", "none") and a_[1] == gname)]
                if not ok:
                    # `if idx < TABLE.len() { TABLE[idx] } else { 0.0 }`: the same bounds-checked lookup with a default
                    from ..guards import as_cmp as _as_cmp, truth_of as _truth_of
                    for (s_, t_) in path[0]:
                        d_, rel_, vals_ = an.edge_atom(s_, t_)
                        tr_ = _truth_of(rel_, vals_)
                        c_ = _as_cmp(strip(d_), True) if tr_ is not None else None
                        if c_ is None:
                            continue
                        op_, a_, b_ = c_[0], strip(c_[1]), strip(c_[2])
                        if op_ in ("Gt", "Ge"):
                            op_, a_, b_ = {"Gt": "Lt", "Ge": "Le"}[op_], b_, a_
                        if op_ == "Lt" and b_[0] == "call" and short(b_[1]) in ("<impl [T]>::len", "<impl [T; N]>::len") and len(b_[2]) == 1:
                            tbl_ = strip(b_[2][0])
                            while tbl_[0] == "cast" and "Unsize" in str(tbl_[1]):
                                tbl_ = strip(tbl_[2])
                            vv = v
                            while vv[0] in ("ref", "deref"):
                                vv = vv[1]
                            in_range = tr_
                            if in_range and ((vv[0] == "index" and strip(vv[1]) == tbl_ and strip(vv[2]) == a_) or
                                             (vv[0] == "call" and short(vv[1]) == "Index::index" and strip(vv[2][0]) == tbl_ and strip(vv[2][1]) == a_)):
                                ok, dflt = True, 0.0
                                g = ("call", "core::slice::<impl [T]>::get", (tbl_, a_), -1)
                            elif not in_range and funeval.ev_value(prog, sy, v, {}) == 0.0:
                                ok, dflt = True, 0.0
                                g = ("call", "core::slice::<impl [T]>::get", (tbl_, a_), -1)
                            if ok:
                                key_ = str(sy.atoms(d_, rel_, vals_))
                                ats = [x_ for x_ in ats if str([x_]) != key_ and str(x_) not in key_]
                                break
                if not (ok and dflt == 0.0 and g[0] == "call" and short(g[1]) == "<impl [T]>::get" and len(g[2]) == 2):
                    return None, sy, "the element is not `TABLE.get(index).copied().unwrap_or(0.0)`: %s" % sy.name(defs[0])[:160]
                idx = sy.poly(g[2][1])
                if idx is None:
                    return None, sy, "the table index is not an integer expression of (i, j)"
                out.append((ats, idx, sy.name(g[2][0])))
            finally:
                sy.set_path(None)
    return out, sy, None


def run(prog, tier, res):
    res.explanation = ("Necessary structural conditions of the rotation/mirror symmetry, decided exhaustively on the finite index domains: "
                       "input/output tables of the index maps (formulas of every return path evaluated at all 256 wires / 32 columns / "
                       "all block descriptors / 576 rows) and symbolic shift-invariance of the induction-matrix index. The numerical "
                       "equivariance of the deconvolution itself is NOT decided.")
    res.trusted = ["IEEE-754 double arithmetic of the evaluation host equals Rust's f64 for + - * / (TpcPadRow::z formula)",
                   "faer Mat::with_dims(n, m, f) fills entry (i, j) with f(i, j)"]
    k = consts(prog)
    if (k["wires"], k["columns"], k["rows"]) != (WIRES, COLUMNS, ROWS):
        # the property statement fixes 256 wires / 32 columns of 8 wires / 576 rows
        res.violate("C13.R1", "-", "geometry", "geometry constants are %r, the property is stated for 256 wires, 32 pad columns, 576 pad rows" % k)
    per = WIRES // COLUMNS
    R1 = res.rule("C13.R1", "wire_to_pad_column: total on 0..256 into 0..32, 8 wires per column, and rotation by one column (8 wires) maps column c to c+1 (mod 32)", WIRES)
    R2 = res.rule("C13.R2", "pad_column_to_wires(c) is the contiguous range of exactly the 8 wires that wire_to_pad_column maps to c (no wrap inside a column)", COLUMNS)
    R3 = res.rule("C13.R3", "avalanches(): a deconvolved wire is stored under its own label, its column is wire_to_pad_column(label); each column pairs the wires of pad_column_to_wires(column) with pad_signals[column]", 5)
    R4 = res.rule("C13.R4", "blocks are enumerated cyclically: range_to_indices(first, last) = first, first+1, ... (mod 256), range_to_len = its length, for every block descriptor", 1000)
    R5 = res.rule("C13.R5", "labels follow the enumeration: result = range_to_indices(range) zipped with the per-column solutions in column order; column j of Y is the signal of the j-th index", 4)
    R6 = res.rule("C13.R6", "induction matrix is n x n Toeplitz and symmetric: the NEIGHBOR_FACTORS index is invariant under (i, j) -> (i+1, j+1) and under (i, j) -> (j, i) on every path", 2)
    R7 = res.rule("C13.R7", "a block covering the whole ring is coupled by ring distance: the matrix index at the 255/0 seam equals the index of adjacent wires", 0)
    R8 = res.rule("C13.R8", "pad rows are antisymmetric about the mid-plane: z(row) + z(575 - row) = 0 within 1e-9 m for all 576 rows, z strictly increasing", ROWS)

    # ------------------------------------------------------------------ R1 / R2: the two index maps
    col, prob = funeval.fn_table(prog, W2C, ["arg1"], [(w,) for w in range(WIRES)])
    res.functions.add(W2C)
    where = prog.body(W2C).where()
    if prob or len(col) != WIRES:
        res.violate(R1, W2C, "evaluate", "cannot tabulate wire_to_pad_column over 0..256: %s" % (prob[:2],), where, kind="undecided")
    else:
        cols = {w: col[(w,)] for w in range(WIRES)}
        bad = []
        for w in range(WIRES):
            c = cols[w]
            if not (isinstance(c, int) and 0 <= c < COLUMNS):
                bad.append(("range:w=%d" % w, "wire %d maps to %r, not a pad column 0..32" % (w, c)))
                continue
            c2 = cols[(w + per) % WIRES]
            if c2 != (c + 1) % COLUMNS:
                bad.append(("rotation:w=%d" % w, "wire %d is in column %d but the wire 8 further (%d) is in column %r, not %d: rotating by one pad column "
                            "does not move the wire to the next column" % (w, c, (w + per) % WIRES, c2, (c + 1) % COLUMNS)))
            res.oblige(True, "finite-eval")
            res.hit(R1)
        for c in range(COLUMNS):
            n = sum(1 for w in range(WIRES) if cols[w] == c)
            if n != per:
                bad.append(("count:c=%d" % c, "%d wires map to pad column %d (expected 8)" % (n, c)))
        for key, what in bad[:6]:
            res.violate(R1, W2C, key, what, where)
        res.sample({"wire_to_pad_column": {str(w): cols[w] for w in (0, 7, 8, 15, 255)}})
        # R2
        rng, prob2 = funeval.fn_table(prog, C2W, ["arg1"], [(c,) for c in range(COLUMNS)])
        res.functions.add(C2W)
        where2 = prog.body(C2W).where()
        if prob2 or len(rng) != COLUMNS:
            res.violate(R2, C2W, "evaluate", "cannot tabulate pad_column_to_wires over 0..32: %s" % (prob2[:2],), where2, kind="undecided")
        else:
            for c in range(COLUMNS):
                v = rng[(c,)]
                ws = seq_of(v)
                want = [w for w in range(WIRES) if cols[w] == c]
                if ws is None or ws != want:
                    res.violate(R2, C2W, "column:c=%d" % c, "pad_column_to_wires(%d) = %r but the wires that wire_to_pad_column maps to column %d are %r" % (
                        c, v, c, want[:10]), where2)
                else:
                    res.hit(R2)
                res.oblige(ws == want, "finite-eval")

    # ------------------------------------------------------------------ R3: wiring inside avalanches()
    b = prog.body(AVAL)
    an = analysis(prog, b)
    sy = Sym(prog, an, slice_param=99)
    res.functions.add(AVAL)
    calls = {}
    for bb, t in b.calls():
        calls.setdefault(cname(t), []).append((bb, t))

    def one(callee):
        cs = calls.get(callee, [])
        if len(cs) != 1:
            raise AnchorMissing("%d calls of %s in MainEvent::avalanches" % (len(cs), short(callee)))
        return cs[0]
    bb_w2c, t_w2c = one(W2C)
    bb_c2w, t_c2w = one(C2W)
    bb_wrd, t_wrd = one(WRD)
    bb_m, t_m = one(M + "match_column_inputs")
    wa = b.where(bb_m)
    label = sy.name(an.terms.operand(t_w2c["args"][0]))
    wrd_name = sy.name(an.terms.call_term(t_wrd, bb_wrd))
    # the label is field 0 of an item of wire_range_deconvolution(signals, range) with range an item of contiguous_ranges
    ok_label = label.endswith(".0") and short(WRD) in label and "contiguous_ranges" in label
    if ok_label:
        res.hit(R3)
    else:
        res.violate(R3, AVAL, "column-of-label", "the pad column is not computed from the label of the deconvolved wire: wire_to_pad_column(%s)" % label[:160], wa)
    # the store wire_inputs[label] = item.1
    stores = []
    for bi, si, st in b.stmts():
        if st["k"] == "assign" and st["p"]["pr"] and any(e.get("k") == "index" for e in st["p"]["pr"]):
            ty = b.locals[st["p"]["l"]]["ty"]
            if ty.get("k") == "array" and ty.get("n") == WIRES:
                ix = [e for e in st["p"]["pr"] if e.get("k") == "index"][0]
                an.terms._pos = (bi, si)
                stores.append((sy.name(an.terms.operand({"k": "copy", "p": {"l": ix["l"], "pr": []}})), sy.name(an.terms.rvalue(st["rv"]))))
    good = [s for s in stores if s[0] == label and s[1] == label[:-2] + ".1"]
    if len(stores) == 1 and good:
        res.hit(R3)
    else:
        res.violate(R3, AVAL, "store-by-label", "the deconvolved input of a wire is not stored at the wire's own label: stores into the 256-slot array are %r" % (stores[:3],), wa)
    colv = sy.name(an.terms.operand(t_c2w["args"][0]))
    a0, a1, a2 = [sy.name(an.terms.operand(a)) for a in t_m["args"]]
    c2w_name = sy.name(an.terms.call_term(t_c2w, bb_c2w))
    if c2w_name in a0 and "Index::index(" in a1 and c2w_name in a1:
        res.hit(R3)
    else:
        res.violate(R3, AVAL, "column-wires", "match_column_inputs does not receive the indices and the inputs of pad_column_to_wires(column): %s / %s" % (a0[:120], a1[:120]), wa)
    # every column starts from fresh scratch state: a local that is written in place (mutable borrow / element store)
    # inside the column loop must also be (re)created inside it -- unless it is the returned collection.  Scratch that
    # survives from the previous column makes a column's result depend on which column was processed before it, and
    # the rotation changes that order at the 31/0 seam.
    col_loops = []
    drivers = set()              # the iterators that drive the loops (advanced by next(): not scratch state)
    for bbn, tn in b.calls():
        if short(cname(tn)) == "Iterator::next" and tn["args"]:
            o_ = tn["args"][0]
            l_ = (o_.get("p") or {}).get("l")
            while l_ is not None and b.locals[l_].get("name") is None and len(an.terms.defs.whole[l_]) == 1 and an.terms.defs.whole[l_][0][1] != "t" \
                    and an.terms.defs.whole[l_][0][2].get("k") == "ref":
                l_ = an.terms.defs.whole[l_][0][2]["p"]["l"]
            drivers.add(l_)
            if l_ is not None and "btree_set::IntoIter" in pp_ty(b.locals[l_]["ty"]):
                for tl_, hd_ in b.back_edges():
                    lp_ = set(b.natural_loop(tl_, hd_))
                    if bbn in lp_:
                        col_loops.append(lp_)
    if col_loops:
        lpc = max(col_loops, key=len)
        returned = set()
        for bi_, si_, st_ in b.stmts():
            if st_["k"] == "assign" and st_["p"] == {"l": 0, "pr": []} and st_["rv"].get("k") == "use":
                returned.add(((st_["rv"]["o"].get("p") or {}).get("l")))
        carried = []
        for l_ in range(b.argc + 1, len(b.locals)):
            if not b.locals[l_].get("name") or l_ in returned or l_ in drivers:
                continue
            whole_in = any(d_[0] in lpc for d_ in an.terms.defs.whole[l_])
            mut_in = any(d_[0] in lpc for d_ in an.terms.defs.partial[l_])
            for bi_, si_, st_ in b.stmts():
                if bi_ in lpc and st_["k"] == "assign" and st_["rv"].get("k") == "ref" and st_["rv"].get("m") and st_["rv"]["p"]["l"] == l_:
                    mut_in = True
            if mut_in and not whole_in and an.terms.defs.whole[l_]:
                carried.append(b.locals[l_]["name"])
        if carried:
            res.violate(R3, AVAL, "carried-scratch:%s" % ",".join(sorted(set(carried))), "the column loop of avalanches() writes in place into %s, which is created before the loop and not reset per column: "
                        "entries left over from the previous column leak into the next one, so the result depends on the order in which the columns are processed" % sorted(set(carried)), wa)
        else:
            res.hit(R3)
    pd = calls.get("alpha_g_physics::deconvolution::pads::pad_deconvolution", [])
    pd_ok = False
    for bbp, tp in pd:
        nm = sy.name(an.terms.operand(tp["args"][0]))
        if ("arg1.1[%s][" % colv) in nm:
            pd_ok = True
        # the rows of the column walked in step with the scratch rows: `scratch.iter_mut().zip(&pad_signals[column])`
        if nm.startswith("((Iterator::next(mut(Iterator::zip(<impl [T]>::iter_mut(") and nm.endswith(",arg1.1[%s]))) as Some).0.1 as Some).0" % colv):
            pd_ok = True
    if not pd_ok:
        # the per-row deconvolution may sit in a closure (`array::from_fn(|row| ..)`): name its argument with the
        # closure's captures substituted by what avalanches() passes in
        from ..guards import closure_ret as _cr, subst_upvars as _su
        PD = "alpha_g_physics::deconvolution::pads::pad_deconvolution"
        for bi_, si_, st_ in b.stmts():
            if st_["k"] == "assign" and st_["rv"]["k"] == "aggr" and st_["rv"].get("ak") == "closure":
                an.terms._pos = (bi_, si_)
                cterm = an.terms.rvalue(st_["rv"])
                ci_ = closure_info_(prog, an, cterm)
                if not ci_:
                    continue
                cb_, cap_ = ci_
                can_ = analysis(prog, cb_)
                for bbp, tp in cb_.calls():
                    if cname(tp) == PD:
                        nm = sy.name(_su(can_.terms.operand(tp["args"][0]), cap_))
                        if ("arg1.1[%s][" % colv) in nm:
                            pd_ok = True
    if pd_ok:
        res.hit(R3)
    else:
        res.violate(R3, AVAL, "column-pads", "the pad signals matched with a column's wires are not pad_signals[column][row] of the same column", wa)
    # the columns visited are those inserted
    ins = [(bb, t) for bb, t in b.calls() if short(cname(t)).endswith("::insert")]
    ins_ok = any(sy.name(an.terms.operand(t["args"][1])) == sy.name(an.terms.call_term(t_w2c, bb_w2c)) for bb, t in ins)
    if ins_ok:
        res.hit(R3)
    else:
        res.violate(R3, AVAL, "column-set", "the set of columns to reconstruct is not filled with wire_to_pad_column(label)", wa)

    # ------------------------------------------------------------------ R4: cyclic enumeration of blocks
    step = 1 if tier == "thorough" else 1
    firsts = list(range(0, WIRES, step))
    dom = [(f, l) for f in firsts for l in range(0, WIRES + 1) if f != l and not (l == 0 and f > l)]
    # block descriptors: first < last <= 256 (plain) or first > last >= 1 (merged over the seam)
    lens, p1 = funeval.fn_table(prog, R2L, ["arg1.0", "arg1.1"], dom)
    seqs, p2 = boxed_iter_table(prog, R2I, ["arg1.0", "arg1.1"], dom)
    res.functions.update([R2L, R2I])
    wr = prog.body(R2I).where()
    if p1 or p2 or len(lens) != len(dom) or len(seqs) != len(dom):
        res.violate(R4, R2I, "evaluate", "cannot tabulate range_to_len / range_to_indices over the block descriptors: %s" % ((p1 + p2)[:2],), wr, kind="undecided")
    else:
        nbad = 0
        for (f, l) in dom:
            n = (l - f) % WIRES or WIRES
            want = [(f + i) % WIRES for i in range(n)]
            got = seq_of(seqs[(f, l)])
            if got != want or lens[(f, l)] != n:
                nbad += 1
                if nbad <= 3:
                    res.violate(R4, R2I, "block:(%d,%d)" % (f, l), "block [%d, %d) should be the %d wires %s... in ring order; range_to_indices gives %s, range_to_len gives %r" % (
                        f, l, n, want[:4], (got or [])[:4] if got is not None else seqs[(f, l)], lens[(f, l)]), wr)
            else:
                res.hit(R4)
        res.oblige(nbad == 0, "finite-eval")
    res.extra["block_descriptors_evaluated"] = len(dom)

    # ------------------------------------------------------------------ R5: labels follow the enumeration
    bw = prog.body(WRD)
    anw = analysis(prog, bw)
    syw = Sym(prog, anw, slice_param=99)
    res.functions.add(WRD)
    rets = []
    for rb in bw.returns():
        for path in (forward_paths(anw, rb) or [])[:8]:
            syw.set_path(path[1])
            try:
                rets += [syw.name(d) for d in (syw.var_defs(0) or [])]
            finally:
                syw.set_path(None)
    rets = sorted(set(rets))
    ww = bw.where()
    r2i_s, y_s, pd_s = short(R2I), short(YMAT), short(PDIM)
    PUSH_FORM = "Iterator::collect(Iterator::zip(%s(arg2),vec[push " % R2I
    MAP_FORM = "Iterator::collect(Iterator::zip(%s(arg2),Iterator::collect(Iterator::map(Range{0," % R2I      # push loop named as map/collect
    if len(rets) == 1 and rets[0].startswith(MAP_FORM):
        res.hit(R5)
        r = rets[0]
        ncols = ["%s(arg1,arg2).1" % PDIM, "%s(arg2)" % R2L]
        cols_ok = any(r.startswith(MAP_FORM + nc + "},|x| ") for nc in ncols)
        rows_ok = ("Range{0,%s(arg1,arg2).0}" % PDIM) in r or ("Iterator::map(Range{0,Option::<T>::unwrap(Iterator::max(Iterator::map(%s(arg2)," % R2I) in r
        # the element closure reads entry (row = its argument, column = the captured loop variable) of the captured matrix
        eclo = [p_ for p_ in prog.bodies if p_.startswith(WRD + "::{closure#") and "promoted" not in p_]
        read_ok = False
        for p_ in eclo:
            cb_ = prog.body(p_)
            can_ = analysis(prog, cb_)
            rr = [strip(t_) for _, t_ in can_.ret_assignments()]
            if len(rr) == 1 and rr[0][0] == "call" and short(rr[0][1]) == "Mat::<E>::read" and len(rr[0][2]) == 3:
                m_, row_, col_ = [strip(x_) for x_ in rr[0][2]]
                read_ok = row_ == ("param", 2) and col_[0] == "field" and col_[2] == 1 and m_[0] == "field" and m_[2] == 0
        cap_ok = ("{&mut(wires::y_matrix(arg1, arg2)), carg0}" in r) or ("y_matrix(arg1, arg2)" in r and ", carg0}" in r)
        if cols_ok and rows_ok and read_ok and cap_ok:
            res.hit(R5)
        else:
            res.violate(R5, WRD, "column-order", "the k-th solution is not computed from column k of y_matrix(signals, range) over all rows: %s" % r[:300], ww)
    elif len(rets) == 1 and rets[0].startswith(PUSH_FORM):
        res.hit(R5)
        r = rets[0]
        # the pushed solution of loop column c reads column c of y_matrix(arg1, arg2), c over 0..dims.1
        # the dimensions either as the helper call or inlined (problem_dimensions is a private straight-line helper)
        ncols = ["%s(arg1,arg2).1" % PDIM, "%s(arg2)" % R2L]
        cols_ok = any(("Mat::<E>::read(mut(%s(arg1,arg2)),x,(Iterator::next(mut(Range{0,%s})) as Some).0)" % (YMAT, nc)) in r for nc in ncols)
        rows_ok = ("Range{0,%s(arg1,arg2).0}" % PDIM) in r or ("Iterator::map(Range{0,Option::<T>::unwrap(Iterator::max(Iterator::map(%s(arg2)," % R2I) in r
        if cols_ok and rows_ok:
            res.hit(R5)
        else:
            res.violate(R5, WRD, "column-order", "the k-th solution is not computed from column k of y_matrix(signals, range) over all rows: %s" % r[:300], ww)
    else:
        res.violate(R5, WRD, "labels", "wire_range_deconvolution does not return range_to_indices(range) zipped with the solutions in push order: %s" % (rets[:1],), ww)
    yclo = [p for p in prog.bodies if p.startswith(YMAT + "::{closure#") and "promoted" not in p]
    if len(yclo) != 1:
        raise AnchorMissing("element closure of y_matrix")
    by = prog.body(yclo[0])
    any_ = analysis(prog, by)
    syy = Sym(prog, any_, slice_param=99)
    yr = sorted(set(syy.name(t) for bb, t in any_.ret_assignments()))
    want_y = "Option::<T>::unwrap_or(Option::<&T>::copied(<impl [T]>::get(Option::<T>::unwrap(Option::<T>::as_ref(arg1.1[Option::<T>::unwrap(Iterator::nth(mut(%s(arg1.0)),arg3))])),arg2)),0.0)" % R2I
    if yr == [want_y]:
        res.hit(R5)
    else:
        res.violate(R5, YMAT, "column-signal", "entry (i, j) of Y is not sample i (0.0 past the end) of the signal of the j-th index of the block: %s" % (yr[:1],), by.where())
    bp = prog.body(PDIM)
    anp = analysis(prog, bp)
    syp = Sym(prog, anp, slice_param=99)
    pr = sorted(set(syp.name(t) for bb, t in anp.ret_assignments()))
    if len(pr) == 1 and pr[0].endswith(",%s(arg2)}" % R2L) and ("Iterator::max(Iterator::map(%s(arg2)," % R2I) in pr[0]:
        res.hit(R5)
    else:
        res.violate(R5, PDIM, "dimensions", "problem dimensions are not (longest signal of the block, range_to_len(range)): %s" % (pr[:1],), bp.where())

    # ------------------------------------------------------------------ R6 / R7: the induction matrix
    ba = prog.body(AMAT)
    ana = analysis(prog, ba)
    sya = Sym(prog, ana, slice_param=99)
    res.functions.add(AMAT)
    wd = [(bb, t) for bb, t in ba.calls() if short(cname(t)).endswith("::with_dims")]
    dims_ok = len(wd) == 1 and [sya.name(ana.terms.operand(a)) for a in wd[0][1]["args"][:2]] == ["arg1", "arg1"]
    model, sym_a, why = a_matrix_model(prog)
    wam = ba.where()
    if model is None or not dims_ok:
        res.violate(R6, AMAT, "shape", "a_matrix is not `Mat::with_dims(n, n, |i, j| TABLE.get(index(i, j)).copied().unwrap_or(0.0))`: %s" % (why or "dimensions are not (n, n)"), wam, kind="undecided")
    else:
        I, J = Poly.sym("arg2"), Poly.sym("arg3")
        one_ = Poly.const(1)

        def shift(p, depth=0):
            """p with (i, j) -> (i+1, j+1); comparison flags inside p must themselves be shift-invariant; None if p
            mentions anything else"""
            q = p
            for s_ in p.syms():
                if s_ in ("arg2", "arg3"):
                    continue
                if s_ in sym_a.b2i and depth < 3:
                    op_, pa_, pb_ = sym_a.b2i[s_]
                    d_ = pa_ - pb_
                    sd = shift(d_, depth + 1)
                    if sd is None or not (sd == d_):
                        return None
                    continue
                return None
            return q.subs_poly("arg2", I + one_).subs_poly("arg3", J + one_)

        def swap(p):
            if not set(p.syms()) <= {"arg2", "arg3"}:
                return None
            return p.subs_poly("arg2", Poly.sym("@")).subs_poly("arg3", I).subs_poly("@", J)
        toeplitz = True
        for ats, idx, tab in model:
            sh = shift(idx)
            if sh is None or not (sh == idx):
                toeplitz = False
            for a in ats:
                if a[0] != "rel" or shift(a[2]) is None or not (shift(a[2]) == a[2]):
                    toeplitz = False
        # symmetry: the set of (guard, index) pairs is closed under the swap up to the boundary i == j (index 0 there)
        pts = [(i, j) for i in range(0, 9) for j in range(0, 9)]

        def index_at(i, j):
            env = {"arg2": i, "arg3": j}
            hit = [eval_poly(sym_a, idx, env) for ats, idx, tab in model if funeval.holds(sym_a, ats, env)]
            vals_ = set(hit)
            return int(hit[0]) if len(vals_) == 1 and hit[0] is not None else None
        symmetric = all(index_at(i, j) is not None and index_at(i, j) == index_at(j, i) for i, j in pts)
        res.oblige(toeplitz, "symbolic-shift")
        res.oblige(symmetric, "finite-eval")
        if toeplitz:
            res.hit(R6)
        else:
            res.violate(R6, AMAT, "toeplitz", "the coupling between wires i and j depends on more than their distance (index or a guard changes under (i, j) -> (i+1, j+1)): "
                        "the same pattern placed elsewhere in a block is deconvolved differently", wam)
        if symmetric:
            res.hit(R6)
        else:
            res.violate(R6, AMAT, "symmetric", "the coupling index of (i, j) differs from that of (j, i)", wam)
        # R7: full ring
        reach = any(lens.get((0, WIRES)) == WIRES for _ in [0]) if not (p1 or p2) else False
        seam = index_at(WIRES - 1, 0)
        adj = index_at(0, 1)
        res.extra["full_ring"] = {"range_to_len(0,256)": lens.get((0, WIRES)) if not p1 else None, "index(255,0)": seam, "index(0,1)": adj}
        if seam is None or adj is None:
            res.violate(R7, AMAT, "evaluate", "cannot evaluate the matrix index at the seam", wam, kind="undecided")
        elif reach and seam != adj:
            res.violate(R7, AMAT, "full-ring:seam(255,0)", "a block covering all 256 wires (contiguous_ranges -> (0, 256), range_to_len = 256) is solved with a_matrix(256) whose entry (255, 0) "
                        "uses NEIGHBOR_FACTORS index %d (no coupling) although wires 255 and 0 are neighbours on the ring (adjacent wires use index %d): the matrix is "
                        "Toeplitz but not circulant, so rotating a full-ring event changes the result" % (seam, adj), wam)
        else:
            res.hit(R7)

    # ------------------------------------------------------------------ R8: pad rows about the mid-plane
    z, pz = funeval.fn_table(prog, PADROW_Z, ["arg1.0"], [(r,) for r in range(ROWS)])
    res.functions.add(PADROW_Z)
    wz = prog.body(PADROW_Z).where()
    if pz or len(z) != ROWS or not all(isinstance(v, float) for v in z.values()):
        res.violate(R8, PADROW_Z, "evaluate", "cannot tabulate TpcPadRow::z over 0..576: %s" % (pz[:2],), wz, kind="undecided")
    else:
        nb = 0
        for r in range(ROWS):
            if abs(z[(r,)] + z[(ROWS - 1 - r,)]) > 1e-9 or (r and not z[(r,)] > z[(r - 1,)]):
                nb += 1
                if nb <= 3:
                    res.violate(R8, PADROW_Z, "row:%d" % r, "z(row %d) = %r and z(row %d) = %r are not mirror images about the mid-plane (or z is not increasing)" % (
                        r, z[(r,)], ROWS - 1 - r, z[(ROWS - 1 - r,)]), wz)
            else:
                res.hit(R8)
        res.oblige(nb == 0, "finite-eval")
    # ------------------------------------------------------------------ R9: the seam merge of contiguous_ranges
    R9 = res.rule("C13.R9", "contiguous_ranges merges the first and the last block exactly when there are at least two blocks, the first starts at wire 0 and the last ends at wire 256; the merged block is (start of the last, end of the first)", 3)
    bc = prog.body(CONTIG)
    anc = analysis(prog, bc)
    res.functions.add(CONTIG)
    wc = bc.where()
    pops = [(bb, t) for bb, t in bc.calls() if short(cname(t)) == "Vec::<T, A>::pop"]
    srs = [(bb, t) for bb, t in bc.calls() if short(cname(t)) == "Vec::<T, A>::swap_remove"]
    if len(pops) != 1 or len(srs) != 1:
        res.violate(R9, CONTIG, "merge-shape", "the seam merge is not one pop() of the last block and one swap_remove(0) of the first (found %d / %d)" % (len(pops), len(srs)), wc, kind="undecided")
    else:
        pbb = pops[0][0]
        from ..guards import as_cmp, truth_of
        len_ok = first_ok = last_ok = None
        others = []
        for (d, rel, vals) in anc.atoms_at(pbb):
            d0 = strip(d)
            txt = str(d0)
            c = as_cmp(d0, True) if d0[0] in ("bin", "un", "call") else None
            tr = truth_of(rel, vals)
            # the same three tests as one slice pattern `[(0, e), .., (s, 256)]` on `ranges[..]`: length, element 0 from the
            # front, element 1 from the back (= the last)
            def vec_slice(x_):
                x_ = strip(x_)
                while x_[0] in ("ref", "deref"):
                    x_ = strip(x_[1])
                return x_[0] == "call" and short(x_[1]) == "Index::index" and len(x_[2]) == 2 and strip(x_[2][1])[0] == "aggr" \
                    and strip(x_[2][1])[1].endswith("RangeFull::RangeFull") and "Vec" in str(x_[2][0])[:400]
            if d0[0] == "field" and rel == "in" and strip(d0[1])[0] == "cindex" and vec_slice(strip(d0[1])[1]):
                ci_ = strip(d0[1])
                if d0[2] == 0 and ci_[2] == 0 and not ci_[3]:
                    first_ok = sorted(vals) == [0]
                    continue
                if d0[2] == 1 and ci_[2] == 1 and ci_[3]:
                    last_ok = sorted(vals) == [WIRES]
                    continue
            if c is not None and tr is not None and any(x[0] == "len" and vec_slice(x[1]) for x in walk(d0) if isinstance(x, tuple) and len(x) == 2) \
                    and not any(x[0] == "var" for x in walk(d0)):
                op, a, b = c
                def val2(x, n):
                    x = strip(x)
                    if x[0] == "const":
                        return x[1]
                    if x[0] == "len" and vec_slice(x[1]):
                        return n
                    return None
                tbl = []
                for n in range(0, 7):
                    va, vb = val2(a, n), val2(b, n)
                    if va is None or vb is None:
                        tbl = None
                        break
                    r = {"Eq": va == vb, "Ne": va != vb, "Lt": va < vb, "Le": va <= vb, "Gt": va > vb, "Ge": va >= vb}[op]
                    tbl.append(r == tr)
                if tbl is not None:
                    len_ok = tbl if len_ok is None else [x and y for x, y in zip(len_ok, tbl)]
                    continue
            if c is not None and tr is not None and "Vec::<T, A>::len" in txt and not any(x[0] == "var" for x in walk(d0)):
                # a comparison of the number of blocks with a constant: evaluate it for 0..6 blocks
                op, a, b = c
                sa, sb = strip(a), strip(b)
                def val(x, n):
                    if x[0] == "const":
                        return x[1]
                    if x[0] == "call" and short(x[1]) in ("Vec::<T, A>::len", "<impl [T]>::len"):
                        return n
                    return None
                tbl = []
                for n in range(0, 7):
                    va, vb = val(sa, n), val(sb, n)
                    if va is None or vb is None:
                        tbl = None
                        break
                    r = {"Eq": va == vb, "Ne": va != vb, "Lt": va < vb, "Le": va <= vb, "Gt": va > vb, "Ge": va >= vb}[op]
                    tbl.append(r == tr)
                if tbl is not None:
                    len_ok = tbl if len_ok is None else [x and y for x, y in zip(len_ok, tbl)]
                    continue
            if d0[0] == "field" and rel == "in" and "<impl [T]>::first" in txt and d0[2] == 0:
                first_ok = sorted(vals) == [0]
                continue
            if d0[0] == "field" and rel == "in" and "<impl [T]>::last" in txt and d0[2] == 1:
                last_ok = sorted(vals) == [WIRES]
                continue
            if c is not None and tr is not None and c[0] in ("Eq", "Ne") and (c[0] == "Eq") == tr:
                # the same tests by index: `ranges[0].0 == 0`, `ranges[ranges.len() - 1].1 == 256`
                for x_, y_ in ((strip(c[1]), strip(c[2])), (strip(c[2]), strip(c[1]))):
                    if y_[0] == "const" and x_[0] == "field" and x_[2] in (0, 1):
                        ix_ = strip(x_[1])
                        if ix_[0] == "call" and short(ix_[1]) == "Index::index" and len(ix_[2]) == 2 and "Vec" in str(ix_[2][0])[:400]:
                            i_ = strip(ix_[2][1])
                            is0 = i_[0] == "const" and i_[1] == 0
                            isl = i_[0] == "bin" and i_[1] == "Sub" and strip(i_[3])[0] == "const" and strip(i_[3])[1] == 1 and \
                                strip(i_[2])[0] == "call" and short(strip(i_[2])[1]) in ("Vec::<T, A>::len", "<impl [T]>::len")
                            if is0 and x_[2] == 0:
                                first_ok = y_[1] == 0
                                c = None
                            elif isl and x_[2] == 1:
                                last_ok = y_[1] == WIRES
                                c = None
                if c is None:
                    continue
            if d0[0] == "discr" or (d0[0] == "bin" and any(x[0] == "var" for x in walk(d0))):
                continue        # Some(..) tests of first()/last(), the scan loop's exit condition
            if d0[0] == "var" and bc.locals[d0[1]]["ty"].get("k") == "bool":
                continue        # a named boolean (`let starts = matches!(..)`): its defining guards are unfolded by atoms_at
            others.append(txt[:100])
        want_len = [n >= 2 for n in range(0, 7)]
        if len_ok is None:
            # first() and last() of a one-block list are the same block: (0, _) and (_, 256) then is the full ring,
            # which must not be merged with itself -> the count guard is needed
            len_ok = [n >= 1 for n in range(0, 7)]
        if len_ok == want_len:
            res.hit(R9)
        else:
            res.violate(R9, CONTIG, "merge-count", "the first and last block are merged when the number of blocks n satisfies %s; the ring needs the merge exactly for n >= 2 "
                        "(a lone block is left alone, two blocks that touch the seam are one block)" % ([n for n in range(7) if len_ok[n]],), wc)
        if first_ok and last_ok and not others:
            res.hit(R9)
        else:
            res.violate(R9, CONTIG, "merge-seam", "the merge is not guarded by exactly `first block starts at wire 0` and `last block ends at wire 256` (first: %s, last: %s, other guards: %s)" % (first_ok, last_ok, others[:2]), wc)
        # merged block = (pop().0, swap_remove(0).1)
        pushes = [(bb, t) for bb, t in bc.calls() if short(cname(t)) == "Vec::<T, A>::push" and bc.dominates(pbb, bb)]
        mk = False
        if len(pushes) == 1:
            arg = strip(anc.terms.operand(pushes[0][1]["args"][1]))
            if arg[0] == "aggr" and len(arg[2]) == 2:
                a0, a1 = strip(arg[2][0]), strip(arg[2][1])
                def src(x, idx):
                    if x[0] == "field" and x[2] == idx:
                        y = strip(x[1])
                        if y[0] == "call" and short(y[1]) in ("Option::<T>::unwrap", "Option::<T>::expect"):
                            y = strip(y[2][0])
                        if y[0] == "call":
                            return short(y[1]), y
                        # a binding of the `Some(&(a, b))` pattern that guards the merge: the same element, read
                        # through first()/last() before the list is modified
                        if y[0] == "field" and y[2] == 0 and strip(y[1])[0] == "downcast":
                            y = strip(y[1])
                        if y[0] == "downcast" and strip(y[1])[0] == "call":
                            return short(strip(y[1])[1]), strip(y[1])
                        # a binding of the slice pattern `[(0, e), .., (s, 256)]` on `ranges[..]`: element 0 from the front is
                        # first(), element 1 from the back is last(), both read before the list is modified
                        if y[0] == "cindex" and len(y) >= 4 and vec_slice(y[1]):
                            if y[2] == 0 and not y[3]:
                                return "<impl [T]>::first", y
                            if y[2] == 1 and y[3]:
                                return "<impl [T]>::last", y
                    return None, None
                s0, y0 = src(a0, 0)
                s1, y1 = src(a1, 1)
                zero = y1 is not None and y1[0] == "call" and len(y1[2]) == 2 and strip(y1[2][1]) == ("const", 0, "usize")
                order = bc.dominates(pbb, srs[0][0]) and pbb != srs[0][0]      # pop() first: swap_remove(0) moves the last block to the front
                sr0 = strip(anc.terms.operand(srs[0][1]["args"][1])) == ("const", 0, "usize")
                mk = order and sr0 and ((s0 == "Vec::<T, A>::pop" and s1 == "Vec::<T, A>::swap_remove" and zero) or
                                        (s0 in ("Vec::<T, A>::pop", "<impl [T]>::last") and s1 in ("Vec::<T, A>::swap_remove", "<impl [T]>::first") and (s1 != "Vec::<T, A>::swap_remove" or zero)))
        if mk:
            res.hit(R9)
        else:
            res.violate(R9, CONTIG, "merge-value", "the merged block is not (start of the popped last block, end of the removed first block)", wc)

    # ------------------------------------------------------------------ R10: hit lists are only reordered by amplitude
    R10 = res.rule("C13.R10", "match_column_inputs: the wire and pad hit lists of a time bin are modified only by a descending sort on the amplitude before they are zipped (no truncation / filtering that depends on the row order)", 2)
    MCI = M + "match_column_inputs"
    bm = prog.body(MCI)
    anm = analysis(prog, bm)
    res.functions.add(MCI)
    lists = {}
    for bb, t in bm.calls():
        if cname(t) in (M + "wire_hits_at_t", M + "pad_hits_at_t") and t.get("dest") and not t["dest"]["pr"]:
            lists[t["dest"]["l"]] = short(cname(t))
    if len(lists) != 2:
        raise AnchorMissing("hit lists of match_column_inputs")
    # mutable borrows of the two lists
    mut_refs = {}
    for bi, si, st in bm.stmts():
        if st["k"] == "assign" and st["rv"]["k"] == "ref" and st["rv"].get("m") and st["rv"]["p"]["l"] in lists and not st["rv"]["p"]["pr"] and not st["p"]["pr"]:
            mut_refs[st["p"]["l"]] = st["rv"]["p"]["l"]
    sorted_lists = set()
    for bb, t in bm.calls():
        s_ = short(cname(t))
        args = t["args"]
        srcs = [a["p"]["l"] for a in args if a.get("k") in ("move", "copy") and not a["p"]["pr"]]
        for l in srcs:
            if l in mut_refs:
                lst = mut_refs[l]
                if s_ in ("DerefMut::deref_mut",):
                    if t.get("dest") and not t["dest"]["pr"]:
                        # the reborrow of the slice: track it to its consumer
                        for bi, si, st in bm.stmts():
                            if st["k"] == "assign" and st["rv"]["k"] == "ref" and st["rv"]["p"]["l"] == t["dest"]["l"] and not st["p"]["pr"]:
                                mut_refs[st["p"]["l"]] = lst
                        mut_refs[t["dest"]["l"]] = lst
                    continue
                if s_ in ("<impl [T]>::sort_unstable_by", "<impl [T]>::sort_by"):
                    ci = closure_info_(prog, anm, anm.terms.operand(args[1]))
                    desc = False
                    if ci:
                        from ..guards import closure_ret
                        rets = closure_ret(prog, ci[0])
                        if len(rets) == 1:
                            r = strip(rets[0])
                            if r[0] == "call" and short(r[1]) in ("Option::<T>::unwrap", "Option::<T>::expect"):
                                r = strip(r[2][0])
                            if r[0] == "call" and short(r[1]).endswith("partial_cmp") and len(r[2]) == 2:
                                x, y = strip(r[2][0]), strip(r[2][1])
                                # descending: (second argument).amplitude compared with (first argument).amplitude
                                desc = x[0] == "field" and y[0] == "field" and x[2] == y[2] == 1 and strip(x[1]) == ("param", 3) and strip(y[1]) == ("param", 2)
                    if desc:
                        sorted_lists.add(lst)
                        res.hit(R10)
                    else:
                        res.violate(R10, MCI, "sort-key:%s" % lists[lst], "the hits of %s are not sorted by descending amplitude" % lists[lst], bm.where(bb))
                    continue
                res.violate(R10, MCI, "mutation:%s:%s" % (lists[lst], s_), "the hit list returned by %s is modified by `%s` before matching: which hits survive then depends on the "
                            "order in which rows/wires were scanned, which the rotation / mirror reverses" % (lists[lst], s_), bm.where(bb))
    for l, nm_ in lists.items():
        if l not in sorted_lists and not any(v.key().startswith("C13.R10|%s|" % MCI) for v in res.violations):
            res.violate(R10, MCI, "unsorted:%s" % nm_, "the hits of %s are matched without the amplitude sort" % nm_, bm.where())
    # ------------------------------------------------------------------ R11: the three-row window of pad_hits_at_t
    R11 = res.rule("C13.R11", "pad_hits_at_t: a three-row window slides by exactly one row per iteration over all rows (first := middle, middle := this row's "
                   "sample or 0.0, on every iteration path; seeded with rows 0 and 1), one hit per local maximum, hit built from the window", 3)
    res.functions.add(PADHITS)
    pw = pad_window(prog)
    wsp = accept.load_spec("c13.json")["pad_window"]
    for key_, what in (("window", "the hit candidates are the triples of adjacent rows (c-1, c, c+1) for every centre row c in order: a carried window seeded with rows 0 and 1 that slides by one row on every iteration, or windows(3)"),
                       ("pushes", "exactly one push of a hit in the row loop"),
                       ("value", "the hit is built from the triple (centre row, first, middle, last) by the centroid formula")):
        if pw.get(key_) == wsp[key_]:
            res.hit(R11)
        else:
            res.violate(R11, PADHITS, "window:%s" % key_, "%s: found %s" % (what, json.dumps(pw.get(key_))[:500]), prog.body(PADHITS).where(), detail={"got": pw.get(key_), "want": wsp[key_]})
    # ------------------------------------------------------------------ R12: the block scan of contiguous_ranges
    R12 = res.rule("C13.R12", "contiguous_ranges finds the blocks with two cursors: both start at wire 0, the end cursor advances by one exactly while it is "
                   "below 256 and its wire has a signal, a block (start, end) is recorded exactly when start < end, then start := end + 1 and end := start", 0)
    sm = scan_model(prog)
    res.extra["contiguous_ranges_scan"] = sm if sm is not None else "not the two-cursor form: the scan clause is not decided for this tree"
    if sm is not None:
        ssp = accept.load_spec("c13.json")["scan"]
        for key_, what in (("push", "a block is recorded as (start cursor, end cursor) exactly when the start cursor is below the end cursor"),
                           ("S", "the start cursor begins at wire 0 and is only ever moved to one past the end cursor"),
                           ("E", "the end cursor begins at wire 0, advances by one exactly while it is below 256 and its wire carries a signal, and is otherwise only reset to the start cursor")):
            if sm.get(key_) == ssp[key_]:
                res.hit(R12)
            else:
                res.violate(R12, CONTIG, "scan:%s" % key_, "%s: found %s" % (what, json.dumps(sm.get(key_))[:600]), wc, detail={"got": sm.get(key_), "want": ssp[key_]})
    res.undecided = ["bit-identical equivariance of the floating-point kernels (Cholesky solve, greedy deconvolution, matching by sorted amplitude)",
                     "contiguous_ranges: a scan that is not in the two-cursor form of the pinned tree (R12 decides that form only; the seam merge that follows it is R9)",
                     "mirror image of the centroid formula itself in floating point (the window that feeds it is R11)"]
    res.assumptions = ["rotation by k pad columns is k applications of the one-column rotation checked here"]


PADHITS = M + "pad_hits_at_t"


def pp_ty(ty):
    from .. import pp
    return pp.ty(ty)


def scan_model(prog):
    """the block scan of contiguous_ranges as data, in role vocabulary: S / E = the two integer cursors that are pushed as
    a pair inside the scan loops.  Returns None when the function is not in that two-cursor form (one push of a pair of
    loop-carried integer locals inside a loop): the clause is then not decided.  Otherwise
      push: {"value": "tuple{S,E}", "guards": [...]}        guards that dominate the push
      S / E: sorted list of [value, guards] over every assignment to the cursor."""
    from ..sym import atom_str
    b = prog.body(CONTIG)
    an = analysis(prog, b, positions=True)
    sy = Sym(prog, an, slice_param=99)
    tm = an.terms
    lp = set()
    for tl, h in b.back_edges():
        lp |= set(b.natural_loop(tl, h))
    if not lp:
        return None
    pushes = [(bb, t) for bb, t in b.calls() if bb in lp and short(cname(t)) == "Vec::<T, A>::push"]
    if len(pushes) != 1:
        return None
    pbb, pt = pushes[0]
    tm._pos = (pbb, "t")

    def carried_int(l):
        return b.locals[l]["ty"].get("k") == "int" and any(d[0] in lp for d in tm.defs.whole[l]) and any(d[0] not in lp for d in tm.defs.whole[l])

    def operand_local(o, chase=True):
        """the local an operand reads, through single-definition copies of temporaries"""
        if not (isinstance(o, dict) and o.get("k") in ("copy", "move") and not (o.get("p") or {}).get("pr")):
            return None
        l = o["p"]["l"]
        while chase and len(tm.defs.whole[l]) == 1 and b.locals[l].get("name") is None:
            (bi, si, x) = tm.defs.whole[l][0]
            if si == "t" or x.get("k") != "use":
                break
            o2 = x.get("o")
            if not (isinstance(o2, dict) and o2.get("k") in ("copy", "move") and not (o2.get("p") or {}).get("pr")):
                break
            l = o2["p"]["l"]
        return l

    # the pushed value: an aggregate of two plain locals
    arg = pt["args"][1]
    al = operand_local(arg)
    comp = None
    if al is not None and len(tm.defs.whole[al]) == 1:
        (bi, si, x) = tm.defs.whole[al][0]
        if si != "t" and x.get("k") == "aggr" and len(x.get("ops", [])) == 2:
            comp = [operand_local(o) for o in x["ops"]]
    if not comp or None in comp or comp[0] == comp[1] or not all(carried_int(l) for l in comp):
        return None
    S, E = comp
    # names of the cursors as the engine spells them at the push
    names = {}
    for role, l in (("S", S), ("E", E)):
        names[role] = sy.arg_name(tm.local(l))
    if names["S"] == names["E"]:
        return None
    order = sorted(names, key=lambda r: -len(names[r]))

    def roles(txt):
        for r in order:
            txt = txt.replace(names[r], r)
        return txt

    def guards_at(bb):
        ats = set()
        for (d, rel, vals) in an.atoms_at(bb):
            for a in sy.atoms(d, rel, vals):
                ats.add(roles(atom_str(a)))
        return sorted(ats)

    out = {"push": {"value": "tuple{S,E}", "guards": guards_at(pbb)}}
    for role, l in (("S", S), ("E", E)):
        rows = []
        for (bi, si, x) in tm.defs.whole[l]:
            tm._pos = (bi, si)
            if si != "t" and x.get("k") == "use" and operand_local(x.get("o")) in (S, E):
                src = operand_local(x.get("o"))
                v = "S" if src == S else "E"
                # which version of the other cursor: the one assigned earlier in this very block, or the carried one
                if any(bj == bi and sj != "t" and isinstance(sj, int) and isinstance(si, int) and sj < si for (bj, sj, _) in tm.defs.whole[src]):
                    v += " (just assigned)"
            else:
                v = roles(sy.arg_name(tm.call_term(x, bi) if si == "t" else tm.rvalue(x)))
            rows.append([v, guards_at(bi)])
        out[role] = sorted(rows)
    return out


def pad_window(prog):
    """the row loop of pad_hits_at_t as data, in role vocabulary: FIRST / MIDDLE / LAST = the samples (`rows[r].get(t)` or
    0.0) of three ADJACENT rows c-1, c, c+1 and C = the centre row c, for every c in 1..=N-2 in order; the guards that
    dominate the push of a hit inside the loop; the pushed value.  Two ways of producing the triples are recognised:
      * a carried window: two cells seeded with rows 0 and 1, the loop visits rows 2.. (enumerate().skip(2) or an index
        range up to the array length), and on EVERY iteration first := old middle, middle := this row's sample;
      * `rows.windows(3).enumerate()` read directly.
    Anything else (a cell not updated on some iteration, other seeds, other rows) is reported as the `window` entry.
    Extraction is by dominance and reaching definitions, so the way a sample is read (helper, closure, match, unwrap_or)
    does not matter."""
    from ..sym import atom_str
    b = prog.body(PADHITS)
    an = analysis(prog, b, positions=True)
    sy = Sym(prog, an, slice_param=99)
    tm = an.terms
    heads = sorted(set(h for _, h in b.back_edges()))
    out = {"window": "no single row loop", "pushes": None, "guards": None, "value": None}
    if len(heads) != 1:
        return out
    hd = heads[0]
    lp = set()
    tails = []
    for tl, h in b.back_edges():
        lp |= set(b.natural_loop(tl, h))
        tails.append(tl)
    carried = [l for l in range(len(b.locals)) if any(d[0] in lp for d in tm.defs.whole[l]) and any(d[0] not in lp for d in tm.defs.whole[l])
               and b.locals[l]["ty"].get("k") == "float"]
    nexts = [(bb, t) for bb, t in b.calls() if bb in lp and short(cname(t)) == "Iterator::next"]
    if len(nexts) != 1:
        return out
    tm._pos = (nexts[0][0], "t")
    ncall = tm.call_term(nexts[0][1], nexts[0][0])
    elem = sy.name(("field", ("downcast", ncall, "Some"), 0))
    itn = sy.name(tm.operand(nexts[0][1]["args"][0]))
    nrows = None
    ty1 = b.locals[1]["ty"]
    while ty1.get("k") == "ref":
        ty1 = ty1["t"]
    if ty1.get("k") == "array":
        nrows = ty1.get("n")

    def sample(x):
        return re.sub(r"Option::<T>::unwrap_or\(Option::<&T>::copied\(<impl \[T\]>::get\(([^()]*(?:\[[^\]]*\])*),arg2\)\),0(?:\.0)?\)", r"SAMPLE(\1)", x)
    roles = {}
    final = []          # (string, role) replacements applied last
    window = None
    if itn == "mut(Iterator::enumerate(<impl [T]>::windows((arg1 as &[std::vec::Vec<f64>]),3)))":
        if carried:
            window = "windows(3) with additional carried cells"
        alias = []
        final = [("SAMPLE(ELEM.1[0])", "FIRST"), ("SAMPLE(ELEM.1[1])", "MIDDLE"), ("SAMPLE(ELEM.1[2])", "LAST"), ("ELEM.0 + 1", "C")]
        window = window or "adjacent triples (c-1, c, c+1), every centre row in order"
    elif sample(itn) == "mut(Iterator::enumerate(<impl [T]>::windows(Iterator::collect(Iterator::map(<impl [T]>::iter((arg1 as &[std::vec::Vec<f64>])),|x| SAMPLE(x))),3)))":
        # the samples of all rows collected first (`rows.iter().map(sample).collect()`), then windows(3) over them
        alias = []
        final = [("ELEM.1[0]", "FIRST"), ("ELEM.1[1]", "MIDDLE"), ("ELEM.1[2]", "LAST"), ("ELEM.0 + 1", "C")]
        window = "windows(3) with additional carried cells" if carried else "adjacent triples (c-1, c, c+1), every centre row in order"
    else:
        if itn == "mut(Iterator::skip(Iterator::enumerate(<impl [T]>::iter((arg1 as &[std::vec::Vec<f64>]))),2))":
            rows = "2.."
            alias = [("ELEM.1", "ROWVEC"), ("ELEM.0", "ROW")]
        else:
            m = re.match(r"^mut\(Range\{(\d+),(\d+)\}\)$", itn)
            if not (m and nrows is not None and int(m.group(2)) == nrows):
                out["window"] = "rows visited by %s" % itn[:120]
                return out
            rows = "%s.." % m.group(1)
            alias = [("arg1[ELEM]", "ROWVEC"), ("Index::index(arg1,ELEM)", "ROWVEC"), ("ELEM", "ROW")]
        inits = {}
        for l in carried:
            outs = [d for d in tm.defs.whole[l] if d[0] not in lp]
            if len(outs) != 1:
                out["window"] = "a window cell with %d initial values" % len(outs)
                return out
            nm = sample(sy.name(sy._def_term(outs[0])))
            m = re.match(r"^SAMPLE\(arg1\[(\d+)\]\)$", nm)
            if not m:
                out["window"] = "a window cell seeded with %s" % nm[:120]
                return out
            roles[l] = "W%s" % m.group(1)
            inits[roles[l]] = nm
        ups = []
        for l in carried:
            ins = [d for d in tm.defs.whole[l] if d[0] in lp]
            if len(ins) != 1 or not all(b.dominates(ins[0][0], tl) for tl in tails):
                ups.append([roles[l], "not updated exactly once on every iteration (%d definition(s))" % len(ins)])
                continue
            d = ins[0]
            tm._pos = (d[0], d[1])
            dt = strip(sy._def_term(d))
            if dt[0] == "var" and dt[1] in roles:
                rd = sy.reaching(dt[1], dt[2] if len(dt) > 2 else (d[0], d[1]))
                val = ("old " if rd == {"HEADER"} else "new ") + roles[dt[1]]
            else:
                val = sample(sy.name(dt).replace(elem, "ELEM"))
                for a_, b_ in alias:
                    val = val.replace(a_, b_)
                val = sample(val).replace("SAMPLE(ROWVEC)", "CUR")
            ups.append([roles[l], val])
        detail = {"cells": dict(sorted(inits.items())), "rows": rows, "updates": sorted(ups)}
        if detail == {"cells": {"W0": "SAMPLE(arg1[0])", "W1": "SAMPLE(arg1[1])"}, "rows": "2..", "updates": [["W0", "old W1"], ["W1", "CUR"]]}:
            window = "adjacent triples (c-1, c, c+1), every centre row in order"
        else:
            window = detail
        final = [("W0", "FIRST"), ("W1", "MIDDLE"), ("CUR", "LAST"), ("ROW - 1", "C")]

    def sub_roles(x):
        """reads of the window cells by role: the value at the loop header (`Wk`) or the one assigned in this iteration"""
        if not isinstance(x, tuple) or not x or not isinstance(x[0], str):
            return x
        if x[0] == "var" and x[1] in roles and len(x) > 2:
            rd = sy.reaching(x[1], x[2])
            return ("cdef", roles[x[1]] if rd == {"HEADER"} else "new " + roles[x[1]])
        o_ = [x[0]]
        for y in x[1:]:
            if isinstance(y, tuple) and y and isinstance(y[0], str):
                o_.append(sub_roles(y))
            elif isinstance(y, tuple):
                o_.append(tuple(sub_roles(z) if isinstance(z, tuple) else z for z in y))
            else:
                o_.append(y)
        return tuple(o_)

    def al(x):
        x = sample(x.replace(elem, "ELEM"))
        for a_, b_ in alias:
            x = x.replace(a_, b_)
        x = sample(x).replace("SAMPLE(ROWVEC)", "CUR")
        for a_, b_ in final:
            x = x.replace(a_, b_)
        # IEEE multiplication / addition of two samples is commutative: one operand order
        x = re.sub(r"\b(Mul|Add)\((FIRST|MIDDLE|LAST),(FIRST|MIDDLE|LAST)\)", lambda m_: "%s(%s)" % (m_.group(1), ",".join(sorted([m_.group(2), m_.group(3)]))), x)
        return x
    out["window"] = window
    pushes = [(bb, t) for bb, t in b.calls() if bb in lp and short(cname(t)) == "Vec::<T, A>::push"]
    out["pushes"] = len(pushes)
    if len(pushes) == 1:
        pbb, pt = pushes[0]
        ats = []
        outside = set()
        for e in an.dominating_edges(pbb):
            if e[0] not in lp:
                d_, rel, vals = an.edge_atom(*e)
                outside.add((str(d_), rel, str(sorted(vals) if hasattr(vals, "__iter__") else vals)))
        # atoms_at also unfolds a boolean local computed in this iteration (`let is_max = a && b; if is_max && c`)
        for (d_, rel, vals) in an.atoms_at(pbb, drop_unfolded=True):
            if (str(d_), rel, str(sorted(vals) if hasattr(vals, "__iter__") else vals)) in outside:
                continue
            ats += sy.atoms(sub_roles(d_), rel, vals)
        simp = accept.simplify(ats, sy.sym_box) or []
        out["guards"] = sorted(al(atom_str(a_)) for a_ in simp if not atom_str(a_).startswith("Iterator::next("))
        tm._pos = (pbb, "t")
        out["value"] = al(sy.name(sub_roles(tm.operand(pt["args"][1]))))
    return out
