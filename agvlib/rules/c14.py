"""C14 — Reconstruction stages: NaN guards the code relies on, termination shape of the cluster search, range clause."""
import struct

from .. import report
from ..facts import AnchorMissing
from ..guards import analysis, as_cmp, truth_of, canon_cmp
from ..sym import Sym, atom_str
from ..terms import strip, short, cname, unmut, walk, same
from .c16 import fconst, is_uom

LEVEL = "other"
R = "alpha_g_physics::reconstruction::"
CLOSEST = R + "Helix::closest_t"
FIT = R + "track_fitting::fit_cluster_to_helix"
THREE = R + "track_fitting::three_template_points"
CIRCLE = R + "track_fitting::circle_through_three_points"
WRAP = R + "cluster_spacepoints"
BEST = R + "track_finding::cluster_spacepoints::best_cluster"
HELIX = R + "Helix"
TRYFROM = "<%sTrack as std::convert::TryFrom<%sCluster>>::try_from" % (R, R)


def atoms_at(an, sy, bb):
    out = []
    for (d, rel, vals) in an.atoms_at(bb):
        for a in sy.atoms(d, rel, vals):
            out.append(atom_str(a))
    return out


def run(prog, tier, res):
    res.explanation = ("Dominance of the guards that keep NaN away from the minimiser (|h| >= eps before dividing by h; exact "
                       "collinearity rejection before the circle fit; theta != 0 before dividing by theta), constant agreement "
                       "between the minimum cluster size and the fit's assertion, error discipline of Track::try_from, the "
                       "strictly-increasing termination shape of the best-cluster search, and the [-pi, pi] range clause (C16.R1).")
    res.trusted = ["IEEE semantics of the guarded operations", "C16.R1 (imported as a premise)"]
    R1 = res.rule("C14.R1", "closest_t: every division by the pitch h is dominated by the not-taken edge of `|h| < eps` (eps > 0)", 2)
    R2 = res.rule("C14.R2", "initial guess: circle fit only after the exact-collinearity rejection, whose cross product is taken at the point the circle formula uses as origin; division by theta only when theta != 0", 4)
    R3 = res.rule("C14.R3", "min cluster size passed by the public wrapper (13) >= the fit's assert (3)", 1)
    R4 = res.rule("C14.R4", "Track::try_from(Cluster) can only fail through the fit's single `?` (NoInitialParameters)", 1)
    R5 = res.rule("C14.R5", "t_inner / t_outer / vertex t are in [-pi, pi] or NaN (C16.R1-R3)", 1)
    R6 = res.rule("C14.R6", "best-cluster search terminates: it continues only while the new cluster is strictly larger than the previous one, which then becomes the previous one", 2)

    # ------------------------------------------------------------------ R1
    b = prog.body(CLOSEST)
    an = analysis(prog, b)
    sy = Sym(prog, an, slice_param=99)
    res.functions.add(CLOSEST)
    from ..guards import field_index
    hi = field_index(prog, HELIX, "h")
    divs = 0
    for bb, t in b.calls():
        s = short(cname(t))
        if s not in ("Div::div",) and not (is_uom(t.get("callee") or "", "powi")):
            continue
        args = [strip(an.terms.operand(a)) for a in t["args"]]
        denom = args[1] if s == "Div::div" else args[0]

        def is_h(x):
            x = strip(x)
            return x[0] == "field" and x[2] == hi and strip(x[1]) == ("param", 1)
        if not any(is_h(x) for x in walk(denom)):
            continue
        if s != "Div::div":
            # h.powi(2) is only used as a divisor later; count the divisor site itself
            continue
        divs += 1
        ok = False
        for (d, rel, vals) in an.atoms_at(bb):
            tr = truth_of(rel, vals)
            c = canon_cmp(as_cmp(d, True))
            if tr is False and c and c[0] == "Lt":
                lhs, rhs = strip(c[1]), strip(c[2])
                if lhs[0] == "call" and is_uom(lhs[1], "abs") and is_h(lhs[2][0]):
                    eps = None
                    for x in walk(rhs):
                        v = fconst(x)
                        if v is not None:
                            eps = v
                    cdefs = [x for x in walk(rhs) if x[0] == "cdef"]
                    if eps is not None and eps > 0 or cdefs:
                        ok = True
        res.oblige(ok, "nan-guard")
        if ok:
            res.hit(R1)
        else:
            res.violate(R1, CLOSEST, "div-by-h", "a division by the helix pitch h is reachable with |h| < eps (h = 0 or subnormal gives NaN/inf that reaches the minimiser)", b.where(bb))
    if divs == 0:
        res.violate(R1, CLOSEST, "no-div", "no division by the pitch found in the closest-point routine (anchor moved)", b.where(), kind="anchor-missing")

    # ------------------------------------------------------------------ R2
    fb = prog.body(FIT)
    fan = analysis(prog, fb)
    fsy = Sym(prog, fan, slice_param=99)
    res.functions.add(FIT)
    circ = [(bb, t) for bb, t in fb.calls() if cname(t) == CIRCLE]
    if len(circ) != 1:
        res.violate(R2, FIT, "circle-call", "expected one call of circle_through_three_points, found %d" % len(circ), fb.where())
    else:
        ats = atoms_at(fan, fsy, circ[0][0])
        if any(a.startswith(THREE + "(") and a.endswith(" is Ok") for a in ats):
            res.hit(R2)
        else:
            res.violate(R2, FIT, "circle-unguarded", "circle_through_three_points is called without first passing three_template_points(..)? (collinear / repeated points give a NaN centre)", fb.where(circ[0][0]))
    tb = prog.body(THREE)
    tan = analysis(prog, tb)
    tsy = Sym(prog, tan, slice_param=1)
    res.functions.add(THREE)
    oks = tan.ok_sites()
    good = False
    for okbb, okt in oks:
        for (d, rel, vals) in tan.atoms_at(okbb):
            tr = truth_of(rel, vals)
            c = as_cmp(d, True)
            if c and c[0] == "Eq" and tr is False and tsy.is_float_cmp(d):
                # cross product form: both sides are products of coordinate differences
                l, r_ = strip(c[1]), strip(c[2])
                if l[0] == "call" and short(l[1]) == "Mul::mul" and r_[0] == "call" and short(r_[1]) == "Mul::mul":
                    good = True
    if good and len(oks) == 1:
        res.hit(R2)
    else:
        res.violate(R2, THREE, "collinearity", "three_template_points can return Ok without the exact-collinearity test `(x3-x1)*(y2-y1) == (x2-x1)*(y3-y1)` failing", tb.where())
    # the guard must be the *same* determinant the circle formula divides by: w = (z3 - z1)/(z2 - z1) and the division
    # by w - conj(w) = 2i Im(w) is by zero exactly when the cross product taken at z1 vanishes in floating point; a
    # cross product taken at another point is algebraically equal but rounds differently
    def point_of(xy_call, which):
        x = strip(xy_call)
        if x[0] == "call" and x[1].endswith("SpacePoint::" + which) and len(x[2]) == 1:
            return tsy.name(x[2][0])
        return None
    piv_guard = None
    for okbb, okt in oks:
        for (d, rel, vals) in tan.atoms_at(okbb):
            c = as_cmp(d, True)
            if not (c and c[0] == "Eq" and truth_of(rel, vals) is False and tsy.is_float_cmp(d)):
                continue
            sides = []
            for sd in (strip(c[1]), strip(c[2])):
                if sd[0] == "call" and short(sd[1]) == "Mul::mul" and len(sd[2]) == 2:
                    f1, f2 = strip(sd[2][0]), strip(sd[2][1])
                    if all(f[0] == "call" and short(f[1]) == "Sub::sub" and len(f[2]) == 2 for f in (f1, f2)):
                        sides.append(((point_of(f1[2][0], "x"), point_of(f1[2][1], "x")), (point_of(f2[2][0], "y"), point_of(f2[2][1], "y"))))
            if len(sides) == 2 and all(n is not None for sd in sides for pr in sd for n in pr):
                (ax, px1), (by, py1) = sides[0]
                (bx, px2), (ay, py2) = sides[1]
                if px1 == py1 == px2 == py2 and ax == ay and bx == by and len({ax, bx, px1}) == 3:
                    piv_guard = px1
    ok_names = []
    if len(oks) == 1:
        v = strip(oks[0][1][2][0])
        if v[0] == "aggr" and v[1] == "tuple":
            ok_names = [tsy.name(x) for x in v[2]]
    cb_ = prog.body(R + "track_fitting::circle_through_three_points")
    can_ = analysis(prog, cb_)
    res.functions.add(cb_.path)
    piv_param = None
    divs = [(bb, t) for bb, t in cb_.calls() if short(cname(t)) == "Div::div"]

    def cplx_param(x):
        x = strip(x)
        if x[0] == "call" and short(x[1]).endswith("::new") and len(x[2]) == 2:
            ps = []
            for comp in x[2]:
                y = strip(comp)
                while y[0] == "call" and len(y[2]) == 1:
                    y = strip(y[2][0])
                if y[0] == "field" and strip(y[1])[0] == "param":
                    ps.append((strip(y[1])[1], y[2]))
            if len(ps) == 2 and ps[0][0] == ps[1][0] and (ps[0][1], ps[1][1]) == (0, 1):
                return ps[0][0]
        return None
    w_term = None
    for bb, t in divs:
        a0, a1 = strip(can_.terms.operand(t["args"][0])), strip(can_.terms.operand(t["args"][1]))
        if all(x[0] == "call" and short(x[1]) == "Sub::sub" and len(x[2]) == 2 for x in (a0, a1)):
            p0, p1_ = cplx_param(a0[2][1]), cplx_param(a1[2][1])
            if p0 is not None and p0 == p1_ and cplx_param(a0[2][0]) not in (None, p0) and cplx_param(a1[2][0]) not in (None, p0):
                piv_param = p0
                w_term = can_.terms.call_term(t, bb)
    conj_div = False
    for bb, t in divs:
        den = strip(can_.terms.operand(t["args"][1]))
        if w_term is not None and den[0] == "call" and short(den[1]) == "Sub::sub" and len(den[2]) == 2:
            cj = strip(den[2][1])
            if same(strip(den[2][0]), w_term) and cj[0] == "call" and short(cj[1]).endswith("::conj") and same(strip(cj[2][0]), w_term):
                conj_div = True
    # which returned point is passed as the pivot parameter
    piv_pos = None
    if circ and piv_param is not None and 1 <= piv_param <= len(circ[0][1]["args"]):
        a = strip(fan.terms.operand(circ[0][1]["args"][piv_param - 1]))
        if a[0] == "aggr" and a[1] == "tuple" and len(a[2]) == 2:
            poss = set()
            for comp, which in zip(a[2], ("x", "y")):
                y = strip(comp)
                if y[0] == "call" and y[1].endswith("SpacePoint::" + which) and len(y[2]) == 1:
                    z = strip(y[2][0])
                    if z[0] == "field" and any(q[0] == "call" and q[1] == THREE for q in walk(z)):
                        poss.add(z[2])
            if len(poss) == 1:
                piv_pos = poss.pop()
    if piv_guard is not None and piv_param is not None and conj_div and piv_pos is not None and piv_pos < len(ok_names) and ok_names[piv_pos] == piv_guard:
        res.hit(R2)
    else:
        res.violate(R2, THREE, "collinearity-pivot", "the exact-collinearity test is not the determinant the circle formula divides by: the guard takes its cross product at `%s`, "
                    "circle_through_three_points divides by Im((z3 - z1)/(z2 - z1)) with z1 = returned point #%s (%s)" % (
                        (piv_guard or "?")[:60], piv_pos, (ok_names[piv_pos][:60] if piv_pos is not None and piv_pos < len(ok_names) else "?")), tb.where())
    # division by theta
    theta_div = 0
    for bb, t in fb.calls():
        if short(cname(t)) != "Div::div":
            continue
        den = strip(fan.terms.operand(t["args"][1]))
        if den[0] == "call" and den[1] == R + "angle_between_vectors":
            theta_div += 1
            ok = False
            for (d, rel, vals) in fan.atoms_at(bb):
                tr = truth_of(rel, vals)
                c = as_cmp(d, tr) if tr is not None else None       # the comparison that holds on this edge
                if c and c[0] == "Ne":
                    sides = [strip(c[1]), strip(c[2])]
                    zero = any(fconst(x) == 0.0 for x in sides)
                    th = any(x[0] == "call" and is_uom(x[1], "get") and same(strip(x[2][0]), den) for x in sides)
                    if zero and th:
                        ok = True
            res.oblige(ok, "nan-guard")
            if ok:
                res.hit(R2)
            else:
                res.violate(R2, FIT, "div-by-theta", "the pitch guess divides by theta without the `theta == 0` fallback on that path (0/0 or x/0 reaches the minimiser)", fb.where(bb))
    if theta_div == 0:
        res.violate(R2, FIT, "no-theta-div", "no division by theta found in the initial guess (anchor moved)", fb.where(), kind="anchor-missing")

    # ------------------------------------------------------------------ R3
    wb = prog.body(WRAP)
    wan = analysis(prog, wb)
    mins = [strip(wan.terms.operand(t["args"][1])) for bb, t in wb.calls() if cname(t) == R + "track_finding::cluster_spacepoints"]
    asserts = []
    for bb in fb.reachable():
        t = fb.blocks[bb]["t"]
        if t["k"] == "switch":
            d = fan.terms.operand(t["d"])
            c = as_cmp(d, True)
            if c and c[0] in ("Ge", "Lt"):
                p = fsy.poly(c[1])
                q = fsy.poly(c[2])
                if p is not None and q is not None and q.is_const() and str(p).startswith("len(arg1.0"):
                    # the other edge reaches a panic
                    succs = fb.succ(bb)
                    if any(is_panic_block(fb, s) for s in succs):
                        asserts.append(int(q.const_value()))
    if len(mins) == 1 and mins[0][0] == "const" and asserts and mins[0][1] >= max(asserts):
        res.hit(R3)
    else:
        res.violate(R3, WRAP, "min-size", "minimum cluster size passed by cluster_spacepoints (%s) is not >= the size asserted by the fit (%s)" % (mins, asserts), wb.where())
    res.functions.add(WRAP)

    # ------------------------------------------------------------------ R4
    tf = prog.body(TRYFROM)
    tfan = analysis(prog, tf)
    res.functions.add(TRYFROM)
    rets = [strip(t) for _, t in tfan.ret_assignments()]
    ok = len(rets) == 1 and rets[0][0] == "call" and rets[0][1] == FIT
    tries = [(bb, t) for bb, t in fb.calls() if short(cname(t)) == "Try::branch"]
    ok = ok and len(tries) == 1
    errs = [t for _, t in fan.err_sites()]
    ok = ok and not errs
    if ok:
        res.hit(R4)
    else:
        res.violate(R4, TRYFROM, "errors", "Track::try_from(Cluster) has error exits other than the single `three_template_points(..)?` (returns %s, %d `?`, %d explicit Err)" % ([r[1] if r[0] == "call" else r[0] for r in rets], len(tries), len(errs)), tf.where())

    # ------------------------------------------------------------------ R5 premise
    from . import c16
    sub = report.Result("C16", "other")
    c16.run(prog, tier, sub)
    sub.check_floors()
    if sub.violations:
        for v in sub.violations[:4]:
            res.violate(R5, v.fn, "premise:%s:%s" % (v.rule, v.site), "range clause broken — %s" % v.what, v.where)
    else:
        res.hit(R5)

    # ------------------------------------------------------------------ R6
    bb_ = prog.body(BEST)
    ban = analysis(prog, bb_)
    bsy = Sym(prog, ban, slice_param=99)
    res.functions.add(BEST)
    loops = bb_.back_edges()
    heads = sorted(set(h for _, h in loops))
    outer = None
    for h in heads:
        body_blocks = set()
        for (tl, hd) in loops:
            if hd == h:
                body_blocks |= bb_.natural_loop(tl, hd)
        if any(short(cname(t)) == "Vec::<T, A>::len" or short(cname(t)) == "<impl [T]>::len" for b2, t in bb_.calls() if b2 in body_blocks) and \
                any(cname(t) == R + "track_finding::largest_cluster" for b2, t in bb_.calls() if b2 in body_blocks):
            outer = (h, body_blocks)
    if outer is None:
        res.violate(R6, BEST, "loop", "cannot find the best-cluster search loop", bb_.where(), kind="anchor-missing")
    else:
        h, blocks = outer
        from .. import accept
        tab = accept.ret_table(prog, BEST)
        exit_ok = any(a == ["-len(%strack_finding::largest_cluster(%strack_finding::HoughSpaceAccumulator::most_popular(arg1),arg2)) + len(var<Vec<SpacePoint>>) >= 0" % (R, R)] for a, v in tab)
        if exit_ok:
            res.hit(R6)
        else:
            res.violate(R6, BEST, "exit", "the search loop does not exit exactly when largest_cluster(most_popular()).len() <= prev_best.len(): %s" % [a for a, v in tab], bb_.where(h))
        # prev_best := best inside the loop
        prev = [l for l in range(len(bb_.locals)) if bsy.short_ty(bb_.locals[l]["ty"]) == "Vec<SpacePoint>" and
                any(d[0] in blocks for d in ban.terms.defs.whole[l]) and any(d[0] not in blocks for d in ban.terms.defs.whole[l])]
        upd_ok = False
        for l in prev:
            for (bi, si, x) in ban.terms.defs.whole[l]:
                if bi in blocks and si != "t":
                    v = unmut(ban.terms.rvalue(x))
                    if v[0] == "call" and v[1] == R + "track_finding::largest_cluster":
                        upd_ok = True
        if upd_ok:
            res.hit(R6)
        else:
            res.violate(R6, BEST, "update", "prev_best is not replaced by the strictly larger cluster at the end of an iteration (no strictly increasing measure)", bb_.where(h))
    res.undecided = ["that NaN never reaches the cost functions / partial_cmp sorts, finiteness of outputs, argmin unwraps (continuous-domain numerics)"]


def is_panic_block(body, bb, depth=0):
    t = body.blocks[bb]["t"]
    if t["k"] == "call" and t["t"] is None and "panic" in (t.get("callee") or ""):
        return True
    if depth < 3 and t["k"] in ("goto",):
        return is_panic_block(body, t["t"], depth + 1)
    return False
