"""C15 — Clustering and vertexing: thresholds, construction guard, two-track filter, remainder bookkeeping shape."""
from .. import accept, report
from ..facts import AnchorMissing
from ..guards import analysis, closure_info, closure_ret, subst_upvars, as_cmp, impl_cmp
from ..sym import Sym, forward_paths, path_atoms, atom_str
from ..terms import strip, short, cname, unmut, walk
from .common import commut_sort
import json
import re

LEVEL = "other"
R = "alpha_g_physics::reconstruction::"
WRAP = R + "cluster_spacepoints"
CL = R + "track_finding::cluster_spacepoints"
BEST = CL + "::best_cluster"
LARGEST = R + "track_finding::largest_cluster"
CLUSTER = R + "Cluster"
FINDV = R + "vertex_fitting::find_vertices"


def guarded_local(prog, b, bi, bname):
    an = analysis(prog, b, positions=True)
    sy = Sym(prog, an, slice_param=99)
    wrapped = None
    for bj, si, st in b.stmts():
        if bj == bi and st["k"] == "assign" and st["rv"]["k"] == "aggr" and st["rv"].get("ak") == "adt" and st["rv"]["p"] == CLUSTER:
            an.terms._pos = (bj, si)
            ops = strip(an.terms.rvalue(st["rv"]))[2]
            if len(ops) == 1 and strip(ops[0])[0] == "var":
                wrapped = (strip(ops[0])[1], si)
    if wrapped is None:
        return False
    l, csi = wrapped
    defs = an.terms.defs.whole[l]
    if an.terms.defs.partial[l] or not defs:
        return False
    for d in defs:
        if sy.name(sy._def_term(d)) != bname:
            return False
    for (s_, t_) in an.dominating_edges(bi):
        d, rel, vals = an.edge_atom(s_, t_)
        from ..guards import truth_of
        tr = truth_of(rel, vals)
        c = as_cmp(strip(d), tr) if tr is not None else None
        if c is None:
            continue
        op, x, y = c
        if op in ("Le", "Lt"):
            op, x, y = {"Le": "Ge", "Lt": "Gt"}[op], y, x
        x, y = strip(x), strip(y)
        if not (op == "Ge" and y == ("param", 2) and x[0] == "call" and short(x[1]) == "Vec::<T, A>::len"):
            continue
        v = unmut(x[2][0])
        if not (v[0] == "var" and v[1] == l):
            continue
        # no definition of the local between the guard (terminator of s_) and the construction
        between = False
        for (db, dsi, _) in defs:
            if db == bi and dsi != "t" and dsi < csi:
                between = True
            elif db != bi and db != s_ and b.can_reach(t_, db, avoid=[s_]) and b.can_reach(db, bi, avoid=[s_]):
                between = True
            elif db == s_ and dsi == "t":
                between = True
        if not between:
            return True
    return False


def run(prog, tier, res):
    res.explanation = ("The public clustering wrapper passes the stated thresholds; a Cluster is only constructed behind the "
                       "size guard and nowhere else; the single-linkage test compares SpacePoint::distance with <= max_distance; "
                       "a primary vertex is only built from clusters that pass the `len > 1` filter; the remainders are computed "
                       "by removing exactly one input element per clustered element.")
    res.trusted = ["Vec::swap_remove(i) removes exactly the element at i", "Iterator::position returns the first matching index"]
    R1 = res.rule("C15.R1", "cluster_spacepoints passes (13 points, 3 cm); largest_cluster links points with distance <= max_distance", 2)
    R2 = res.rule("C15.R2", "every Cluster construction is dominated by len >= min_num_points; Cluster is constructed at that site only", 2)
    R3 = res.rule("C15.R3", "primary vertex only from beamline clusters with more than one track; secondaries empty; remainder = input minus vertex tracks", 3)
    R4 = res.rule("C15.R4", "remainder bookkeeping removes exactly one input element per clustered element (position + swap_remove on the input vector); every return of cluster_spacepoints hands back the input vector as remainder", 3)

    # ------------------------------------------------------------------ R1
    tab = accept.ret_table(prog, WRAP)
    res.functions.add(WRAP)
    want = [[[], "%s(arg1,13,250,230,uom::new(3.0))" % CL]]
    if [[a, v] for a, v in tab] == want:
        # the unit of the 3.0 must be centimeter
        b = prog.body(WRAP)
        units = [g for bb, t in b.calls() if "uom::si::" in (t.get("callee") or "") and (t.get("callee") or "").endswith("::new")
                 for g in [" ".join(x.get("s", "") for x in (t.get("gargs") or []) if isinstance(x, dict))]]
        if any("centimeter" in u for u in units):
            res.hit(R1)
        else:
            res.violate(R1, WRAP, "unit", "the clustering distance 3.0 is not given in centimetres (%s)" % units, b.where())
    else:
        res.violate(R1, WRAP, "thresholds", "cluster_spacepoints does not call the clustering with (13 points, 250x230 bins, 3 cm): %s" % tab, prog.body(WRAP).where())
    lb = prog.body(LARGEST)
    lan = analysis(prog, lb)
    lsy = Sym(prog, lan, slice_param=99)
    res.functions.add(LARGEST)
    dist_ok = False
    for p, body in prog.bodies.items():
        if not (p == LARGEST or p.startswith(LARGEST + "::{closure")):
            continue
        can = analysis(prog, body)
        csy = Sym(prog, can, slice_param=99)
        for bb in body.reachable():
            t = body.blocks[bb]["t"]
            if t["k"] != "switch":
                continue
            d = can.terms.operand(t["d"])
            c = as_cmp(d, True)
            if c and any(x[0] == "call" and x[1].endswith("SpacePoint::distance") for x in walk(d)):
                a, bside = strip(c[1]), strip(c[2])
                lhs_is_dist = a[0] == "call" and a[1].endswith("SpacePoint::distance")
                if (c[0] == "Le" and lhs_is_dist) or (c[0] == "Ge" and not lhs_is_dist):
                    dist_ok = True
        # closure returning the comparison directly
        for _, r in can.ret_assignments():
            c = as_cmp(strip(r), True)
            if c and any(x[0] == "call" and x[1].endswith("SpacePoint::distance") for x in walk(r)):
                a = strip(c[1])
                lhs_is_dist = a[0] == "call" and a[1].endswith("SpacePoint::distance")
                if (c[0] == "Le" and lhs_is_dist) or (c[0] == "Ge" and not lhs_is_dist):
                    dist_ok = True
    if dist_ok:
        res.hit(R1)
    else:
        res.violate(R1, LARGEST, "linkage", "largest_cluster does not link two points when SpacePoint::distance(..) <= max_distance", lb.where())

    # the relation itself: SpacePoint::distance is the Euclidean distance of the two points
    DIST = "alpha_g_physics::SpacePoint::distance"
    if DIST in prog.bodies:
        db = prog.body(DIST)
        dan = analysis(prog, db)
        dsy = Sym(prog, dan, slice_param=99)
        res.functions.add(DIST)
        drets = [commut_sort(dsy.name(t)) for _, t in dan.ret_assignments()]
        want_d = accept.load_spec("c15.json")["distance"]
        if drets == [want_d]:
            res.hit(R1)
        else:
            res.violate(R1, DIST, "euclidean", "SpacePoint::distance returns %s, not the Euclidean distance %s: the 3 cm single-linkage relation is defined on it" % (drets, want_d), db.where())
        for nm_ in ("x", "y"):
            pn = "alpha_g_physics::SpacePoint::" + nm_
            if pn not in prog.bodies:
                continue
            xb = prog.body(pn)
            xan = analysis(prog, xb)
            xr = [commut_sort(Sym(prog, xan, slice_param=99).name(t)) for _, t in xan.ret_assignments()]
            want_x = accept.load_spec("c15.json")[nm_]
            res.functions.add(pn)
            if xr == [want_x]:
                res.hit(R1)
            else:
                res.violate(R1, pn, "cartesian", "SpacePoint::%s returns %s, not %s" % (nm_, xr, want_x), xb.where())
    else:
        raise AnchorMissing("no " + DIST)
    # ------------------------------------------------------------------ R6: the flood fill
    R6 = res.rule("C15.R6", "largest_cluster grows a cluster by flood fill with two cursors: for every member (cursor I from 0, +1 per member, while I < cluster length) "
                  "every remaining point (cursor J from 0 while J < points length) is either linked (moved into the cluster by swap_remove(J), J unchanged) or skipped (J + 1)", 0)
    fm = flood_model(prog)
    res.extra["largest_cluster_flood"] = fm if fm is not None else "not the two-cursor form: the flood-fill clause is not decided for this tree"
    if fm is not None:
        fsp = accept.load_spec("c15.json")["flood"]
        for key_, what in (("I", "the member cursor starts at 0 for every new cluster and advances by one after all remaining points were tried"),
                           ("J", "the point cursor starts at 0 for every member and advances by one exactly when the point is not linked"),
                           ("link", "a point within the distance of the current member is moved from the remaining points into the cluster"),
                           ("cluster_created", "the cluster under construction is created afresh for every seed (inside the seed loop, under the seed's guard only)")):
            if fm.get(key_) == fsp[key_]:
                res.hit(R6)
            else:
                res.violate(R6, LARGEST, "flood:%s" % key_, "%s: found %s" % (what, json.dumps(fm.get(key_))[:700]), lb.where(), detail={"got": fm.get(key_), "want": fsp[key_]})

    # ------------------------------------------------------------------ R7: the Hough accumulator's own bookkeeping
    R7 = res.rule("C15.R7", "HoughSpaceAccumulator: add(point) pushes that point into every bin of get_bins(point); remove_unchecked(point) removes, from every bin of "
                  "get_bins(point), the element equal to that point (position(|p| *p == point) + swap_remove of that position on the same vector)", 0)
    HSA = R + "track_finding::HoughSpaceAccumulator::"
    acc_notes = {}
    for meth in ("add", "remove_unchecked"):
        pth = HSA + meth
        if pth not in prog.bodies:
            acc_notes[meth] = "not found: clause not decided"
            continue
        mb = prog.body(pth)
        man = analysis(prog, mb)
        msy = Sym(prog, man, slice_param=99)
        res.functions.add(pth)
        if meth == "add":
            pushes = [(bb, t) for bb, t in mb.calls() if short(cname(t)) == "Vec::<T, A>::push"]
            if len(pushes) != 1:
                acc_notes[meth] = "not one push: clause not decided for this form"
                continue
            bb, t = pushes[0]
            man.terms._pos = (bb, "t")
            recv, val = msy.name(man.terms.operand(t["args"][0])), msy.name(man.terms.operand(t["args"][1]))
            if val == "arg2" and "get_bins(arg1,arg2)" in recv:
                res.hit(R7)
            else:
                res.violate(R7, pth, "add", "add(point) pushes `%s` into `%s`; it must push the point itself into a bin of get_bins(point)" % (val[:120], recv[:160]), mb.where(bb))
        else:
            srs = [(bb, t) for bb, t in mb.calls() if short(cname(t)) == "Vec::<T, A>::swap_remove"]
            if len(srs) != 1:
                acc_notes[meth] = "not one swap_remove: clause not decided for this form"
                continue
            bb, t = srs[0]
            man.terms._pos = (bb, "t")
            vec, idx = msy.name(man.terms.operand(t["args"][0])), msy.name(man.terms.operand(t["args"][1]))
            want_idx = "Option::<T>::unwrap(Iterator::position(mut(<impl [T]>::iter(%s)),|x| <alpha_g_physics::SpacePoint as std::cmp::PartialEq>::eq(x,arg2)))" % vec
            if idx == want_idx and "get_bins(arg1,arg2)" in vec:
                res.hit(R7)
            else:
                res.violate(R7, pth, "remove", "remove_unchecked(point) removes index `%s` of `%s`; it must remove the position of the element equal to the point in a bin of get_bins(point)" % (idx[:200], vec[:120]), mb.where(bb))
    if acc_notes:
        res.extra["hough_accumulator_bookkeeping"] = acc_notes

    # ------------------------------------------------------------------ R2
    sites = []
    for p, body in prog.bodies.items():
        if body.crate != "alpha_g_physics" or "::tests::" in p or "std::clone::Clone" in p:
            continue
        for bi, si, s in body.stmts():
            if s["k"] == "assign" and s["rv"]["k"] == "aggr" and s["rv"].get("ak") == "adt" and s["rv"]["p"] == CLUSTER:
                sites.append((p, bi))
    if [p for p, _ in sites] != [CL]:
        res.violate(R2, CLUSTER, "constructors", "Cluster is constructed at %s; expected only inside the clustering function behind the size guard" % sites, "")
    else:
        res.hit(R2)
        b = prog.body(CL)
        an = analysis(prog, b)
        sy = Sym(prog, an, slice_param=99)
        res.functions.add(CL)
        bi = sites[0][1]
        ok = False
        bname = "%s(mut(HoughSpaceAccumulator{arg3,arg4,IndexMap::<K, V>::new()}),arg5)" % BEST
        for (d, rel, vals) in an.atoms_at(bi):
            for a in sy.atoms(d, rel, vals):
                s = atom_str(a)
                if s == "-arg2 + len(%s) >= 0" % bname:
                    ok = True
        if not ok:
            # the same with the candidate held in a reassigned local (`let mut c = best(); while c.len() >= n { push(Cluster(c));
            # c = best(); }`): the guard reads the local the construction wraps, no definition of it lies between the two,
            # and every definition of it is the best_cluster call
            ok = guarded_local(prog, b, bi, bname)
        if ok:
            res.hit(R2)
        else:
            res.violate(R2, CL, "size-guard", "the Cluster construction is not dominated by `cluster.len() >= min_num_points_per_cluster`", b.where(bi))

    # ------------------------------------------------------------------ R3 / R4
    vb = prog.body(FINDV)
    van = analysis(prog, vb)
    vsy = Sym(prog, van, slice_param=99)
    res.functions.add(FINDV)
    # the filter closure `cluster.len() > 1` sits between beamline_clusters and the selection
    filt_ok = False
    for bb, t in vb.calls():
        if short(cname(t)) == "Iterator::filter":
            src = unmut(van.terms.operand(t["args"][0]))
            while src[0] == "call" and short(src[1]) == "IntoIterator::into_iter":
                src = unmut(src[2][0])
            if src[0] == "call" and src[1].endswith("vertex_fitting::beamline_clusters"):
                ci = closure_info(prog, van, strip(van.terms.operand(t["args"][1])))
                if ci:
                    rets = closure_ret(prog, ci[0])
                    if len(rets) == 1:
                        c = as_cmp(strip(rets[0]), True)
                        if c:
                            can = analysis(prog, ci[0])
                            csy = Sym(prog, can, slice_param=99)
                            pa, pb = csy.poly(c[1]), csy.poly(c[2])
                            if pa is not None and pb is not None:
                                from ..sym import cmp_to_rel
                                s = cmp_to_rel(c[0], pa, pb)[1]
                                if s.startswith("len(") and s.endswith(" - 2 >= 0"):
                                    filt_ok = True
    if filt_ok:
        res.hit(R3)
    else:
        res.violate(R3, FINDV, "two-track-filter", "beamline clusters are not filtered by `cluster.len() > 1` before a primary vertex is chosen", vb.where())
    tab = accept.ret_table(prog, FINDV)
    vals = [v for a, v in tab]
    if vals and all(v.startswith("VertexingResult{") and v.endswith(",Vec::<T>::new(),arg1}") for v in vals) and len(set(vals)) == 1:
        res.hit(R3)
    else:
        res.violate(R3, FINDV, "result", "VertexingResult is not {primary: vertex, secondaries: Vec::new(), remainder: the input vector}", vb.where())
    # the selected vertex cluster must also pass through the same filter: max_set_by_key input is the filter's output
    sel_ok = any(short(cname(t)) == "Itertools::max_set_by_key" and unmut(van.terms.operand(t["args"][0]))[0] == "call"
                 and short(unmut(van.terms.operand(t["args"][0]))[1]) == "Iterator::filter" for bb, t in vb.calls())
    if sel_ok:
        res.hit(R3)
    else:
        res.violate(R3, FINDV, "selection", "the vertex cluster is not selected from the filtered (len > 1) clusters", vb.where())

    for fn, body, what in ((CL, prog.body(CL), "points"), (FINDV, vb, "tracks")):
        an = analysis(prog, body)
        ok = False
        for bb, t in body.calls():
            if short(cname(t)) == "Vec::<T, A>::swap_remove":
                recv = unmut(an.terms.operand(t["args"][0]))
                idx = strip(an.terms.operand(t["args"][1]))
                in_loop = any(bb in body.natural_loop(tl, hd) for (tl, hd) in body.back_edges())
                if recv == ("param", 1) and in_loop and idx[0] == "call" and short(idx[1]) in ("Option::<T>::unwrap", "Option::<T>::expect"):
                    pos = unmut(idx[2][0])
                    if pos[0] == "call" and short(pos[1]) == "Iterator::position":
                        it = unmut(pos[2][0])
                        if it[0] == "call" and short(it[1]) == "<impl [T]>::iter" and unmut(strip_deref(it[2][0])) == ("param", 1):
                            # the element removed is the one EQUAL to the clustered element (not "the first that differs")
                            ci = closure_info(prog, an, strip(pos[2][1]))
                            eq_ok = False
                            if ci:
                                rets = closure_ret(prog, ci[0])
                                if len(rets) == 1:
                                    rt = subst_upvars(strip(rets[0]), ci[1])
                                    c = as_cmp(rt, True)
                                    if c is None and rt[0] == "call" and len(rt[2]) == 2 and impl_cmp(rt[1]):
                                        c = (impl_cmp(rt[1]), rt[2][0], rt[2][1])     # derived / implemented PartialEq of the element type
                                    if c and c[0] == "Eq":
                                        sides = [strip(c[1]), strip(c[2])]
                                        has_arg = any(any(y == ("carg", 0) for y in walk(x)) for x in sides)
                                        has_cap = any(not any(y[0] in ("carg", "cenv") for y in walk(x)) for x in sides)
                                        eq_ok = has_arg and has_cap
                            if eq_ok:
                                ok = True
                            else:
                                why_eq = "the `position` predicate is not equality with the clustered element"
        # no other removal primitive on the input vector
        others = [short(cname(t)) for bb, t in body.calls() if short(cname(t)) in ("Vec::<T, A>::retain", "Vec::<T, A>::remove", "Vec::<T, A>::drain", "Vec::<T, A>::truncate", "Vec::<T, A>::clear", "Vec::<T, A>::dedup")
                  and unmut(an.terms.operand(t["args"][0])) == ("param", 1)]
        good = ok and not others
        res.oblige(good, "bookkeeping")
        if good:
            res.hit(R4)
        else:
            res.violate(R4, fn, "remainder", "the remainder of %s is not computed by removing, for each clustered element, the input element found by `position(..).unwrap()` with `swap_remove` (other removals: %s): elements can be lost or kept twice" % (what, others), body.where())
    # every return of the clustering hands back the input vector (after the removals) as the remainder: an early return
    # with an empty / default result drops the points it was given
    cb_ = prog.body(CL)
    can_ = analysis(prog, cb_)
    crets = [strip(t_) for _, t_ in can_.ret_assignments()]
    ri = None
    adt_ = prog.adts.get(R + "ClusteringResult")
    if adt_:
        for i_, f_ in enumerate(adt_["variants"][0]["fields"]):
            if f_["name"] == "remainder":
                ri = i_
    ok_rem = bool(crets) and ri is not None and all(t_[0] == "aggr" and t_[1].endswith("ClusteringResult::ClusteringResult") and len(t_[2]) > ri
                                                   and unmut(t_[2][ri]) == ("param", 1) for t_ in crets)
    if ok_rem:
        res.hit(R4)
    else:
        res.violate(R4, CL, "result", "a return of cluster_spacepoints does not hand back the input vector as `remainder` (points given to it would vanish)", cb_.where())
    # ------------------------------------------------------------------ R5: beamline clustering is a partition of its input
    R5 = res.rule("C15.R5", "beamline_clusters puts every track in exactly one cluster: seed = element 0, loop over the rest (skip(1)), one push of the loop's track on every iteration path", 3)
    BEAM = R + "vertex_fitting::beamline_clusters"
    bb_ = prog.body(BEAM)
    ban = analysis(prog, bb_)
    bsy = Sym(prog, ban, slice_param=99)
    res.functions.add(BEAM)
    from ..sym import loop_iteration_paths
    # (a) the track loop iterates into_iter(tracks).skip(1)
    skip_ok = False
    loop_hdr = None
    elem = None
    for bk, t in bb_.calls():
        if short(cname(t)) == "Iterator::next":
            it = unmut(ban.terms.operand(t["args"][0]))
            while it[0] == "call" and short(it[1]) == "IntoIterator::into_iter" and it[2]:
                it = unmut(it[2][0])
            if it[0] == "call" and short(it[1]) == "Iterator::skip" and len(it[2]) == 2:
                n = bsy.poly(it[2][1])
                src = unmut(it[2][0])
                while src[0] == "call" and short(src[1]) == "IntoIterator::into_iter" and src[2]:
                    src = unmut(src[2][0])
                if n is not None and n.is_const() and n.const_value() == 1 and src[0] in ("param", "mut") and src[1] == 1:
                    skip_ok = True
                    for (tl, hd) in bb_.back_edges():
                        if bk in bb_.natural_loop(tl, hd):
                            loop_hdr = hd
    # the same with the iterator taken apart by hand: `let mut it = tracks.into_iter(); let Some(first) = it.next() else
    # {return ..}; let mut clusters = vec![vec![first]]; for track in it {..}` — one `next()` before the loop yields the
    # seed, the loop consumes the very same iterator
    seed_next = None
    if not skip_ok:
        in_loop = lambda bk_: any(bk_ in bb_.natural_loop(tl, hd) for (tl, hd) in bb_.back_edges())
        nx = []

        def unref(x):
            while x[0] in ("ref", "deref"):
                x = x[1]
            return x

        def local_iter(x):
            """the named iterator local a `next` call advances: through refs, into_iter (identity on iterators) and the
            for-loop's own temporary"""
            x = unref(x)
            while True:
                if x[0] == "call" and short(x[1]) == "IntoIterator::into_iter" and x[2]:
                    x = unref(x[2][0])
                    continue
                if x[0] == "mut":
                    i2 = unref(x[2])
                    while i2[0] == "call" and short(i2[1]) == "IntoIterator::into_iter" and i2[2]:
                        i2 = unref(i2[2][0])
                    if i2[0] == "mut":
                        x = i2
                        continue
                return x
        for bk, t in bb_.calls():
            if short(cname(t)) == "Iterator::next":
                nx.append((bk, local_iter(ban.terms.operand(t["args"][0])), ban.terms.call_term(t, bk)))
        inside = [x for x in nx if in_loop(x[0])]
        outside = [x for x in nx if not in_loop(x[0])]
        if len(inside) == 1 and len(outside) == 1 and inside[0][1] == outside[0][1] and inside[0][1][0] == "mut":
            src = unmut(inside[0][1][2])
            while src[0] == "call" and short(src[1]) == "IntoIterator::into_iter" and src[2]:
                src = unmut(src[2][0])
            hd_ = [hd for (tl, hd) in bb_.back_edges() if inside[0][0] in bb_.natural_loop(tl, hd)]
            if src[0] in ("param", "mut") and src[1] == 1 and hd_ and bb_.dominates(outside[0][0], hd_[0]):
                skip_ok = True
                loop_hdr = hd_[0]
                seed_next = (outside[0][0], ("field", ("downcast", outside[0][2], "Some"), 0))
    # third shape: no seed at all — one loop over ALL tracks, each iteration pushes its track exactly once (into the last
    # cluster or as a new one-element cluster): `for track in tracks { match clusters.last_mut() { Some(c) if near => c.push(track), _ => clusters.push(vec![track]) } }`
    whole_loop = False
    if not skip_ok:
        nx2 = []
        for bk, t in bb_.calls():
            if short(cname(t)) == "Iterator::next":
                it = unmut(ban.terms.operand(t["args"][0]))
                while it[0] == "call" and short(it[1]) == "IntoIterator::into_iter" and it[2]:
                    it = unmut(it[2][0])
                nx2.append((bk, it))
        loops_ = [(tl, hd, bb_.natural_loop(tl, hd)) for (tl, hd) in bb_.back_edges()]
        if len(nx2) == 1 and nx2[0][1][0] in ("param", "mut") and nx2[0][1][1] == 1:
            hd_ = [hd for (tl, hd, lp_) in loops_ if nx2[0][0] in lp_]
            idx0 = [bk for bk, t in bb_.calls() if short(cname(t)) == "Index::index" and unmut(strip_deref(ban.terms.operand(t["args"][0])))[0] in ("param", "mut")
                    and unmut(strip_deref(ban.terms.operand(t["args"][0])))[1] == 1]
            if hd_ and not idx0:
                skip_ok = True
                whole_loop = True
                loop_hdr = hd_[0]
    if skip_ok:
        res.hit(R5)
    else:
        res.violate(R5, BEAM, "skip", "the clustering loop does not iterate `tracks.into_iter().skip(1)`: the seed track is clustered twice or a track is skipped", bb_.where())
    # (b) the seed of the first cluster is tracks[0]
    seed_ok = False
    for bk, t in bb_.calls():
        if short(cname(t)) == "Index::index" and len(t["args"]) == 2:
            base = unmut(strip_deref(ban.terms.operand(t["args"][0])))
            ix = bsy.poly(ban.terms.operand(t["args"][1]))
            if base[0] in ("param", "mut") and base[1] == 1 and ix is not None and ix.is_const():
                if ix.const_value() == 0 and (loop_hdr is None or bb_.dominates(bk, loop_hdr)):
                    seed_ok = True
                else:
                    seed_ok = False
                    break
    if whole_loop:
        seed_ok = True           # nothing is taken out before the loop: the loop sees every track
    if seed_next is not None:
        for bi_, si_, st_ in bb_.stmts():
            if st_["k"] == "assign" and st_["rv"]["k"] == "aggr" and st_["rv"].get("ak") == "array" and bb_.dominates(bi_, loop_hdr):
                ops_ = strip(ban.terms.rvalue(st_["rv"]))[2]
                if len(ops_) == 1 and strip(ops_[0]) == seed_next[1]:
                    seed_ok = True
    if seed_ok:
        res.hit(R5)
    else:
        res.violate(R5, BEAM, "seed", "the first cluster is not seeded with `tracks[0]` before the loop", bb_.where())
    # (c) exactly one push on every iteration path
    push_ok = loop_hdr is not None
    if loop_hdr is not None:
        pushes = set(bk for bk, t in bb_.calls() if short(cname(t)) == "Vec::<T, A>::push")
        paths = loop_iteration_paths(ban, loop_hdr) or []
        body_paths = [bl for e, bl in paths if any(short(cname(bb_.blocks[x]["t"])) == "Iterator::next" for x in bl if bb_.blocks[x]["t"]["k"] == "call")]
        for bl in body_paths:
            n_push = len([x for x in bl if x in pushes])
            has_body = len(bl) > 3
            if has_body and n_push != 1:
                push_ok = False
        push_ok = push_ok and bool(body_paths)
    if push_ok:
        res.hit(R5)
    else:
        res.violate(R5, BEAM, "push", "an iteration of the clustering loop can push its track zero or several times", bb_.where())
    res.undecided = ["partition / conservation over all multisets (shared Hough bins, remove_unchecked/add bookkeeping)", "single-linkage connectivity of each cluster"]


def strip_deref(t):
    t = unmut(t)
    while t[0] == "call" and short(t[1]) in ("Deref::deref", "DerefMut::deref_mut") and len(t[2]) == 1:
        t = unmut(t[2][0])
    return t


def flood_model(prog):
    """the flood fill of largest_cluster as data, in role vocabulary: J = the integer cursor that indexes the swap_remove of
    a linked point, I = the other loop-carried integer cursor, POINTS = the vector the point is removed from, CLUSTER = the
    vector it is pushed to, MAX = the distance parameter.  None when the function is not in that form (then the clause
    is not decided).  I / J: sorted [value, guards] over every assignment; link: the push with its guards."""
    from ..sym import atom_str
    b = prog.body(LARGEST)
    an = analysis(prog, b, positions=True)
    sy = Sym(prog, an, slice_param=99)
    tm = an.terms
    lp = set()
    for tl, h in b.back_edges():
        lp |= set(b.natural_loop(tl, h))
    if not lp:
        return None
    carried = [l for l in range(len(b.locals)) if b.locals[l]["ty"].get("k") == "int" and len(tm.defs.whole[l]) > 1
               and all(d[0] in lp for d in tm.defs.whole[l])]
    srs = [(bb, t) for bb, t in b.calls() if bb in lp and short(cname(t)) == "Vec::<T, A>::swap_remove"]
    pushes = [(bb, t) for bb, t in b.calls() if bb in lp and short(cname(t)) == "Vec::<T, A>::push"]
    if len(carried) != 2 or len(srs) != 1:
        return None

    def plain_local(o):
        if not (isinstance(o, dict) and o.get("k") in ("copy", "move") and not (o.get("p") or {}).get("pr")):
            return None
        l = o["p"]["l"]
        while len(tm.defs.whole[l]) == 1 and b.locals[l].get("name") is None:
            (bi, si, x) = tm.defs.whole[l][0]
            if si == "t" or x.get("k") != "use":
                break
            o2 = x.get("o")
            if not (isinstance(o2, dict) and o2.get("k") in ("copy", "move") and not (o2.get("p") or {}).get("pr")):
                break
            l = o2["p"]["l"]
        return l
    sbb, st = srs[0]
    J = plain_local(st["args"][1])
    if J not in carried:
        return None
    I = [l for l in carried if l != J][0]
    tm._pos = (sbb, "t")
    names = {"I": sy.arg_name(tm.local(I)), "J": sy.arg_name(tm.local(J))}
    if names["I"] == names["J"]:
        return None
    vecs = {"POINTS": sy.arg_name(unref(tm.operand(st["args"][0])))}
    link_push = None
    for pbb, pt in pushes:
        tm._pos = (pbb, "t")
        v = strip(tm.operand(pt["args"][1]))
        if v[0] == "call" and short(v[1]) == "Vec::<T, A>::swap_remove":
            link_push = (pbb, pt)
            vecs["CLUSTER"] = sy.arg_name(unref(tm.operand(pt["args"][0])))
    if link_push is None or vecs["CLUSTER"] == vecs["POINTS"]:
        return None
    table = dict(names)
    table.update(vecs)
    order = sorted(table, key=lambda r: -len(table[r]))

    def roles(txt):
        for r in order:
            txt = txt.replace(table[r], r)
        txt = txt.replace("mut(POINTS)", "POINTS").replace("mut(CLUSTER)", "CLUSTER")
        # `v.get(i)` being Some is `i < v.len()`, and its payload is `v[i]` (while let Some(&c) = cluster.get(i))
        txt = re.sub(r"\(<impl \[T\]>::get\((\w+),(\w+)\) as Some\)\.0", r"Index::index(\1,\2)", txt)
        txt = re.sub(r"^<impl \[T\]>::get\((\w+),(\w+)\) is Some$", r"len(\1) - \2 - 1 >= 0", txt)
        return txt

    def guards_at(bb):
        ats = set()
        for (d, rel, vals) in an.atoms_at(bb):
            for a in sy.atoms(d, rel, vals):
                ats.add(roles(atom_str(a)))
        return sorted(ats)
    out = {}
    for role, l in (("I", I), ("J", J)):
        rows = []
        for (bi, si, x) in tm.defs.whole[l]:
            tm._pos = (bi, si)
            rows.append([roles(sy.arg_name(tm.call_term(x, bi) if si == "t" else tm.rvalue(x))), guards_at(bi)])
        out[role] = sorted(rows)
    pbb, pt = link_push
    tm._pos = (pbb, "t")
    out["link"] = {"value": roles(sy.arg_name(tm.operand(pt["args"][1]))), "guards": guards_at(pbb)}
    # the cluster under construction is a fresh vector for every seed: each (re)creation of CLUSTER lies inside the seed
    # loop, under the seed's guard only (a buffer reused across seeds keeps the previous component's points)
    cl_local = None
    tm._pos = (pbb, "t")
    ct = tm.operand(pt["args"][0])
    while ct[0] in ("ref", "deref"):
        ct = ct[1]
    if ct[0] in ("mut", "var"):
        cl_local = ct[1]
    if cl_local is not None:
        out["cluster_created"] = sorted([bi in lp, guards_at(bi)] for (bi, si, x) in tm.defs.whole[cl_local])
    return out


def unref(t):
    t = strip(t)
    while t[0] in ("ref", "deref"):
        t = strip(t[1])
    return t
