"""C16 — Reported track parameters: range clause ([-pi, pi] or NaN) and provenance of every reported t."""
import json
import math
import struct

from ..facts import AnchorMissing
from ..guards import analysis, accessor_field, field_index
from ..sym import Sym
from ..terms import strip, short, cname, same, walk, unmut
from .common import commut_sort

LEVEL = "other"
R = "alpha_g_physics::reconstruction::"
CLOSEST = R + "Helix::closest_t"
ABV = R + "angle_between_vectors"
TRACK = R + "Track"
FIT = R + "track_fitting::fit_cluster_to_helix"
FINDV = R + "vertex_fitting::find_vertices"


def fconst(t):
    """float value of a constant term (possibly negated), else None"""
    t = strip(t)
    if t[0] == "un" and t[1] == "Neg":
        v = fconst(t[2])
        return -v if v is not None else None
    if t[0] == "const" and t[2] == "f64" and isinstance(t[1], int):
        return struct.unpack("<d", struct.pack("<Q", t[1] & ((1 << 64) - 1)))[0]
    if t[0] == "call" and short(t[1]).endswith("Neg::neg") and len(t[2]) == 1:
        v = fconst(t[2][0])
        return -v if v is not None else None
    return None


def is_uom(callee, method):
    return "uom::si::" in callee and callee.endswith("::" + method)


def expand_calls(prog, t, depth=0):
    """calls of private straight-line workspace functions replaced by their result (arguments substituted), so that a
    formula reads the same whether it is written inline, in a nested fn or in a module-level helper"""
    from ..guards import closure_ret
    from ..terms import _subst_params
    if not isinstance(t, tuple) or not t or not isinstance(t[0], str):
        return t
    o_ = [t[0]]
    for y in t[1:]:
        if isinstance(y, tuple) and y and isinstance(y[0], str):
            o_.append(expand_calls(prog, y, depth))
        elif isinstance(y, tuple):
            o_.append(tuple(expand_calls(prog, z, depth) if isinstance(z, tuple) else z for z in y))
        else:
            o_.append(y)
    t = tuple(o_)
    if t[0] == "call" and depth < 3:
        h = prog.bodies.get(t[1])
        if h is not None and h.kind in ("Fn", "AssocFn") and not h.j.get("is_pub") and not h.back_edges() and len(h.reachable()) <= 16 \
                and not any(h.blocks[b_]["t"]["k"] == "switch" for b_ in h.reachable()) and len(t[2]) == h.argc:
            try:
                rets = closure_ret(prog, h)
            except Exception:
                rets = []
            if len(rets) == 1 and not any(x[0] in ("var", "mut", "loopval") for x in walk(rets[0])):
                return expand_calls(prog, _subst_params(rets[0], t[2]), depth + 1)
    return t


def kepler(prog):
    """the Kepler mechanism of closest_t as data (role vocabulary E, ECC, MEAN): the residual f and its derivative as they
    appear (helpers expanded) in the Newton step and the stop criterion, the eccentricity and the mean anomaly, the exits
    of the iteration and the start values of E"""
    from .. import accept
    from ..sym import atom_str
    out = {}
    b = prog.body(CLOSEST)
    an = analysis(prog, b, positions=True)
    sy = Sym(prog, an, slice_param=99)
    tm = an.terms
    lp = set()
    for tl, hd in b.back_edges():
        lp |= set(b.natural_loop(tl, hd))
    subs = [(bb, t) for bb, t in b.calls() if bb in lp and short(cname(t)) == "SubAssign::sub_assign"]
    if len(subs) != 1 or not lp:
        return None
    sbb, st = subs[0]
    tm._pos = (sbb, "t")
    e_ref = tm.operand(st["args"][0])
    while e_ref[0] in ("ref", "deref"):
        e_ref = e_ref[1]
    if e_ref[0] not in ("var", "mut"):
        return None
    el = e_ref[1]

    def is_E(x):
        x = x
        while x[0] in ("ref", "deref"):
            x = x[1]
        return x[0] in ("var", "mut") and x[1] == el

    def roleE(x):
        """reads of the iterate by role"""
        if not isinstance(x, tuple) or not x or not isinstance(x[0], str):
            return x
        if x[0] in ("var", "mut") and x[1] == el:
            return ("cdef", "E")
        o_ = [x[0]]
        for y in x[1:]:
            if isinstance(y, tuple) and y and isinstance(y[0], str):
                o_.append(roleE(y))
            elif isinstance(y, tuple):
                o_.append(tuple(roleE(z) if isinstance(z, tuple) else z for z in y))
            else:
                o_.append(y)
        return tuple(o_)
    step_t = roleE(expand_calls(prog, tm.operand(st["args"][1])))
    # stop criterion: the exit of the loop that is not the exhaustion of the counter
    exits_t = []
    for s_ in sorted(lp):
        for t_ in b.succ(s_):
            if t_ not in lp and b.blocks[t_]["t"].get("k") != "unreachable":
                d, rel, vals = an.edge_atom(s_, t_)
                exits_t.append((roleE(expand_calls(prog, d)), rel, vals))
    # the residual inside the stop criterion: abs(E - e sin E - M)
    ecc = mean = None
    for d, rel, vals in exits_t:
        for x in walk(d):
            if x[0] == "call" and short(x[1]).endswith("::abs") and len(x[2]) == 1:
                r = strip(x[2][0])
                if r[0] == "call" and short(r[1]) == "Sub::sub" and len(r[2]) == 2:
                    inner = strip(r[2][0])
                    if inner[0] == "call" and short(inner[1]) == "Sub::sub" and len(inner[2]) == 2 and strip(inner[2][0]) == ("cdef", "E"):
                        prod = strip(inner[2][1])
                        if prod[0] == "call" and short(prod[1]) == "Mul::mul" and len(prod[2]) == 2:
                            sn = strip(prod[2][1])
                            if sn[0] == "call" and short(sn[1]).endswith("::sin") and strip(sn[2][0]) == ("cdef", "E"):
                                ecc, mean = sy.name(prod[2][0]), sy.name(r[2][1])
    out["ecc"], out["mean"] = ecc, mean

    def al(x):
        x = abstract_phi(x, "E")
        if ecc and mean:
            x = x.replace(mean, "MEAN").replace(ecc, "ECC")
        return x
    out["step"] = al(sy.name(step_t))
    def count_exit(atoms_):
        """the exhaustion of `for _ in 0..N` and the failing test of `while i < N` with `i` counting up from 0 in steps
        of one are the same exit: after N iterations"""
        import re as _re
        if len(atoms_) != 1:
            return atoms_
        m = _re.match(r"^Iterator::next\(mut\(Range\{0,(.*)\}\)\) is None$", atoms_[0])
        if m:
            return ["after %s iterations" % m.group(1)]
        m = _re.match(r"^-(\w+) \+ (loop(?:#\d+)?\(0\)) >= 0$", atoms_[0])
        if m:
            # the counter: a local initialised to 0 whose only definition in the loop adds 1 and runs on every iteration
            for l in range(len(b.locals)):
                ds = tm.defs.whole[l]
                ins = [d_ for d_ in ds if d_[0] in lp]
                outs = [d_ for d_ in ds if d_[0] not in lp]
                if len(ins) == 1 and len(outs) == 1 and b.locals[l]["ty"].get("k") == "int":
                    i0 = strip(sy._def_term(outs[0]))
                    st_ = strip(sy._def_term(ins[0]))
                    tails_ = [tl for tl, hd in b.back_edges()]
                    if i0 == ("const", 0, i0[2] if len(i0) > 2 else None) or (i0[0] == "const" and i0[1] == 0):
                        if st_[0] == "bin" and st_[1] == "Add" and strip(st_[2])[0] == "var" and strip(st_[2])[1] == l and strip(st_[3])[0] == "const" and strip(st_[3])[1] == 1 \
                                and all(b.dominates(ins[0][0], tl) for tl in tails_) and sy.header_sym(l) == m.group(2):
                            return ["after %s iterations" % m.group(1)]
        return atoms_
    out["exits"] = sorted(count_exit(sorted(al(atom_str(a)) for a in sy.atoms(d, rel, vals))) for d, rel, vals in exits_t)
    starts = []
    for d in tm.defs.whole[el]:
        ats = []
        for (dd, rel, vals) in an.atoms_at(d[0]):
            ats += sy.atoms(dd, rel, vals)
        gs = sorted(al(atom_str(a)) for a in (accept.simplify(ats, sy.sym_box) or []) if "MEAN" in al(atom_str(a)))
        starts.append([gs, al(sy.name(sy._def_term(d)))])
    out["start"] = sorted(starts)
    return out


def abstract_phi(s, name):
    """`phi(a|b|..)` (a loop-carried / branch-defined float) by a role name (balanced parentheses)"""
    out, i = "", 0
    while True:
        j = s.find("phi(", i)
        if j < 0:
            return out + s[i:]
        k, depth = j + 4, 0
        while k < len(s):
            if s[k] == "(":
                depth += 1
            elif s[k] == ")":
                if depth == 0:
                    break
                depth -= 1
            k += 1
        out += s[i:j] + name
        i = k + 1


def run(prog, tier, res):
    res.explanation = ("all-returns analysis of the closest-point routine (every returned value is an atan2 result or "
                       "clamp(_, -PI, PI)), and a census of who writes the reported t values: Track.t_inner/t_outer and "
                       "VertexInfo.tracks are closest_t results for that track's helix at the right point.")
    res.trusted = ["f64::atan2 returns a value in [-pi, pi] or NaN; f64::clamp(x, a, b) returns a value in [a, b] or NaN"]
    R1 = res.rule("C16.R1", "every value returned by Helix::closest_t is atan2(..) or clamp(_, -PI, PI)", 2)
    R2 = res.rule("C16.R2", "Track.t_inner/t_outer are written once, by closest_t on the fitted helix; accessors return the fields", 4)
    R3 = res.rule("C16.R3", "VertexInfo.tracks pairs each track with closest_t(track.helix, vertex position as (hypot(x,y), atan2(y,x), z))", 3)

    # ------------------------------------------------------------------ R1
    b = prog.body(CLOSEST)
    an = analysis(prog, b)
    res.functions.add(CLOSEST)
    rets = an.ret_assignments()
    if not rets:
        raise AnchorMissing("no return value in " + CLOSEST)
    for bb, t in rets:
        t = strip(t)
        ok = False
        why = "is computed by `%s`" % (short(t[1]) if t[0] == "call" else t[0])
        if t[0] == "call" and short(t[1]) == "<impl f64>::clamp" and len(t[2]) == 3:
            lo, hi = fconst(t[2][1]), fconst(t[2][2])
            ok = lo is not None and hi is not None and abs(lo + math.pi) < 1e-15 and abs(hi - math.pi) < 1e-15
            why = "is clamp(_, %s, %s)" % (lo, hi)
            # "strictly inside (-pi, pi) means it is the stationary point found": what is clamped is the solution of the
            # stationarity equation itself (pi - E + 2 pi n - phi0 + delta, E = the Newton iterate), not a reduced or
            # otherwise post-processed value that could land inside the interval without being a stationary point
            if ok:
                sy_ = Sym(prog, an, slice_param=99)
                opn = abstract_phi(sy_.name(t[2][0]), "E")
                from .. import accept as _accept
                want = _accept.load_spec("c16.json")["clamp_operand"]
                if opn != want:
                    ok = False
                    why = "clamp-operand: clamps `%s`, not the stationary-point expression `%s`" % (opn[:200], want[:120])
        elif fconst(t) is not None:
            # a constant return (the arms of a clamp written as an if / else-if ladder): in range iff |c| <= pi
            cv = fconst(t)
            ok = abs(cv) <= math.pi
            why = "is the constant %r" % cv
            res.oblige(ok, "all-returns")
            if ok:
                res.hit(R1)
            else:
                res.violate(R1, CLOSEST, "return:constant", "a value returned by the closest-point routine %s — it is not confined to [-pi, pi]" % why, b.where(bb))
            continue
        elif t[0] == "call" and is_uom(t[1], "get") and len(t[2]) == 1 and not (strip(t[2][0])[0] == "call" and strip(t[2][0])[1] == ABV):
            # `x` returned as it is on the path where neither `x < -pi` nor `pi < x` held: the third arm of the clamp ladder
            from .. import accept as _acc
            from ..sym import atom_str as _as
            sy_ = Sym(prog, an, slice_param=99)
            ats_ = []
            for (d_, rel_, vals_) in an.atoms_at(bb):
                ats_ += sy_.atoms(d_, rel_, vals_)
            gs_ = [abstract_phi(_as(a_), "E") for a_ in (_acc.simplify(ats_, sy_.sym_box) or [])]
            xn = abstract_phi(sy_.name(t), "E")
            pis = ("3.141592653589793", "4614256656552045848")
            negs = ("neg(3.141592653589793)", "-3.141592653589793", "Neg::neg(4614256656552045848)", "neg(4614256656552045848)")
            hi_g = [g for g in gs_ if any(g == "fcmp not Lt %s %s" % (p_, xn) for p_ in pis)]
            lo_g = [g for g in gs_ if any(g == "fcmp not Lt %s %s" % (xn, n_) for n_ in negs)]
            want = _acc.load_spec("c16.json")["clamp_operand"]
            rest = sorted(g for g in gs_ if g not in hi_g and g not in lo_g)
            ok = bool(hi_g) and bool(lo_g) and xn == want and rest == _acc.load_spec("c16.json")["return_guards"]["clamp"]
            why = "ladder: returns `%s` under %s; a clamp written as a ladder must return the stationary-point expression exactly when it is neither below -pi nor above pi" % (xn[:120], gs_)
            res.oblige(ok, "all-returns")
            if ok:
                res.hit(R1)
            else:
                res.violate(R1, CLOSEST, "return:ladder", "a value returned by the closest-point routine is not confined to [-pi, pi]: %s" % why[:600], b.where(bb))
            continue
        elif t[0] == "call" and is_uom(t[1], "get") and len(t[2]) == 1:
            inner = strip(t[2][0])
            ok = inner[0] == "call" and inner[1] == ABV
            why = "is .get() of `%s`" % (short(inner[1]) if inner[0] == "call" else inner[0])
            if ok:
                # the circle case: t is the signed angle, seen from the circle's centre (x0, y0), from the helix point at
                # t = 0 to the query point -- that is the minimiser of the distance to a circle
                sy_ = Sym(prog, an, slice_param=99)
                from .. import accept as _accept0
                opn = commut_sort(sy_.name(inner))
                want = _accept0.load_spec("c16.json")["circle_operand"]
                if opn != want:
                    ok = False
                    why = "circle-operand: the zero-pitch branch returns `%s`, not the angle at the centre between the t = 0 point and the query point `%s`" % (opn[:300], want[:160])
        if ok:
            # which return is taken: the circle fallback exactly when |h| is below machine epsilon (a pitch of either sign
            # with |h| >= eps must take the stationary-point branch, where t depends on z)
            from .. import accept as _accept2
            from ..sym import atom_str as _atom_str
            sy2 = Sym(prog, an, slice_param=99)
            ats_ = []
            for (d_, rel_, vals_) in an.atoms_at(bb):
                ats_ += sy2.atoms(d_, rel_, vals_)
            gs = sorted(_atom_str(a_) for a_ in (_accept2.simplify(ats_, sy2.sym_box) or []))
            kind_ = "clamp" if short(t[1]) == "<impl f64>::clamp" else "circle"
            want_g = _accept2.load_spec("c16.json")["return_guards"][kind_]
            if gs != want_g:
                ok = False
                why = "guard: the %s return is taken under %s, expected %s" % (kind_, gs, want_g)
        res.oblige(ok, "all-returns")
        if ok:
            res.hit(R1)
        else:
            res.violate(R1, CLOSEST, "return:%s" % (why.split(":")[0] if why.startswith(("clamp-operand", "circle-operand", "guard")) else why[:80]), "a value returned by the closest-point routine %s — it is not confined to [-pi, pi]" % why, b.where(bb))
    ab = prog.body(ABV)
    aan = analysis(prog, ab)
    res.functions.add(ABV)
    arets = [strip(t) for _, t in aan.ret_assignments()]
    ok = len(arets) == 1 and arets[0][0] == "call" and (is_uom(arets[0][1], "atan2") or short(arets[0][1]) == "<impl f64>::atan2")
    res.oblige(ok, "all-returns")
    if ok:
        res.hit(R1)
    else:
        res.violate(R1, ABV, "return", "angle_between_vectors does not return an atan2 result", ab.where())
    if ok:
        # ... and that result is the signed angle from v1 to v2: atan2(v1 x v2, v1 . v2)
        from .. import accept as _accept3
        got_abv = commut_sort(Sym(prog, aan, slice_param=99).name(arets[0]))
        want_abv = _accept3.load_spec("c16.json")["angle_between_vectors"]
        if got_abv == want_abv:
            res.hit(R1)
        else:
            res.violate(R1, ABV, "return:signed-angle", "angle_between_vectors returns `%s`, not the signed angle atan2(cross, dot) `%s`" % (got_abv[:300], want_abv), ab.where())

    # ------------------------------------------------------------------ R2
    fi = {n: field_index(prog, TRACK, n) for n in ("helix", "t_inner", "t_outer")}
    sites = []
    for p, body in prog.bodies.items():
        if body.crate != "alpha_g_physics" or "::tests::" in p or "as std::clone::Clone" in p or "serde" in p:
            continue
        for bi, si, s in body.stmts():
            if s["k"] == "assign" and s["rv"]["k"] == "aggr" and s["rv"].get("ak") == "adt" and s["rv"]["p"] == TRACK:
                sites.append((p, bi, s))
    if len(sites) != 1:
        res.violate(R2, TRACK, "constructors", "expected exactly one construction site of Track (in the fit), found %d: %s" % (len(sites), [s[0] for s in sites]), "")
    for p, bi, s in sites:
        body = prog.bodies[p]
        tan = analysis(prog, body)
        ops = [tan.terms.operand(o) for o in s["rv"]["ops"]]
        helix = strip(ops[fi["helix"]])
        for n in ("t_inner", "t_outer"):
            t = strip(ops[fi[n]])
            ok = t[0] == "call" and t[1] == CLOSEST and same(strip(t[2][0]), helix)
            res.oblige(ok, "field-writer")
            if ok:
                res.hit(R2)
            else:
                res.violate(R2, p, "writer:%s" % n, "Track.%s is not closest_t(..) evaluated on the track's own fitted helix" % n, body.where(bi))
        res.functions.add(p)
    for n in ("t_inner", "t_outer"):
        acc = "%s::%s" % (TRACK, n)
        if accessor_field(prog, acc) == fi[n]:
            res.hit(R2)
        else:
            res.violate(R2, acc, "accessor", "Track::%s() does not return the field" % n, prog.body(acc).where())

    # ------------------------------------------------------------------ R4: the Kepler mechanism
    R4 = res.rule("C16.R4", "closest_t solves the stationarity equation of the distance: M = E - e sin E with e = 4 pi^2 r R / h^2 (r = distance from the helix AXIS), "
                  "Newton step E -= f/df, stop on |f| < |tolerance|, start at -pi / +pi by the sign of M", 5)
    from .. import accept as _acc
    kw = _acc.load_spec("c16.json")["kepler"]
    kg = kepler(prog) or {}
    for key_, what in (("ecc", "the eccentricity e = 4 pi^2 r R / h^2 with r measured from the helix axis (x0, y0), as it appears in the residual E - e sin E - M"),
                       ("mean", "the mean anomaly M = pi + 2 pi n - (phi0 + 2 pi (z - z0)/h - delta)"), ("step", "the Newton step E -= (E - e sin E - M) / (1 - e cos E)"),
                       ("exits", "the iteration stops on |E - e sin E - M| < |tolerance| or after max_num_iter steps"), ("start", "E starts at -pi for M < 0, else at +pi")):
        if kg.get(key_) == kw[key_]:
            res.hit(R4)
        else:
            res.violate(R4, CLOSEST, "kepler:%s" % key_, "%s: found %s" % (what, json.dumps(kg.get(key_))[:400]), b.where(), detail={"got": kg.get(key_), "want": kw[key_]})

    # ------------------------------------------------------------------ R3
    found = 0
    for p, body in prog.bodies.items():
        if not p.startswith(FINDV + "::{closure"):
            continue
        can = analysis(prog, body)
        calls = [(bb, t) for bb, t in body.calls() if cname(t) == CLOSEST]
        if not calls:
            continue
        res.functions.add(p)
        for bb, t in calls:
            found += 1
            a0 = strip(can.terms.operand(t["args"][0]))
            a1 = strip(can.terms.operand(t["args"][1]))
            # helix of the closure's element
            hi = field_index(prog, TRACK, "helix")
            elem = strip(a0[1]) if a0[0] == "field" else None

            def is_track_elem(e):
                """the closure's element (`tracks.into_iter().map(|track| ..)`) or the element of a loop over the tracks"""
                if e == ("param", 2):
                    return True
                e = unmut(e)
                if e[0] == "field" and e[2] == 0 and unmut(e[1])[0] == "downcast" and unmut(e[1])[2] == "Some":
                    nx = unmut(unmut(e[1])[1])
                    return nx[0] == "call" and short(nx[1]) == "Iterator::next"
                return False
            ok_h = a0[0] == "field" and a0[2] == hi and elem is not None and is_track_elem(elem)
            ok_p = False
            # a closure captures the components of the position separately (`position.x`, `position.y`, `position.z` are
            # three upvars): read the point in the vocabulary of the body that creates the closure
            vbody, van = body, can
            parent = prog.bodies.get(p.rsplit("::{closure", 1)[0])
            def env_field(x):
                x = strip(x)
                return x[0] == "field" and strip(x[1]) == ("param", 1)
            from_env = a1[0] == "aggr" and len(a1[2]) == 3 and (env_field(a1[2][2]) or (strip(a1[2][0])[0] == "call" and strip(a1[2][0])[2] and env_field(strip(a1[2][0])[2][0])))
            if parent is not None and from_env:
                pan = analysis(prog, parent)
                for bi, si, st in parent.stmts():
                    if st["k"] == "assign" and st["rv"]["k"] == "aggr" and st["rv"].get("ak") == "closure" and st["rv"].get("p") == p:
                        pan.terms._pos = (bi, si)
                        caps = strip(pan.terms.rvalue(st["rv"]))[2]
                        from ..guards import subst_upvars
                        a1 = strip(subst_upvars(a1, caps))
                        vbody, van = parent, pan
            if a1[0] == "aggr" and a1[1].endswith("SpacePoint::SpacePoint") and len(a1[2]) == 3:
                r_, phi, z = [strip(x) for x in a1[2]]
                if r_[0] == "call" and is_uom(r_[1], "hypot") and phi[0] == "call" and is_uom(phi[1], "atan2"):
                    x0, y0 = strip(r_[2][0]), strip(r_[2][1])
                    py, px = strip(phi[2][0]), strip(phi[2][1])
                    base_ok = (x0[0] == "field" and y0[0] == "field" and z[0] == "field" and same(x0[1], y0[1]) and same(x0[1], z[1])
                               and (x0[2], y0[2], z[2]) == (0, 1, 2))
                    if not base_ok:
                        # the position's components are still visible as the operands of the Coordinate stored in
                        # VertexInfo.position by this body
                        pi_ = field_index(prog, R + "VertexInfo", "position")
                        for bi, si, st in vbody.stmts():
                            if st["k"] == "assign" and st["rv"]["k"] == "aggr" and st["rv"].get("p", "").endswith("::VertexInfo"):
                                van.terms._pos = (bi, si)
                                pos_t = strip(van.terms.operand(st["rv"]["ops"][pi_]))
                                if pos_t[0] == "aggr" and pos_t[1].endswith("Coordinate::Coordinate") and len(pos_t[2]) == 3:
                                    X, Y, Z = [strip(c_) for c_ in pos_t[2]]
                                    base_ok = same(x0, X) and same(y0, Y) and same(z, Z)
                    ok_p = base_ok and same(px, x0) and same(py, y0)
            rets = [strip(r) for _, r in can.ret_assignments()]

            def is_pair(v):
                return v[0] == "aggr" and v[1] == "tuple" and len(v[2]) == 2 and elem is not None and same(strip(v[2][0]), elem) and \
                    strip(v[2][1])[0] == "call" and strip(v[2][1])[3] == bb
            ok_r = len(rets) == 1 and is_pair(rets[0])
            if not ok_r:
                # loop form: the pair is pushed once per element and the vector becomes VertexInfo.tracks
                pushes = [(b2, t2) for b2, t2 in body.calls() if short(cname(t2)) == "Vec::<T, A>::push" and is_pair(strip(can.terms.operand(t2["args"][1])))]
                if len(pushes) == 1:
                    tgt = pushes[0][1]["args"][0]
                    vloc = None
                    for bi, si, st in body.stmts():
                        if st["k"] == "assign" and not st["p"]["pr"] and tgt.get("k") in ("move", "copy") and st["p"]["l"] == tgt["p"]["l"] and st["rv"]["k"] == "ref":
                            vloc = st["rv"]["p"]["l"]
                    ti = field_index(prog, R + "VertexInfo", "tracks")
                    for bi, si, st in body.stmts():
                        if st["k"] == "assign" and st["rv"]["k"] == "aggr" and st["rv"].get("p", "").endswith("VertexInfo") and vloc is not None:
                            op = st["rv"]["ops"][ti]
                            src = op["p"]["l"] if op.get("k") in ("move", "copy") and not op["p"]["pr"] else None
                            for _ in range(4):         # `_t = move vec` temporaries
                                if src is None or src == vloc:
                                    break
                                ds = [s2 for _, _, s2 in body.stmts() if s2["k"] == "assign" and not s2["p"]["pr"] and s2["p"]["l"] == src]
                                if len(ds) == 1 and ds[0]["rv"]["k"] == "use" and ds[0]["rv"]["o"].get("k") in ("move", "copy") and not ds[0]["rv"]["o"]["p"]["pr"]:
                                    src = ds[0]["rv"]["o"]["p"]["l"]
                                else:
                                    break
                            if src == vloc:
                                ok_r = True
            for ok, what, key in ((ok_h, "closest_t is not evaluated on the helix of the track it is reported for", "helix"),
                                  (ok_p, "the point handed to closest_t is not the fitted vertex position as (r = hypot(x, y), phi = atan2(y, x), z)", "point"),
                                  (ok_r, "the pair reported in VertexInfo.tracks is not (track, closest_t(track, vertex))", "pair")):
                res.oblige(ok, "provenance")
                if ok:
                    res.hit(R3)
                else:
                    res.violate(R3, FINDV, "vertex-t:%s" % key, what, body.where(bb))
    if found != 1:
        res.violate(R3, FINDV, "vertex-t:count", "expected one closest_t call producing VertexInfo.tracks, found %d" % found, "")
    res.undecided = ["the returned value is never NaN", "global minimality of the returned t within 1e-9 m for all helices/points (numerical optimisation)"]
