"""C18 — Drift-time lookup: range guards, z symmetry (non-interference), sign and interpolation shape."""
import re

from .. import accept
from .tables import check_fn_tables

LEVEL = "other"
TABLES_AT = "alpha_g_physics::drift::DriftTables::at"


def run(prog, tier, res):
    spec = accept.load_spec("c18.json")
    alias = [tuple(a) for a in spec["alias"]]
    res.explanation = ("Guard/value tables of DriftTables::at, DriftTable::at and SpacePoint::try_from(Avalanche) (every path: "
                       "float guard atoms with strictness, error variant, value term) compared with the property; z is used only "
                       "through abs() or as the error payload.")
    res.trusted = ["spec table tables/spec/c18.json transcribed from the property statement", "the embedded drift table satisfies what the existing unit tests assert (ordering, positivity)"]
    R1 = res.rule("C18.R1", "range guards with strictness and error variants; slice choice = first upper bound >= |z|; bracket search, last-knot fallback, linear interpolation lhs + f*(rhs-lhs); phi - correction", 3)
    R2 = res.rule("C18.R2", "z-symmetry as non-interference: z only through abs() or the error payload", 1)
    check_fn_tables(prog, res, R1, spec["functions"], alias=alias, quantified=True)
    # non-interference
    tab = accept.ret_table(prog, TABLES_AT, alias=alias, quantified=True)
    bad = []
    for atoms, val in tab:
        for s in atoms + [val]:
            t = s.replace("uom::abs(arg2)", "ABSZ").replace("AxialPositionOutOfRange{arg2}", "ERRZ")
            if re.search(r"\barg2\b", t):
                bad.append(s[:120])
    if bad:
        res.violate(R2, TABLES_AT, "z-use", "the axial position is used other than through abs() / the error payload, so z and -z can give different results: %s" % bad[:2], prog.bodies[TABLES_AT].where())
    else:
        res.hit(R2)
    res.sample({"DriftTables::at": tab})
    # ------------------------------------------------------------------ R3: the embedded table itself
    from .. import invariants
    R3 = res.rule("C18.R3", "embedded drift tables (the only source of DriftTables values): z bounds and knot times strictly ascending, radius non-increasing, "
                  "adjacent radius step < 0.5 mm at the 8 ns knot spacing, Lorentz correction >= 0", 90)
    STATIC = "alpha_g_physics::drift::DRIFT_TABLES"
    vals = invariants.embedded_values(prog, "alpha_g_physics::drift::DriftTables")
    if not vals or len(vals) != 1 or not isinstance(vals[0], list):
        res.violate(R3, STATIC, "source", "DriftTables values are not (only) deserialised from one embedded byte constant; the table clauses cannot be decided", "", kind="anchor-missing")
    else:
        tables = vals[0]
        prev_ub = None
        for entry in tables:
            ok_shape = isinstance(entry, list) and len(entry) == 2 and isinstance(entry[0], list) and all(isinstance(k, list) and len(k) == 3 for k in entry[0])
            if not ok_shape:
                res.violate(R3, STATIC, "shape", "embedded table entry is not ([(time, radius, correction)...], z upper bound)", "")
                continue
            knots, ub = entry
            tag = "zmax=%r" % ub
            bad = []
            if prev_ub is not None and not ub > prev_ub:
                bad.append(("z-order", "z upper bound %r does not exceed the previous bound %r" % (ub, prev_ub)))
            prev_ub = ub
            if len(knots) < 2:
                bad.append(("knots", "fewer than two knots"))
            for i in range(1, len(knots)):
                (t0, r0, c0), (t1, r1, c1) = knots[i - 1], knots[i]
                if not t1 > t0:
                    bad.append(("time-order:t=%r" % t1, "knot times not strictly ascending at t=%r" % t1))
                if r1 > r0:
                    bad.append(("radius-up:t=%r" % t1, "radius increases with drift time at t=%r (%r -> %r)" % (t1, r0, r1)))
                if abs((t1 - t0) - 8e-9) < 1e-15 and not (r0 - r1) < 0.5e-3:
                    bad.append(("step:t=%r" % t1, "radius changes by %.3f mm between the lookups at t=%r s and t=%r s (8 ns apart) in the slice |z| <= %r m; "
                                "the property requires less than 0.5 mm" % ((r0 - r1) * 1e3, t0, t1, ub)))
            if any(c < 0 for _, _, c in knots) or any(r < 0 for _, r, _ in knots):
                bad.append(("sign", "negative radius or Lorentz correction tabulated"))
            res.oblige(not bad, "table-data")
            res.hit(R3)     # one instance per slice examined; violations are reported per failing knot
            for k, what in bad:
                res.violate(R3, STATIC, "%s:%s" % (tag, k), what, "physics/src/drift.rs")
        res.extra["embedded_table"] = {"slices": len(tables), "knots": sum(len(e[0]) for e in tables if isinstance(e, list) and e and isinstance(e[0], list))}
    res.undecided = ["ulp-level behaviour of the interpolation arithmetic at and between knots", "half-detector-length constant of the largest z bound"]
