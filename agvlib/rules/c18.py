"""C18 — Drift-time lookup: range guards, z symmetry (non-interference), sign and interpolation shape."""
import re

from .. import accept
from .tables import check_fn_tables

LEVEL = "other"
TABLES_AT = "alpha_g_physics::drift::DriftTables::at"


def run(prog, tier, res):
    spec = accept.load_spec("c18.json")
    alias = [tuple(a) for a in spec["alias"]]
    res.explanation = ("Guard/value tables of DriftTables::at, DriftTable::at and SpacePoint::try_from(Avalanche) (every path: "
                       "float guard atoms with strictness, error variant, value term) compared with the property; z is used only "
                       "through abs() or as the error payload.")
    res.trusted = ["spec table tables/spec/c18.json transcribed from the property statement", "the embedded drift table satisfies what the existing unit tests assert (ordering, positivity)"]
    R1 = res.rule("C18.R1", "range guards with strictness and error variants; slice choice = first upper bound >= |z|; bracket search, last-knot fallback, linear interpolation lhs + f*(rhs-lhs); phi - correction", 3)
    R2 = res.rule("C18.R2", "z-symmetry as non-interference: z only through abs() or the error payload", 1)
    check_fn_tables(prog, res, R1, spec["functions"], alias=alias)
    # non-interference
    tab = accept.ret_table(prog, TABLES_AT, alias=alias)
    bad = []
    for atoms, val in tab:
        for s in atoms + [val]:
            t = s.replace("uom::abs(arg2)", "ABSZ").replace("AxialPositionOutOfRange{arg2}", "ERRZ")
            if re.search(r"\barg2\b", t):
                bad.append(s[:120])
    if bad:
        res.violate(R2, TABLES_AT, "z-use", "the axial position is used other than through abs() / the error payload, so z and -z can give different results: %s" % bad[:2], prog.bodies[TABLES_AT].where())
    else:
        res.hit(R2)
    res.sample({"DriftTables::at": tab})
    res.undecided = ["monotonicity, 0.5 mm continuity, radius and Lorentz-angle bounds (depend on table values)", "ulp-level behaviour at knots"]
