"""C19 — vertex / scaler CSVs: one row per main event, in run order, with unwrapped time."""
import json
import re

from .. import accept
from ..facts import AnchorMissing
from ..guards import analysis, closure_info, closure_ret, subst_upvars, is_field_of
from ..sym import Sym
from ..terms import strip, short, cname, unmut, walk
from .common import check_row_decl
from .tables import check_fn_tables, diff_tables

LEVEL = "other"
BINS = {"vertices": "alpha_g_vertices::main", "scalers": "alpha_g_trg_scalers::main"}
SORT = "alpha_g_analysis::sort_run_files"
READ = "alpha_g_analysis::read"
EXT = "<alpha_g_analysis::Extension as std::convert::TryFrom<&std::ffi::OsStr>>::try_from"
ADAPTERS = {"ParallelIterator::map", "ParallelIterator::filter", "ParallelProgressIterator::progress_with", "IntoParallelIterator::into_par_iter",
            "Iterator::map", "Iterator::filter", "IntoIterator::into_iter", "Iterator::scan", "Iterator::filter_map", "Iterator::flatten",
            "Iterator::take_while", "Iterator::skip", "Iterator::skip_while", "Iterator::take", "Iterator::step_by", "Iterator::rev",
            "ParallelIterator::filter_map", "ParallelIterator::flat_map", "ParallelBridge::par_bridge", "Iterator::dedup", "Iterator::peekable",
            "Iterator::enumerate", "Iterator::chain", "Iterator::zip", "Iterator::flat_map", "ParallelIterator::flatten", "Iterator::inspect"}


def pipeline(an, term):
    """adapter names from the sink's argument back to its source"""
    out = []
    t = unmut(term)
    while t[0] == "call" and short(t[1]) in ADAPTERS and t[2]:
        out.append(short(t[1]))
        t = unmut(t[2][0])
    src = short(t[1]) if t[0] == "call" else t[0]
    if t[0] == "try":
        inner = unmut(t[1])
        while inner[0] == "call" and short(inner[1]) in ("Context::with_context", "Context::context") and inner[2]:
            inner = unmut(inner[2][0])
        src = "try(%s)" % (short(inner[1]) if inner[0] == "call" else inner[0])
    return out, src


def effects(prog, fn):
    """state updates of a closure, per path and per case of its branch-defined values / unwrap_or defaults:
    [[guards], [[place, value], ...]] rows (writes through `&mut` captures and arguments)"""
    from ..sym import forward_paths, atom_str
    b = prog.body(fn)
    an = analysis(prog, b)
    sy = Sym(prog, an, slice_param=99)
    writes = [(bi, si, s) for bi, si, s in b.stmts() if s["k"] == "assign" and any(e["k"] == "deref" for e in s["p"]["pr"])]
    rows = set()
    for rb in b.returns():
        for path in forward_paths(an, rb) or []:
            on = [(bi, si, s) for bi, si, s in writes if bi in set(path[1])]

            def _vals(path=path, on=on):
                sy.set_path(path[1])
                try:
                    return [sy.name(an.terms.rvalue(s["rv"])) for _, _, s in on]
                finally:
                    sy.set_path(None)
            for env, extra in accept.case_envs(sy, path, _vals):
                if env:
                    sy.set_cases(env)
                try:
                    from ..sym import path_atoms
                    ats = accept.simplify(path_atoms(sy, path) + extra, sy.sym_box)
                    if ats is None:
                        continue
                    sy.set_path(path[1])
                    eff = []
                    for _, _, s in on:
                        rv = an.terms.rvalue(s["rv"])
                        pv = sy.poly(rv)
                        eff.append((sy.name(an.terms.place(s["p"])), str(pv) if pv is not None else sy.name(rv)))
                    sy.set_path(None)
                finally:
                    if env:
                        sy.set_cases(None)
                rows.add((tuple(sorted(atom_str(a) for a in ats)), tuple(sorted(eff))))
    return [[list(a), [list(e) for e in ef]] for a, ef in sorted(rows)]


def plus(v):
    """`Add(0,X)` / `Add(X,Y)` of a state cell in infix form (the polynomial printer's spelling)"""
    m = re.match(r"^Add\(0,(.*)\)$", v)
    if m:
        return m.group(1)
    m = re.match(r"^Add\((var<[^,]*>),(.*)\)$", v)
    if m:
        return "%s + %s" % (m.group(1), m.group(2))
    return v


def merge_rows(rows):
    """rows with the same value whose guard sets differ in exactly one complementary pair (`X is Some` / `X is None`)
    are one row without that guard (a branch that does not influence the value)"""
    rows = [[sorted(a), v] for a, v in rows]
    changed = True
    while changed:
        changed = False
        for i in range(len(rows)):
            for j in range(i + 1, len(rows)):
                (a, v), (b_, w) = rows[i], rows[j]
                if v != w or len(a) != len(b_):
                    continue
                da, db = [x for x in a if x not in b_], [x for x in b_ if x not in a]
                if len(da) == 1 and len(db) == 1:
                    x, y = da[0], db[0]
                    for p_, q_ in ((" is Some", " is None"), (" is None", " is Some"), (" is Ok", " is Err"), (" is Err", " is Ok")):
                        if x.endswith(p_) and y.endswith(q_) and x[:-len(p_)] == y[:-len(q_)]:
                            rows[i] = [sorted(set(a) - {x}), v]
                            del rows[j]
                            changed = True
                            break
                if changed:
                    break
            if changed:
                break
    return sorted(rows)


def closure_arg(an, t, idx):
    a = strip(an.terms.operand(t["args"][idx]))
    if a[0] == "aggr" and a[1].startswith("closure:"):
        return a[1][len("closure:"):]
    return None


def collect(prog):
    out = {"bins": {}}
    for key, main in BINS.items():
        b = prog.body(main)
        an = analysis(prog, b)
        sy = Sym(prog, an, slice_param=99)
        rec = {"rayon_api": sorted(set(short(cname(t)) for p, bd in prog.bodies.items() if bd.crate == main.split("::")[0]
                                       for _, t in bd.calls() if (t.get("callee") or "").startswith("rayon::") or (t.get("resolved") or "").startswith("rayon::")))}
        sinks = [(bb, t) for bb, t in b.calls() if short(cname(t)) in ("ParallelExtend::par_extend", "Extend::extend")
                 and "Vec" in sy.short_ty(b.locals[t["args"][0]["p"]["l"]]["ty"]) if t["args"][0].get("k") in ("copy", "move")]
        rec["sinks"] = []
        for bb, t in sinks:
            pl, src = pipeline(an, an.terms.operand(t["args"][1]))
            rec["sinks"].append({"sink": short(cname(t)), "adapters": pl, "source": src})
            # closures of the adapters, outermost first
            cur = unmut(an.terms.operand(t["args"][1]))
            while cur[0] == "call" and short(cur[1]) in ADAPTERS and cur[2]:
                if len(cur[2]) >= 2:
                    c = strip(cur[2][1])
                    if c[0] == "aggr" and c[1].startswith("closure:"):
                        role = short(cur[1]).split("::")[1]
                        rec.setdefault("closures", {})[role] = [[a, v] for a, v in accept.ret_table(prog, c[1][8:])]
                cur = unmut(cur[2][0])
        scans = [(bb, t) for bb, t in b.calls() if short(cname(t)) == "Iterator::scan"]
        # the same stateful pass written as `let mut st = init; it.map(|x| { ..st.. })`: a map whose closure captures
        # locals by unique borrow.  State = the captured locals (in capture order), initial state = their initial values.
        stateful = []
        if not scans:
            for bb, t in b.calls():
                if short(cname(t)) == "Iterator::map" and len(t["args"]) == 2:
                    c = strip(an.terms.operand(t["args"][1]))
                    if c[0] == "aggr" and c[1].startswith("closure:") and c[2]:
                        caps = []
                        for cap in c[2]:
                            x = cap
                            while x[0] in ("ref", "deref"):
                                x = x[1]
                            caps.append(x if (cap[0] == "ref" and x[0] == "mut") else None)
                        if all(x is not None for x in caps):
                            stateful.append((bb, t, c[1][len("closure:"):], caps))
        rec["scan_count"] = len(scans) + len(stateful)
        for bb, t in scans:
            pl, src = pipeline(an, an.terms.operand(t["args"][0]))
            rec["scan_input"] = {"adapters": pl, "source": src}
            rec["scan_init"] = sy.name(an.terms.operand(t["args"][1]))
            cp = closure_arg(an, t, 2)
            if cp:
                rec["scan_table"] = merge_rows([[a, trim(v)] for a, v in accept.ret_table(prog, cp)])
                rec["scan_effects"] = [[a, [[pl_, plus(v_)] for pl_, v_ in ef]] for a, ef in effects(prog, cp)]
        for bb, t, cp, caps in stateful:
            pl, src = pipeline(an, an.terms.operand(t["args"][0]))
            rec["scan_input"] = {"adapters": pl, "source": src}
            rec["scan_init"] = "tuple{%s}" % ",".join(sy.name(x[2]) for x in caps)
            # vocabulary of the scan form: element = arg3, state cell k = `var<&mut T_k>`, result wrapped in Some
            ren = [("arg1.%d" % k, "var<&mut %s>" % sy.short_ty(b.locals[x[1]]["ty"])) for k, x in enumerate(caps)]

            def rn(s_, ren=ren):
                s_ = re.sub(r"\barg2\b", "arg3", s_)
                for a_, b_ in ren:
                    s_ = re.sub(r"\b%s\b(?!\.)" % re.escape(a_), b_, s_)
                    s_ = s_.replace("(%s as " % a_, "(%s as " % b_)
                return s_
            rec["scan_table"] = merge_rows([[sorted(rn(x) for x in a), "Some{%s}" % trim(rn(v))[:1194]] for a, v in accept.ret_table(prog, cp)])
            rec["scan_effects"] = sorted([sorted(rn(x) for x in a), [[rn(pl_), plus(rn(v_))] for pl_, v_ in ef]] for a, ef in effects(prog, cp))
        # the rows written are the scan's output, unfiltered
        ser = [(bb, t) for bb, t in b.calls() if short(cname(t)) == "Writer::<W>::serialize"]
        rec["serialize_calls"] = len(ser)
        if ser and (scans or stateful):
            rec["serialize_in_loop_over_scan"] = serialize_source(b, an, ser[0], (scans or stateful)[0][0])
        # file loop iterates the sorted list
        sorts = [(bb, t) for bb, t in b.calls() if cname(t) == SORT]
        rec["sort_calls"] = len(sorts)
        nexts = [(bb, t) for bb, t in b.calls() if short(cname(t)) == "Iterator::next"]
        rec["file_loop_over_sorted"] = False
        for bb, t in nexts:
            it = unmut(an.terms.operand(t["args"][0]))
            for x in walk(it):
                if x[0] == "field" and x[2] == 1 and strip(x[1])[0] == "try":
                    inner = unmut(strip(x[1])[1])
                    while inner[0] == "call" and short(inner[1]) in ("Context::with_context", "Context::context") and inner[2]:
                        inner = unmut(inner[2][0])
                    if inner[0] == "call" and inner[1] == SORT and sorts and b.dominates(sorts[0][0], bb):
                        rec["file_loop_over_sorted"] = True
        rec["reads"] = sorted(set(sy.name(an.terms.operand(t["args"][0]))[:60] for bb, t in b.calls() if cname(t) == READ))
        out["bins"][key] = rec
    # sort_run_files
    sb = prog.body(SORT)
    san = analysis(prog, sb)
    ssy = Sym(prog, san, slice_param=99)
    sorts = [(bb, t) for bb, t in sb.calls() if short(cname(t)).startswith("<impl [T]>::sort")]
    wins = [(bb, t) for bb, t in sb.calls() if short(cname(t)) == "<impl [T]>::windows"]
    srec = {"table": [[a, v] for a, v in accept.ret_table(prog, SORT, quantified=True)], "sort_calls": [short(cname(t)) for _, t in sorts]}
    srec["sort_dominates_duplicate_check"] = bool(sorts and wins and all(sb.dominates(sorts[0][0], w[0]) for w in wins))
    srec["run_number_check_before_or_after"] = "n/a"
    key = None
    if sorts:
        ci = closure_info(prog, san, strip(san.terms.operand(sorts[0][1]["args"][1])))
        if ci:
            rets = [subst_upvars(r, ci[1]) for r in closure_ret(prog, ci[0])]
            csy = Sym(prog, analysis(prog, ci[0]), slice_param=99)
            key = [csy.name(r) for r in closure_ret(prog, ci[0])]
    srec["sort_key"] = key
    out["sort_run_files"] = srec
    out["extension"] = [[a, v] for a, v in accept.ret_table(prog, EXT)]
    out["read_uses_extension"] = any(cname(t) == EXT or (t.get("resolved") == EXT) for _, t in prog.body(READ).calls())
    out["sort_uses_extension"] = any(cname(t) == EXT or (t.get("resolved") == EXT) for p, bd in prog.bodies.items() if p.startswith(SORT) for _, t in bd.calls())
    return out


def trim(v):
    # uom unit types make the rendered row values very long; keep the canonical prefix
    return re.sub(r"<impl uom::si::Quantity<\(dyn .*?\+ 'static\), U, V>>", "uom", v)[:1200]


def serialize_source(body, an, ser, scan_bb):
    """the value serialized is the element produced by iterating the scan's result"""
    bb, t = ser
    a = unmut(an.terms.operand(t["args"][1]))
    for x in walk(a):
        if x[0] == "call" and short(x[1]) == "Iterator::next":
            it = unmut(x[2][0])
            for y in walk(it):
                if y[0] == "call" and y[3] == scan_bb:
                    return True
    return False


def run(prog, tier, res):
    spec = accept.load_spec("c19.json")
    res.explanation = ("The row pipelines of alpha-g-vertices and alpha-g-trg-scalers as data: sink, adapter chain and source; the "
                       "filter / map / scan closures as guard-value tables (every path returns a row / Some(row) carrying the "
                       "event's serial number); the state updates of the scan closure (wrapping time arithmetic); the rayon API "
                       "used; sort_run_files (sort key, guards, ordering of sort vs duplicate check) and the extension dispatch.")
    res.trusted = ["rayon: par_extend(Vec) over an indexed parallel iterator chain of filter/map preserves the sequential order",
                   "spec table tables/spec/c19.json transcribed from the property statement"]
    R1 = res.rule("C19.R1", "files are processed in sort_run_files order (the file loop iterates its result; the call dominates the loop)", 2)
    R2 = res.rule("C19.R2", "sort_run_files: key = initial timestamp, run-number and duplicate guards, sort before the adjacent-duplicate check; extensions mid/lz4 only", 4)
    R3 = res.rule("C19.R3", "one row per main event: Main filter, map returns a row on every path, scan returns Some on every path, no dropping adapter, rows serialized from the scan", 8)
    R4 = res.rule("C19.R4", "ordered parallelism: rayon API restricted to the order-preserving allow-list", 1)
    R5 = res.rule("C19.R5", "unwrapped time: previous/cumulative state updates use wrapping_sub with the documented fallbacks", 2)
    R6 = res.rule("C19.R6", "the two binaries' time arithmetic agrees", 1)

    got = collect(prog)
    for main in BINS.values():
        res.functions.add(main)
    res.functions.add(SORT)

    def cmp(rule, fn, key, g, w, what):
        ok = g == w
        res.oblige(ok, "shape")
        if ok:
            res.hit(rule)
        else:
            if isinstance(g, list) and isinstance(w, list) and g and w and isinstance(g[0], list) and len(g[0]) == 2 and isinstance(g[0][0], list):
                k2, text = diff_tables(g, w)
            else:
                k2, text = "value", "got %s, expected %s" % (json.dumps(g)[:500], json.dumps(w)[:500])
            res.violate(rule, fn, "%s:%s" % (key, k2[:160]), "%s differs from the spec: %s" % (what, text), prog.bodies[fn].where() if fn in prog.bodies else "")
    for key, main in BINS.items():
        adt_ = main.rsplit("::", 1)[0] + "::Row"
        if adt_ in spec.get("row_decl", {}):
            check_row_decl(prog, res, R3, adt_, spec["row_decl"][adt_], main, prog.bodies[main].where() if main in prog.bodies else "")
        g, w = got["bins"][key], spec["bins"][key]
        cmp(R1, main, "sorted-loop", [g["sort_calls"], g["file_loop_over_sorted"]], [1, True], "file loop over sort_run_files(..)?.1")
        cmp(R3, main, "sinks", g["sinks"], w["sinks"], "row pipeline (sink, adapters, source)")
        for role in sorted(set(g.get("closures", {})) | set(w.get("closures", {}))):
            cmp(R3, main, "closure:%s" % role, g.get("closures", {}).get(role), w.get("closures", {}).get(role), "`%s` closure of the row pipeline" % role)
        cmp(R3, main, "scan-input", [g.get("scan_count"), g.get("scan_input"), g.get("scan_init")], [w.get("scan_count"), w.get("scan_input"), w.get("scan_init")], "input/initial state of the scan")
        cmp(R3, main, "scan-table", g.get("scan_table"), w.get("scan_table"), "scan closure (row per element)")
        cmp(R3, main, "serialize", [g.get("serialize_calls"), g.get("serialize_in_loop_over_scan")], [1, True], "rows serialized from the scan output")
        cmp(R5, main, "scan-effects", g.get("scan_effects"), w.get("scan_effects"), "state updates of the scan closure (time arithmetic)")
        if key == "vertices":
            allowed = set(spec["rayon_allow"])
            extra = [a for a in g["rayon_api"] if a not in allowed]
            ok = not extra
            res.oblige(ok, "api")
            if ok:
                res.hit(R4)
            else:
                res.violate(R4, main, "rayon:%s" % ",".join(extra), "rayon API outside the order-preserving allow-list: %s" % extra, prog.bodies[main].where())
    # sibling agreement of the time arithmetic (timestamp expression abstracted)
    ev = json.dumps(got["bins"]["vertices"].get("scan_effects")).replace("(arg3.1 as Some).0", "TS")
    es = json.dumps(got["bins"]["scalers"].get("scan_effects")).replace("alpha_g_detector::trigger::TrgPacket::timestamp((arg3.1 as Some).0)", "TS")
    if ev == es:
        res.hit(R6)
    else:
        res.violate(R6, BINS["scalers"], "sibling", "the cumulative-time arithmetic of the two binaries differs: %s vs %s" % (ev[:300], es[:300]), "")
    g, w = got["sort_run_files"], spec["sort_run_files"]
    cmp(R2, SORT, "table", g["table"], w["table"], "guards/values of sort_run_files")
    cmp(R2, SORT, "order", [g["sort_calls"], g["sort_dominates_duplicate_check"], g["sort_key"]], [w["sort_calls"], True, w["sort_key"]], "sort call, its key and its position before the duplicate check")
    cmp(R2, EXT, "extension", got["extension"], spec["extension"], "extension dispatch")
    cmp(R2, READ, "extension-use", [got["read_uses_extension"], got["sort_uses_extension"]], [True, True], "read() and sort_run_files() share Extension::try_from")
    res.sample({"vertices_pipeline": got["bins"]["vertices"]["sinks"]})
    res.sample({"vertices_scan_effects": got["bins"]["vertices"].get("scan_effects")})
    res.undecided = ["byte-identical output for every thread count (rayon's ordering contract, trusted)", ".mid.lz4 decoding, CSV formatting, file-system effects"]
