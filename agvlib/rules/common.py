"""Helpers shared by the decoder packs."""
from ..guards import analysis, accessor_field
from ..sym import Sym
from ..terms import strip, cname
from .. import accept


def strip_v_payload(t):
    """the wrapper passes its own single-variant payload: (self as V).0"""
    t = strip(t)
    return t[0] == "field" and t[2] == 0 and t[1][0] == "downcast" and strip(t[1][1]) == ("param", 1)


def check_accessors(prog, res, rule, v_ty, wrap_ty, names, accessor_of=None, consts=None):
    """every field has an accessor on v_ty returning it unchanged, and wrap_ty::<same name> forwards to it.
    accessor_of: field -> accessor method name (default: same name). consts: accessor name -> constant."""
    accessor_of = accessor_of or {}
    for i, name in enumerate(names):
        an_ = accessor_of.get(name, name)
        if an_ is None:
            continue
        acc = "%s::%s" % (v_ty, an_)
        if acc in prog.bodies:
            res.functions.add(acc)
            ok = accessor_field(prog, acc) == i
            res.oblige(ok, "accessor")
            if ok:
                res.hit(rule)
            else:
                res.violate(rule, acc, "accessor", "accessor `%s` does not return the field `%s` unchanged" % (acc, name), prog.bodies[acc].where())
        else:
            res.violate(rule, acc, "accessor-missing", "no accessor `%s` for field `%s`" % (an_, name), "")
            continue
        if wrap_ty:
            check_wrapper(prog, res, rule, wrap_ty, an_, acc)
    for cn, cv in (consts or {}).items():
        acc = "%s::%s" % (v_ty, cn)
        b = prog.bodies.get(acc)
        if b is None:
            res.violate(rule, acc, "accessor-missing", "no accessor `%s`" % cn, "")
            continue
        an = analysis(prog, b)
        rets = [strip(t) for _, t in an.ret_assignments()]
        ok = len(rets) == 1 and rets[0][0] == "const" and rets[0][1] == cv
        res.oblige(ok, "accessor")
        if ok:
            res.hit(rule)
        else:
            res.violate(rule, acc, "accessor-const", "`%s` does not return the constant %s" % (acc, cv), b.where())
        if wrap_ty:
            check_wrapper(prog, res, rule, wrap_ty, cn, acc)


def check_wrapper(prog, res, rule, wrap_ty, name, acc):
    w = "%s::%s" % (wrap_ty, name)
    wb = prog.bodies.get(w)
    if wb is None:
        res.violate(rule, w, "wrapper-missing", "no wrapper `%s`" % w, "")
        return
    res.functions.add(w)
    wan = analysis(prog, wb)
    rets = [strip(t) for _, t in wan.ret_assignments()]
    rets = [strip(r[2][0]) if (r[0] == "aggr" and r[1].endswith("Option::Some") and len(r[2]) == 1) else r for r in rets]
    ok = len(rets) == 1 and rets[0][0] == "call" and rets[0][1] == acc and strip_v_payload(rets[0][2][0])
    res.oblige(ok, "wrapper")
    if ok:
        res.hit(rule)
    else:
        res.violate(rule, w, "wrapper", "wrapper `%s` does not forward to `%s`" % (w, acc), wb.where())


_ICR = {}


def int_conversion_ranges(prog, fn_path, lo=0, hi=255):
    """Set of argument values for which a small integer->id conversion returns Ok: the guard formula of its
    accept paths (polynomial atoms over the argument, 0/1 comparison flags, nested conversions) is evaluated
    for every value of the finite argument domain.  Also whether the Ok payload stores the argument."""
    key = (id(prog), fn_path, lo, hi)
    if key in _ICR:
        return _ICR[key]
    _ICR[key] = (set(), [], [("recursive",)])
    tabs, an, sy = accept.accept_tables(prog, fn_path)
    from ..sym import forward_paths, path_atoms
    allowed = set()
    unknown = []

    def sym_value(name, v):
        if name == "arg1":
            return v
        if name in sy.b2i:
            op, pa, pb = sy.b2i[name]
            a, b = poly_value(pa, v), poly_value(pb, v)
            if a is None or b is None:
                return None
            return int({"Lt": a < b, "Le": a <= b, "Gt": a > b, "Ge": a >= b, "Eq": a == b, "Ne": a != b}[op])
        return None

    def poly_value(p, v):
        env = {}
        for s_ in p.syms():
            x = sym_value(s_, v)
            if x is None:
                return None
            env[s_] = x
        return p.subs(env)
    paths = []
    for bb, t in an.ok_sites():
        for path in forward_paths(an, bb) or []:
            sy.set_path(path[1])
            ats = []
            for (s_, t_) in path[0]:
                ats += sy.atoms_of_edge(s_, t_)
            paths.append(ats)
            sy.set_path(None)
    # Every guard compares `arg1 (+ bounded 0/1 flags) + constant` with 0 (coefficient of arg1 in {0, +-1}):
    # beyond the largest constant involved (plus slack) all truth values are constant, so one representative
    # decides the whole tail.  Otherwise the full domain is enumerated.
    import re as _re
    consts = [0]
    simple = True
    for ats in paths:
        for a in ats:
            if a[0] == "rel":
                for m_, c_ in a[2].m.items():
                    if m_ == ():
                        consts.append(abs(int(c_)))
                    elif m_ == ("arg1",):
                        simple = simple and c_ in (1, -1)
                    elif len(m_) == 1 and m_[0] in sy.b2i:
                        consts.append(abs(int(c_)))
                        consts += [abs(int(x)) for x in _re.findall(r"\d+", m_[0])]
                    else:
                        simple = False
            elif a[0] == "ok" and len(a) > 2:
                consts += [abs(int(x)) for x in _re.findall(r"\d+", a[1])[-8:]]
    K = max(consts) * 2 + 64
    tail_rep = None
    if simple and hi - lo > 2 * K + 2 and lo >= 0:
        values = list(range(lo, lo + K + 1))
        tail_rep = hi
    elif hi - lo > 200000:
        _ICR[key] = (set(), [], [("domain too large for a guard formula that is not of the simple form",)])
        return _ICR[key]
    else:
        values = list(range(lo, hi + 1))
    for v in values + ([tail_rep] if tail_rep is not None else []):
        for ats in paths:
            ok = True
            for a in ats:
                if a[0] == "rel":
                    val = poly_value(a[2], v)
                    if val is None:
                        unknown.append(a[:2])
                        ok = False
                        break
                    op = a[3]
                    if not ((op == ">=" and val >= 0) or (op == "==" and val == 0) or (op == "!=" and val != 0)):
                        ok = False
                        break
                elif a[0] == "ok" and len(a) > 2 and a[2][0] == "call" and len(a[2][2]) == 1:
                    callee = sy.call_sig(a[2])
                    pv = None
                    ap = sy.poly(a[2][2][0])
                    if ap is not None:
                        pv = poly_value(ap, v)
                    if callee in prog.bodies and pv is not None:
                        cb = prog.bodies[callee]
                        cty = cb.locals[1]["ty"] if cb.argc >= 1 else {}
                        if cty.get("k") == "int" and cty["w"] <= 16:
                            clo, chi = (0, (1 << cty["w"]) - 1) if not cty["s"] else (-(1 << (cty["w"] - 1)), (1 << (cty["w"] - 1)) - 1)
                            sub_allowed, _, sub_unknown = int_conversion_ranges(prog, callee, clo, chi)
                            if sub_unknown:
                                unknown.append(("nested", callee))
                                ok = False
                                break
                            # a value outside the callee's parameter type would have failed an earlier checked operation
                            if int(pv) not in sub_allowed:
                                ok = False
                                break
                            continue
                    unknown.append(a[:2])
                    ok = False
                    break
                elif a[0] == "false":
                    ok = False
                    break
                else:
                    unknown.append(a[:2])
                    ok = False
                    break
            if ok:
                allowed.add(v)
                break
    if tail_rep is not None and tail_rep in allowed:
        allowed.update(range(lo + K + 1, hi + 1))
    stored = []
    for bb, t in an.ok_sites():
        x = strip(t[2][0])
        if x[0] == "aggr" and len(x[2]) == 1:
            p = sy.poly(x[2][0])
            stored.append(str(p) if p is not None else None)
        else:
            stored.append(None)
    # de-duplicate the unknown list
    seen = []
    for u in unknown:
        if u not in seen:
            seen.append(u)
    _ICR[key] = (allowed, stored, seen)
    return _ICR[key]


def ranges_of(values):
    vs = sorted(values)
    out = []
    for v in vs:
        if out and out[-1][1] + 1 == v:
            out[-1][1] = v
        else:
            out.append([v, v])
    return out


def check_lookup(prog, res, rule, fn, table, key_idx, n_fields):
    """`fn(x)` is a total table lookup: it returns Ok(row) for the row of const `table` whose
    column `key_idx` equals the whole argument, Err otherwise (no partial comparison, no default)."""
    tabs, an, sy = accept.accept_tables(prog, fn)
    body = an.body
    res.functions.add(fn)
    elem = "(Iterator::next(mut(%s)) as Some).0" % table
    want = frozenset(["%s.%d - arg1 == 0" % (elem, key_idx), "Iterator::next(mut(%s)) is Some" % table])
    if not tabs and lookup_by_find(prog, an, sy, table, key_idx, n_fields):
        # `TABLE.iter().find(|row| row.K == arg).map(|&(a, b)| Row { a, b }).ok_or(err)`: the same total lookup
        res.oblige(True, "table-lookup")
        res.hit(rule)
        return True
    if len(tabs) != 1 or [p for p in tabs[0].paths] != [want]:
        got = [sorted(p) for tb in tabs for p in tb.paths]
        res.oblige(False)
        res.violate(rule, fn, "lookup-guard", "`%s` is not `return the row of %s whose column %d equals the argument`: accept paths %s" % (fn, table, key_idx, got), body.where())
        return False
    oks = an.ok_sites()
    st = strip(oks[0][1][2][0])
    names = [sy.name(o) for o in st[2]] if st[0] == "aggr" else []
    if names != ["%s.%d" % (elem, i) for i in range(n_fields)]:
        res.oblige(False)
        res.violate(rule, fn, "lookup-value", "`%s` does not return the matching row's fields in order: %s" % (fn, names), body.where(oks[0][0]))
        return False
    res.oblige(True, "table-lookup")
    res.hit(rule)
    return True


def lookup_by_find(prog, an, sy, table, key_idx, n_fields):
    """the function's value is `ok_or(map(find(iter(TABLE), |x| x.K == arg1), |x| Row{x.0, .., x.n-1}), Err)` (either
    operand order of the comparison; `copied()`/`cloned()` transparent)"""
    rets = [sy.name(t) for _, t in an.ret_assignments()]
    if len(rets) != 1:
        return False
    r = rets[0]
    it = "mut(<impl [T]>::iter(%s))" % table
    alt_it = "<impl [T]>::iter(%s)" % table
    import re as _re
    m = _re.match(r"^Option::<T>::ok_or\(Option::<T>::map\(Iterator::find\((.*?),\|x\| (.*?)\),\|x\| adt:[\w:]+\{(.*?)\}\),.*\)$", r)
    if not m:
        return False
    src, pred, fields = m.group(1), m.group(2), m.group(3)
    # the table may be named through a slice coercion
    src_ok = table in src and ("<impl [T]>::iter(" in src) and "filter" not in src and "skip" not in src and "take" not in src
    pred_ok = pred in ("x.%d Eq arg1" % key_idx, "arg1 Eq x.%d" % key_idx)
    want_fields = ", ".join("*carg0.%d" % i for i in range(n_fields))
    alt_fields = ", ".join("carg0.%d" % i for i in range(n_fields))
    return src_ok and pred_ok and fields.replace("&", "") in (want_fields, alt_fields)


_ICO = {}


def conversion_outputs(prog, fn_path, lo, hi):
    """{input value: canonical output} of a small integer -> id conversion over its accepted inputs: the Ok payload is
    evaluated for every value of the finite domain (variant names, nested workspace conversions, polynomial payloads
    with 0/1 comparison flags).  Returns (outputs, unknown) — `unknown` non-empty when some payload cannot be evaluated."""
    key = (id(prog), fn_path, lo, hi)
    if key in _ICO:
        return _ICO[key]
    _ICO[key] = ({}, [("recursive",)])
    allowed, _, unk = int_conversion_ranges(prog, fn_path, lo, hi)
    if unk:
        _ICO[key] = ({}, unk)
        return _ICO[key]
    tabs, an, sy = accept.accept_tables(prog, fn_path)
    from ..sym import forward_paths
    unknown = []

    def sym_value(name, v):
        if name == "arg1":
            return v
        if name in sy.b2i:
            op, pa, pb = sy.b2i[name]
            a, b = poly_value(pa, v), poly_value(pb, v)
            if a is None or b is None:
                return None
            return int({"Lt": a < b, "Le": a <= b, "Gt": a > b, "Ge": a >= b, "Eq": a == b, "Ne": a != b}[op])
        return None

    def poly_value(p, v):
        env = {}
        for s_ in p.syms():
            x = sym_value(s_, v)
            if x is None:
                return None
            env[s_] = x
        return p.subs(env)

    def holds(ats, v):
        for a in ats:
            if a[0] == "rel":
                val = poly_value(a[2], v)
                if val is None:
                    return None
                op = a[3]
                if not ((op == ">=" and val >= 0) or (op == "==" and val == 0) or (op == "!=" and val != 0)):
                    return False
            elif a[0] == "ok" and len(a) > 2:
                continue     # acceptance of nested conversions is part of `allowed`
            elif a[0] == "false":
                return False
            else:
                return None
        return True

    def ev(t, v, depth=0):
        t = strip(t)
        if depth > 6:
            return None
        if t[0] == "aggr" and t[1].startswith("adt:"):
            args = [ev(x, v, depth + 1) for x in t[2]]
            if any(x is None for x in args):
                return None
            return (t[1].split("::")[-1],) + tuple(args)
        if t[0] == "try":
            return ev(t[1], v, depth + 1)
        if t[0] == "call" and len(t[2]) == 1:
            callee = sy.call_sig(t)
            if callee in prog.bodies:
                ap = sy.poly(t[2][0])
                pv = poly_value(ap, v) if ap is not None else None
                if pv is None:
                    return None
                cb = prog.bodies[callee]
                cty = cb.locals[1]["ty"] if cb.argc >= 1 else {}
                if cty.get("k") == "int" and cty["w"] <= 16:
                    clo, chi = (0, (1 << cty["w"]) - 1) if not cty["s"] else (-(1 << (cty["w"] - 1)), (1 << (cty["w"] - 1)) - 1)
                    sub, sunk = conversion_outputs(prog, callee, clo, chi)
                    if sunk or int(pv) not in sub:
                        return None
                    return ("conv", callee.split(" as ")[0].lstrip("<").split("::")[-1], sub[int(pv)])
                return None
        p = sy.poly(t)
        if p is not None:
            pv = poly_value(p, v)
            return None if pv is None else int(pv)
        return None
    out = {}
    sites = []
    for bb, t in an.ok_sites():
        for path in forward_paths(an, bb) or []:
            sy.set_path(path[1])
            ats = []
            for (s_, t_) in path[0]:
                ats += sy.atoms_of_edge(s_, t_)
            sy.set_path(None)
            sites.append((ats, t[2][0] if t[2] else None))
    for v in sorted(allowed):
        got = None
        for ats, payload in sites:
            h = holds(ats, v)
            if h:
                got = ev(payload, v) if payload is not None else None
                if got is None:
                    unknown.append(("payload", v))
                break
        if got is not None:
            out[v] = got
    _ICO[key] = (out, unknown[:5])
    return _ICO[key]


def check_try_from_wrapper(prog, res, rule, wrapper, inner, variant, arg):
    """the versioned enum's `TryFrom` is `Ok(Variant(Inner::try_from(<the whole argument>)?))` and nothing else: it neither
    accepts more (a prefix of the slice) nor less than the inner decoder, and hands back its error"""
    from .. import accept
    if wrapper not in prog.bodies:
        from ..facts import AnchorMissing
        raise AnchorMissing("wrapper not found: %s" % wrapper)
    res.functions.add(wrapper)
    tab = sorted([sorted(a), v] for a, v in accept.ret_table(prog, wrapper))
    call = "%s(%s)" % (inner, arg)
    want = sorted([[["%s is Err" % call], "Err{(%s as Err).0}" % call], [["%s is Ok" % call], "Ok{%s{%s?}}" % (variant, call)]])
    if tab == want:
        res.hit(rule)
    else:
        res.violate(rule, wrapper, "try-from-wrapper", "the wrapper's TryFrom is not `Ok(%s(%s::try_from(<whole argument>)?))`: %s" % (
            variant, inner.split(" as ")[0].split("::")[-1], str(tab)[:400]), prog.bodies[wrapper].where())


def commut_sort(name, heads=("Mul::mul", "Add::add", "Mul", "Add")):
    """a canonical name with the operands of commutative binary operators (IEEE `*` and `+`, also through the operator
    traits of unit-carrying types) in sorted order: `Mul::mul(b,a)` -> `Mul::mul(a,b)`, recursively"""
    def split_args(s):
        out, depth, cur = [], 0, ""
        for ch in s:
            if ch in "([{<" :
                depth += 1
            elif ch in ")]}>":
                depth -= 1
            if ch == "," and depth == 0:
                out.append(cur)
                cur = ""
            else:
                cur += ch
        out.append(cur)
        return out

    def rec(s):
        i, out = 0, ""
        while i < len(s):
            hit = None
            for h in heads:
                if s.startswith(h + "(", i) and (i == 0 or not (s[i - 1].isalnum() or s[i - 1] in "_:")):
                    hit = h
                    break
            if hit is None:
                out += s[i]
                i += 1
                continue
            j = i + len(hit) + 1
            depth, k = 1, j
            while k < len(s) and depth:
                if s[k] == "(":
                    depth += 1
                elif s[k] == ")":
                    depth -= 1
                k += 1
            inner = s[j:k - 1]
            args = [rec(a) for a in split_args(inner)]
            if len(args) == 2:
                args = sorted(args)
            out += hit + "(" + ",".join(args) + ")"
            i = k
        return out
    return rec(name)


def check_row_decl(prog, res, rule, adt_path, want, fn, where):
    """the struct that is serialised as one CSV row declares exactly the documented columns: names, order and types
    (a narrower numeric type rounds the value that is written)"""
    from .. import pp
    a = prog.adts.get(adt_path)
    if a is None:
        res.violate(rule, fn, "row-decl:missing", "row struct %s not found" % adt_path, where, kind="anchor-missing")
        return
    got = [[f["name"], pp.ty(f["ty"])] for f in a["variants"][0]["fields"]]
    if got == want:
        res.hit(rule)
    else:
        res.violate(rule, fn, "row-decl", "the CSV row struct %s declares %s; the documented columns are %s" % (adt_path.split("::")[-2] + "::Row", got, want), where)
