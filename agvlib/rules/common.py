"""Helpers shared by the decoder packs."""
from ..guards import analysis, accessor_field
from ..sym import Sym
from ..terms import strip, cname
from .. import accept


def strip_v_payload(t):
    """the wrapper passes its own single-variant payload: (self as V).0"""
    t = strip(t)
    return t[0] == "field" and t[2] == 0 and t[1][0] == "downcast" and strip(t[1][1]) == ("param", 1)


def check_accessors(prog, res, rule, v_ty, wrap_ty, names, accessor_of=None, consts=None):
    """every field has an accessor on v_ty returning it unchanged, and wrap_ty::<same name> forwards to it.
    accessor_of: field -> accessor method name (default: same name). consts: accessor name -> constant."""
    accessor_of = accessor_of or {}
    for i, name in enumerate(names):
        an_ = accessor_of.get(name, name)
        if an_ is None:
            continue
        acc = "%s::%s" % (v_ty, an_)
        if acc in prog.bodies:
            res.functions.add(acc)
            ok = accessor_field(prog, acc) == i
            res.oblige(ok, "accessor")
            if ok:
                res.hit(rule)
            else:
                res.violate(rule, acc, "accessor", "accessor `%s` does not return the field `%s` unchanged" % (acc, name), prog.bodies[acc].where())
        else:
            res.violate(rule, acc, "accessor-missing", "no accessor `%s` for field `%s`" % (an_, name), "")
            continue
        if wrap_ty:
            check_wrapper(prog, res, rule, wrap_ty, an_, acc)
    for cn, cv in (consts or {}).items():
        acc = "%s::%s" % (v_ty, cn)
        b = prog.bodies.get(acc)
        if b is None:
            res.violate(rule, acc, "accessor-missing", "no accessor `%s`" % cn, "")
            continue
        an = analysis(prog, b)
        rets = [strip(t) for _, t in an.ret_assignments()]
        ok = len(rets) == 1 and rets[0][0] == "const" and rets[0][1] == cv
        res.oblige(ok, "accessor")
        if ok:
            res.hit(rule)
        else:
            res.violate(rule, acc, "accessor-const", "`%s` does not return the constant %s" % (acc, cv), b.where())
        if wrap_ty:
            check_wrapper(prog, res, rule, wrap_ty, cn, acc)


def check_wrapper(prog, res, rule, wrap_ty, name, acc):
    w = "%s::%s" % (wrap_ty, name)
    wb = prog.bodies.get(w)
    if wb is None:
        res.violate(rule, w, "wrapper-missing", "no wrapper `%s`" % w, "")
        return
    res.functions.add(w)
    wan = analysis(prog, wb)
    rets = [strip(t) for _, t in wan.ret_assignments()]
    rets = [strip(r[2][0]) if (r[0] == "aggr" and r[1].endswith("Option::Some") and len(r[2]) == 1) else r for r in rets]
    ok = len(rets) == 1 and rets[0][0] == "call" and rets[0][1] == acc and strip_v_payload(rets[0][2][0])
    res.oblige(ok, "wrapper")
    if ok:
        res.hit(rule)
    else:
        res.violate(rule, w, "wrapper", "wrapper `%s` does not forward to `%s`" % (w, acc), wb.where())


def int_conversion_ranges(prog, fn_path, lo=0, hi=255):
    """Set of argument values for which a small integer->id conversion returns Ok, by evaluating the
    polynomial atoms of its accept paths for every value of the (finite) domain; also whether the Ok
    payload stores the argument (minus a constant) injectively. Static: nothing is executed."""
    tabs, an, sy = accept.accept_tables(prog, fn_path)
    from ..sym import forward_paths, path_atoms
    allowed = set()
    unknown = []
    for bb, t in an.ok_sites():
        for path in forward_paths(an, bb) or []:
            ats = accept.simplify(path_atoms(sy, path))
            if ats is None:
                continue
            for v in range(lo, hi + 1):
                ok = True
                for a in ats:
                    if a[0] != "rel":
                        unknown.append(a)
                        ok = False
                        break
                    p, op = a[2], a[3]
                    if p.syms() not in ([], ["arg1"]):
                        unknown.append(a)
                        ok = False
                        break
                    val = p.subs({"arg1": v})
                    if not ((op == ">=" and val >= 0) or (op == "==" and val == 0) or (op == "!=" and val != 0)):
                        ok = False
                        break
                if ok:
                    allowed.add(v)
    stored = []
    for bb, t in an.ok_sites():
        x = strip(t[2][0])
        if x[0] == "aggr" and len(x[2]) == 1:
            p = sy.poly(x[2][0])
            stored.append(str(p) if p is not None else None)
        else:
            stored.append(None)
    return allowed, stored, unknown


def ranges_of(values):
    vs = sorted(values)
    out = []
    for v in vs:
        if out and out[-1][1] + 1 == v:
            out[-1][1] = v
        else:
            out.append([v, v])
    return out


def check_lookup(prog, res, rule, fn, table, key_idx, n_fields):
    """`fn(x)` is a total table lookup: it returns Ok(row) for the row of const `table` whose
    column `key_idx` equals the whole argument, Err otherwise (no partial comparison, no default)."""
    tabs, an, sy = accept.accept_tables(prog, fn)
    body = an.body
    res.functions.add(fn)
    elem = "(Iterator::next(mut(%s)) as Some).0" % table
    want = frozenset(["%s.%d - arg1 == 0" % (elem, key_idx), "Iterator::next(mut(%s)) is Some" % table])
    if len(tabs) != 1 or [p for p in tabs[0].paths] != [want]:
        got = [sorted(p) for tb in tabs for p in tb.paths]
        res.oblige(False)
        res.violate(rule, fn, "lookup-guard", "`%s` is not `return the row of %s whose column %d equals the argument`: accept paths %s" % (fn, table, key_idx, got), body.where())
        return False
    oks = an.ok_sites()
    st = strip(oks[0][1][2][0])
    names = [sy.name(o) for o in st[2]] if st[0] == "aggr" else []
    if names != ["%s.%d" % (elem, i) for i in range(n_fields)]:
        res.oblige(False)
        res.violate(rule, fn, "lookup-value", "`%s` does not return the matching row's fields in order: %s" % (fn, names), body.where(oks[0][0]))
        return False
    res.oblige(True, "table-lookup")
    res.hit(rule)
    return True
