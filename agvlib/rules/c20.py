"""C20 — Chronobox timestamps CSV: validate before write, time formula, stream assembly, element conservation."""
import json

from .. import accept, pp
from ..facts import AnchorMissing
from ..guards import analysis, closure_info, truth_of
from ..sym import Sym, atom_str
from ..terms import strip, short, cname, unmut, walk, same
from .common import check_row_decl
from .tables import check_fn_tables, diff_tables

LEVEL = "other"
MAIN = "alpha_g_chronobox_timestamps::main"
TIME = "alpha_g_chronobox_timestamps::chronobox_time"
FIFO = "alpha_g_detector::chronobox::chronobox_fifo"
CBN = "<alpha_g_detector::midas::ChronoboxBankName as std::convert::TryFrom<&str>>::try_from"
SORT = "alpha_g_analysis::sort_run_files"


def unctx(t):
    """look through anyhow Context wrappers and `?`"""
    t = unmut(t)
    while True:
        if t[0] == "try":
            t = unmut(t[1])
            continue
        if t[0] == "call" and short(t[1]) in ("Context::context", "Context::with_context") and t[2]:
            t = unmut(t[2][0])
            continue
        return t


def run(prog, tier, res):
    spec = accept.load_spec("c20.json")
    alias = [tuple(a) for a in spec["alias"]]
    res.explanation = ("Dominance: the CSV file is created only after every board's stream parsed and validated (complete "
                       "consumption, epoch-0 marker, first marker's top bit); guard/value tables of chronobox_time and of the "
                       "per-board validation closure; the bank loop appends CBFn data to an ordered per-board map; the row "
                       "loop's split_last arms conserve every timestamp; row fields come from the entry itself.")
    res.trusted = ["spec table tables/spec/c20.json transcribed from the property statement", "BTreeMap iterates in key order; chronobox_fifo's behaviour is C07"]
    R1 = res.rule("C20.R1", "validate before write: File::create dominated by the `?` of collecting every board's validated stream; per-board validation = consumed everything, epoch-0 marker found, its top bit clear", 4)
    R2 = res.rule("C20.R2", "chronobox_time: Some iff consecutive counters, alternating top bits and the timestamp on the right side; value = (ts + ((counter+1)/2) << 24) / 10 MHz", 1)
    R3 = res.rule("C20.R3", "stream assembly: Chronobox events only, CBFn banks only (and no other condition on the bank), data appended in iteration order to the one ordered map keyed by board name that is validated and written, files in sort_run_files order", 6)
    R4 = res.rule("C20.R4", "element conservation: a piece ending in a marker loses exactly the marker; a piece without marker is kept whole", 2)
    R5 = res.rule("C20.R5", "row fields: board, channel, edge and time come from the timestamp entry and its enclosing markers; previous marker := next marker", 2)

    b = prog.body(MAIN)
    an = analysis(prog, b)
    sy = Sym(prog, an, slice_param=99)
    res.functions.add(MAIN)

    # ------------------------------------------------------------------ per-board closure
    board_closure = None
    for p, body in prog.bodies.items():
        if p.startswith(MAIN + "::{closure") and p.count("{closure") == 1 and any(cname(t) == FIFO for _, t in body.calls()):
            board_closure = p
    if board_closure is None:
        raise AnchorMissing("cannot find the per-board closure calling chronobox_fifo in %s" % MAIN)
    res.functions.add(board_closure)
    tab = [[a, v] for a, v in accept.ret_table(prog, board_closure, alias=alias)]
    tab = [[a, trim_fmt(v)] for a, v in tab]
    cmp(res, R1, board_closure, "validation", tab, spec["board_closure"], "per-board validation closure")
    cb = prog.body(board_closure)
    can = analysis(prog, cb)
    fifo_calls = [bb for bb, t in cb.calls() if cname(t) == FIFO]
    empties = [bb for bb, t in cb.calls() if short(cname(t)) == "<impl [T]>::is_empty"]
    ok = len(fifo_calls) == 1 and len(empties) == 1 and cb.dominates(fifo_calls[0], empties[0]) and fifo_calls[0] != empties[0]
    check(res, R1, ok, board_closure, "is-empty-after-parse", "`input.is_empty()` is not evaluated after the single chronobox_fifo(&mut input) call", cb.where())
    # position closure (epoch 0 marker)
    pos = []
    for bb_, t_ in cb.calls():
        if short(cname(t_)) == "Iterator::position" and len(t_["args"]) == 2:
            c_ = strip(can.terms.operand(t_["args"][1]))
            if c_[0] == "aggr" and c_[1].startswith("closure:"):
                pos.append(c_[1][len("closure:"):])
    ptabs = sorted(json.dumps([[a, v] for a, v in accept.ret_table(prog, p)]) for p in pos)
    cmp(res, R1, board_closure, "epoch0-predicate", [json.loads(x) for x in ptabs], spec["epoch0_predicates"], "epoch-0 marker predicate")

    # ------------------------------------------------------------------ File::create dominated by the collect?
    creates = [(bb, t) for bb, t in b.calls() if short(cname(t)) == "File::create"]
    ok = False
    if len(creates) == 1:
        for (d, rel, vals) in an.atoms_at(creates[0][0]):
            ds = strip(d)
            if ds[0] == "discr" and strip(ds[1])[0] == "call" and short(strip(ds[1])[1]) == "Try::branch":
                cont = (rel == "in" and sorted(vals) == [0]) or (rel == "notin" and sorted(vals) == [1])
                x = unctx(strip(ds[1])[2][0])
                if cont and x[0] == "call" and short(x[1]) == "Iterator::collect":
                    m = unmut(x[2][0])
                    if m[0] == "call" and short(m[1]) == "Iterator::map":
                        c = strip(m[2][1])
                        if c[0] == "aggr" and c[1] == "closure:" + board_closure:
                            ok = True
    check(res, R1, ok, MAIN, "create-after-validate", "File::create is not dominated by the success of collecting every board's validated stream (a CSV could be left behind for a bad stream)", b.where(creates[0][0]) if creates else b.where())
    # nothing is written before: serialize / write_all dominated by create
    writes = [(bb, t) for bb, t in b.calls() if short(cname(t)) in ("Writer::<W>::serialize", "Write::write_all", "Writer::<W>::flush")]
    ok = bool(creates) and all(b.dominates(creates[0][0], bb) for bb, _ in writes) and bool(writes)
    check(res, R1, ok, MAIN, "writes-after-create", "a write happens outside the region dominated by the validated File::create", b.where())

    # ------------------------------------------------------------------ R2
    check_fn_tables(prog, res, R2, {TIME: spec["chronobox_time"]})

    # ------------------------------------------------------------------ R3
    # event filter closure
    filt = [(bb, t) for bb, t in b.calls() if short(cname(t)) == "Iterator::filter"]
    ftabs = []
    for bb, t in filt:
        c = strip(an.terms.operand(t["args"][1]))
        if c[0] == "aggr" and c[1].startswith("closure:"):
            ftabs.append([[a, v] for a, v in accept.ret_table(prog, c[1][8:])])
    entries = [(bb, t) for bb, t in b.calls() if short(cname(t)).endswith("::entry")]
    # the accepting rows of the filter (the rejecting rows are their complement: the closure is a total bool function).
    # Written as `if !matches!(..) { continue; }` in the loop, the same condition is the set of guards on the event that
    # dominate the append site.
    acc_rows = [sorted([a, v] for a, v in tb if v == "1") for tb in ftabs]
    if not filt and len(entries) == 1:
        ats = []
        for (d, rel, vals) in an.atoms_at(entries[0][0]):
            ats += sy.atoms(d, rel, vals)
        simp = accept.simplify(ats, sy.sym_box)
        row = sorted(event_atom(atom_str(a)) for a in (simp or []) if "EventId as std::convert::TryFrom<u16>>::try_from(" in atom_str(a))
        acc_rows = [[[row, "1"]]] if row else []
    cmp(res, R3, MAIN, "event-filter", acc_rows, [sorted([a, v] for a, v in tb if v == "1") for tb in spec["event_filter"]], "event filter")
    # in-order append of a whole slice: extend(data[.iter()[.copied()]]) or extend_from_slice(data)
    extends = [(bb, t) for bb, t in b.calls() if short(cname(t)) in ("Extend::extend", "Vec::<T, A>::extend_from_slice")]
    # every CBFn bank of a Chronobox event is appended: the only condition on the bank that dominates the append is that
    # its name parses as a Chronobox bank name (no size / content test that would drop bytes of the stream)
    if len(extends) == 1:
        ats = []
        for (d, rel, vals) in an.atoms_at(extends[0][0]):
            ats += sy.atoms(d, rel, vals)
        simp = accept.simplify(ats, sy.sym_box)
        bank_guards = sorted(set(inside_atom(atom_str(a), ("BankView::<'a>::name(", "BankView::<'a>::data_slice("), "BANK") for a in (simp or []) if "BankView::<'a>::" in atom_str(a)))
        cmp(res, R3, MAIN, "bank-guards", bank_guards, spec["bank_guards"], "conditions on the bank under which its data is appended")
    ok = False
    why = "no `map.entry(board).or_default().extend(data)` found"
    if len(entries) == 1 and len(extends) == 1:
        ebb, et = entries[0]
        xbb, xt = extends[0]
        mapty = pp.ty(b.locals[first_local(et["args"][0])]["ty"]) if first_local(et["args"][0]) is not None else ""
        key = unmut(an.terms.operand(et["args"][1]))
        recv = unmut(an.terms.operand(xt["args"][0]))
        data = unmut(an.terms.operand(xt["args"][1]))
        # key = to_string(name(board_id of try_from(name(bank))))
        bank = None
        k = key
        if k[0] == "call" and short(k[1]) == "ToString::to_string":
            k = unmut(k[2][0])
        if k[0] == "call" and k[1].endswith("chronobox::BoardId::name"):
            src = unmut(k[2][0])
            fields = 0
            while src[0] in ("field", "downcast", "try"):
                fields += 1 if src[0] == "field" else 0
                src = unmut(src[1])
            # (try_from(name) as Ok).0 . board_id
            if src[0] == "call" and src[1] == CBN and fields >= 1:
                nm = unmut(src[2][0])
                if nm[0] == "call" and short(nm[1]).endswith("::name"):
                    bank = unmut(nm[2][0])
        while data[0] == "call" and short(data[1]) in ("<impl [T]>::iter", "Iterator::copied", "Iterator::cloned", "IntoIterator::into_iter") and data[2]:
            data = unmut(data[2][0])
        data_ok = data[0] == "call" and short(data[1]).endswith("::data_slice") and bank is not None and same(unmut(data[2][0]), bank)
        recv_ok = recv[0] == "call" and short(recv[1]).endswith("::or_default") and unmut(recv[2][0])[0] == "call" and unmut(recv[2][0])[3] == ebb
        atoms = [atom_str(a) for (d, rel, vals) in an.atoms_at(xbb) for a in sy.atoms(d, rel, vals)]
        guard_ok = any(a.startswith(CBN + "(") and a.endswith(" is Ok") for a in atoms)
        ok = "BTreeMap" in mapty and bank is not None and data_ok and recv_ok and guard_ok
        why = "map type %s, key from bank name: %s, data of the same bank appended in order: %s, receiver: %s, guarded by a valid CBFn name: %s" % (
            mapty[:40], bank is not None, data_ok, recv_ok, guard_ok)
    check(res, R3, ok, MAIN, "assembly", "bank data is not appended as `ordered_map.entry(board name of the CBFn bank).or_default().extend(bank data)` under a valid bank name (%s)" % why, b.where())
    # the map the bank data is appended to IS the map whose entries are validated and written: same local, and the only
    # calls that take it mutably are `entry(..)` (a per-file map merged with `BTreeMap::append` would replace, not
    # concatenate, the bytes of a board that has data in several files)
    same_map = False
    why_map = "no entry()/validated map found"
    if len(entries) == 1:
        em = an.terms.operand(entries[0][1]["args"][0])
        while em[0] in ("ref", "deref"):
            em = em[1]
        vm = None
        for bb_, t_ in b.calls():
            if short(cname(t_)) == "Iterator::map" and len(t_["args"]) == 2:
                c_ = strip(an.terms.operand(t_["args"][1]))
                if c_[0] == "aggr" and c_[1] == "closure:" + board_closure:
                    vm = unmut(an.terms.operand(t_["args"][0]))
                    while vm[0] == "call" and short(vm[1]) == "IntoIterator::into_iter" and vm[2]:
                        vm = vm[2][0]
                        while vm[0] in ("ref", "deref"):
                            vm = vm[1]
        if em[0] == "mut" and vm is not None and vm[0] == "mut" and vm[1] == em[1]:
            muts = []
            for bb_, t_ in b.calls():
                for a_ in t_["args"]:
                    x_ = an.terms.operand(a_)
                    if x_[0] == "ref" and x_[1][0] == "mut" and x_[1][1] == em[1]:
                        s_ = short(cname(t_))
                        # shared borrows (len, iter, get ..) are not mutations
                        lty = b.locals[a_["p"]["l"]]["ty"] if a_.get("k") in ("move", "copy") and not a_["p"]["pr"] else {}
                        if lty.get("k") == "ref" and lty.get("m"):
                            muts.append(s_)
            same_map = all(m_.endswith("::entry") for m_ in muts) and bool(muts)
            why_map = "mutating calls on the map: %s" % sorted(set(muts))
        else:
            why_map = "the map that receives the data is not the map that is validated and written"
    check(res, R3, same_map, MAIN, "one-map", "bank data must be appended directly to the per-board map that is later validated and written (%s)" % why_map, b.where())
    sorts = [(bb, t) for bb, t in b.calls() if cname(t) == SORT]
    loop_ok = False
    for bb, t in b.calls():
        if short(cname(t)) == "Iterator::next":
            it = unmut(an.terms.operand(t["args"][0]))
            for x in walk(it):
                if x[0] == "field" and x[2] == 1 and unctx(x[1])[0] == "call" and unctx(x[1])[1] == SORT:
                    loop_ok = True
    check(res, R3, len(sorts) == 1 and loop_ok, MAIN, "sorted-files", "the file loop does not iterate sort_run_files(..)?.1", b.where())
    reads_in_loop = all(any(bb in b.natural_loop(tl, hd) for (tl, hd) in b.back_edges()) for bb, _ in entries)
    check(res, R3, reads_in_loop, MAIN, "append-in-loop", "bank data is not appended inside the file/event/bank loops", b.where())

    # ------------------------------------------------------------------ R4 the two arms that take a piece apart
    # forms: `match piece.split_last() { Some((&Marker(m), rest)) => (Some(m), rest), Some(_) => (None, piece), .. }` or the
    # slice patterns `[rest @ .., Marker(m)] => (Some(*m), rest)`, `_ => (None, piece)`
    sl = [(bb, t) for bb, t in b.calls() if short(cname(t)) == "<impl [T]>::split_last"]
    ok4 = False
    detail = ""
    cands = [l for l in range(len(b.locals)) if b.locals[l]["ty"].get("k") == "tuple" and len(an.terms.defs.whole[l]) == 2
             and "FifoEntry" in pp.ty(b.locals[l]["ty"]) and "Option" in pp.ty(b.locals[l]["ty"])]
    si_calls = [(bb, t) for bb, t in b.calls() if short(cname(t)) == "<impl [T]>::split_inclusive"]

    def piece_of(x):
        """the piece (an item of the split_inclusive iterator) a term is taken from, or None"""
        x = unmut(x)
        if x[0] == "field" and x[2] == 0 and unmut(x[1])[0] == "downcast":
            nx = unmut(unmut(x[1])[1])
            if nx[0] == "call" and short(nx[1]) == "Iterator::next" and any(y[0] == "call" and si_calls and y[3] == si_calls[0][0] for y in walk(nx)):
                return x
        return None

    def last_of(x):
        """x is the last element of a piece: split_last().0 or piece[len-1] (pattern `[.., last]`); returns the piece"""
        x = unmut(x)
        if x[0] == "cindex" and x[2] == 1 and x[3]:
            return piece_of(x[1])
        if x[0] == "field" and x[2] == 0:
            y = unmut(x[1])
            if y[0] == "field" and y[2] == 0 and unmut(y[1])[0] == "downcast":
                c = unmut(unmut(y[1])[1])
                if c[0] == "call" and short(c[1]) == "<impl [T]>::split_last":
                    return piece_of(c[2][0])
        return None

    def init_of(x):
        """x is everything before the last element of a piece: split_last().1 or `rest @ ..` before one trailing element"""
        x = unmut(x)
        if x[0] == "subslice" and x[2] == 0 and x[3] == 1 and x[4]:
            return piece_of(x[1])
        if x[0] == "field" and x[2] == 1:
            y = unmut(x[1])
            if y[0] == "field" and y[2] == 0 and unmut(y[1])[0] == "downcast":
                c = unmut(unmut(y[1])[1])
                if c[0] == "call" and short(c[1]) == "<impl [T]>::split_last":
                    return piece_of(c[2][0])
        return None
    for l in cands:
        arms = []
        for (bi, si, x) in an.terms.defs.whole[l]:
            v = strip(an.terms.rvalue(x)) if si != "t" else None
            # which element the arm's variant test looks at
            is_marker_arm = not_marker_arm = False
            for (d, rel, vals) in an.atoms_at(bi):
                d0 = unmut(d)
                if d0[0] == "discr" and last_of(d0[1]) is not None:
                    for a in sy.atoms(d, rel, vals):
                        sa = atom_str(a)
                        if sa.startswith("variant ") and sa.endswith(" in ('WrapAroundMarker',)"):
                            is_marker_arm = True
                        if sa.startswith("variant ") and sa.endswith(" in ('TimestampCounter',)"):
                            not_marker_arm = True
            arms.append((v, is_marker_arm, not_marker_arm, bi))
        good = 0
        for v, is_m, not_m, bi in arms:
            if v is None or v[0] != "aggr" or v[1] != "tuple" or len(v[2]) != 2:
                continue
            first, second = strip(v[2][0]), unmut(v[2][1])
            if is_m:
                # (Some(the marker that is the last element), everything before it)
                mk = None
                if first[0] == "aggr" and first[1].endswith("Option::Some") and len(first[2]) == 1:
                    pl = unmut(first[2][0])
                    if pl[0] == "field" and pl[2] == 0 and unmut(pl[1])[0] == "downcast" and unmut(pl[1])[2] == "WrapAroundMarker":
                        mk = last_of(unmut(pl[1])[1])
                rest = init_of(second)
                if mk is not None and rest is not None and same(mk, rest):
                    good += 1
                else:
                    detail = "marker arm does not yield (Some(marker), everything before it)"
            else:
                # every other arm keeps the whole piece (also when it is not the explicit `TimestampCounter` arm: `_ =>`)
                pc = piece_of(second)
                if first[0] == "aggr" and first[1].endswith("Option::None") and pc is not None:
                    good += 1
                else:
                    detail = "the arm for a piece that does not end in a marker does not keep the whole piece (its last timestamp would be dropped)"
        if good == 2 and sum(1 for a in arms if a[1]) == 1:
            ok4 = True
    check(res, R4, ok4, MAIN, "split-last-arms", "element conservation broken in the row loop: %s" % (detail or "cannot find the two split_last arms"), b.where(sl[0][0]) if sl else b.where())
    # the pieces come from split_inclusive on markers over the validated fifo
    si_ = [(bb, t) for bb, t in b.calls() if short(cname(t)) == "<impl [T]>::split_inclusive"]
    ok = len(si_) == 1
    if ok:
        c = strip(an.terms.operand(si_[0][1]["args"][1]))
        ok = c[0] == "aggr" and c[1].startswith("closure:") and \
            [[a, v] for a, v in accept.ret_table(prog, c[1][8:])] == spec["split_predicate"]
    check(res, R4, ok, MAIN, "split-inclusive", "pieces are not produced by split_inclusive(|e| matches!(e, WrapAroundMarker(_)))", b.where())

    # ------------------------------------------------------------------ R5 row
    ser = [(bb, t) for bb, t in b.calls() if short(cname(t)) == "Writer::<W>::serialize"]
    rows_ok = False
    if len(ser) == 1:
        row = strip(an.terms.operand(ser[0][1]["args"][1]))
        if row[0] == "aggr" and row[1].endswith("Row::Row") and len(row[2]) == 4:
            names = [accept.apply_alias(sy.guarded_name(x), alias) for x in row[2]]
            names[3] = trim_fmt(names[3])
            cmp(res, R5, MAIN, "row", names, spec["row"], "CSV row fields")
            rows_ok = True
    if not rows_ok:
        res.violate(R5, MAIN, "row-missing", "cannot find the single `wtr.serialize(Row{..})`", b.where())
    check_row_decl(prog, res, R5, "alpha_g_chronobox_timestamps::Row", spec["row_decl"], MAIN, b.where())
    # previous_marker := next_marker at the end of each piece
    prev = [l for l in range(len(b.locals)) if sy.short_ty(b.locals[l]["ty"]) == "Option<WrapAroundMarker>" and len(an.terms.defs.whole[l]) == 2]
    upd = False
    for l in prev:
        vals = sorted(accept.apply_alias(sy.name(an.terms.rvalue(x)), alias) for (bi, si, x) in an.terms.defs.whole[l] if si != "t")
        if vals == spec["previous_marker_defs"]:
            upd = True
    check(res, R5, upd, MAIN, "previous-marker", "previous_marker is not initialised to None and set to the piece's marker after each piece", b.where())
    res.sample({"chronobox_time": spec["chronobox_time"]["rows"]})
    res.undecided = ["equality of chronobox_time with the true edge time for all hardware streams / cut patterns / faults (history-quantified arithmetic)"]


def first_local(op):
    if op.get("k") in ("copy", "move"):
        return op["p"]["l"]
    return None


def trim_fmt(v):
    import re
    v = re.sub(r"Err\{__private::format_err\(Arguments::<'a>::new\(bytes\[[0-9,]*\],array\{.*?\}\)\)\}", "Err{anyhow!(..)}", v)
    v = re.sub(r"<impl uom::si::Quantity<\(dyn .*?\+ 'static\), U, V>>", "uom", v)
    return v


def check(res, rule, ok, fn, key, what, where):
    res.oblige(ok, "shape")
    if ok:
        res.hit(rule)
    else:
        res.violate(rule, fn, key, what, where)


def inside_atom(s, keys, name):
    """the argument inside `key(..)` renamed (balanced parentheses)"""
    for key in keys:
        out, i = "", 0
        while True:
            j = s.find(key, i)
            if j < 0:
                out += s[i:]
                break
            k, depth = j + len(key), 0
            while k < len(s):
                if s[k] == "(":
                    depth += 1
                elif s[k] == ")":
                    if depth == 0:
                        break
                    depth -= 1
                k += 1
            out += s[i:j] + key + name
            i = k
        s = out
    return s


def event_atom(s):
    """the event expression inside `EventView::id(..)` renamed to the closure form's `arg2`"""
    key = "EventView::<'a>::id("
    out, i = "", 0
    while True:
        j = s.find(key, i)
        if j < 0:
            return out + s[i:]
        k, depth = j + len(key), 0
        while k < len(s):
            if s[k] == "(":
                depth += 1
            elif s[k] == ")":
                if depth == 0:
                    break
                depth -= 1
            k += 1
        out += s[i:j] + key + "arg2"
        i = k


def cmp(res, rule, fn, key, g, w, what):
    ok = g == w
    res.oblige(ok, "table")
    if ok:
        res.hit(rule)
        return
    if isinstance(g, list) and isinstance(w, list) and g and w and isinstance(g[0], list) and len(g[0]) == 2 and isinstance(g[0][0], list):
        k2, text = diff_tables(g, w)
    else:
        k2, text = "value", "got %s, expected %s" % (json.dumps(g)[:600], json.dumps(w)[:600])
    res.violate(rule, fn, "%s:%s" % (key, k2[:160]), "%s differs from the spec: %s" % (what, text), "")
