"""C04 — PWB packet reassembly is arrival-order independent and loss/duplication safe.

Structural rules over the resolved MIR of `<PwbV2Packet as TryFrom<Vec<Chunk>>>::try_from`
(and its forwarding sibling on `PwbPacket`).  See DESIGN.md §5 C04.
"""
from ..facts import AnchorMissing
from ..guards import (analysis, as_cmp, closure_info, closure_ret, subst_upvars, is_field_of, accessor_field,
                      field_index, truth_of)
from ..terms import strip, short, same, walk, show, cname

LEVEL = "other"
CHUNK = "alpha_g_detector::padwing::Chunk"
V2 = "alpha_g_detector::padwing::PwbV2Packet"
FN = "<%s as std::convert::TryFrom<std::vec::Vec<%s>>>::try_from" % (V2, CHUNK)
FN_SLICE = "<%s as std::convert::TryFrom<&[u8]>>::try_from" % V2
WRAP = "<alpha_g_detector::padwing::PwbPacket as std::convert::TryFrom<std::vec::Vec<%s>>>::try_from" % CHUNK

INSENSITIVE = {"Vec::<T, A>::is_empty", "Vec::<T, A>::len", "<impl [T]>::len", "<impl [T]>::is_empty"}
CHAIN = {"Deref::deref", "DerefMut::deref_mut", "<impl [T]>::iter", "IntoIterator::into_iter",
         "Iterator::enumerate", "Iterator::take", "Iterator::skip", "Iterator::rev", "Iterator::by_ref",
         "Vec::<T, A>::iter", "<impl [T]>::iter_mut", "Vec::<T, A>::as_slice", "Vec::<T, A>::as_mut_slice"}
SORTS = {"<impl [T]>::sort_unstable_by_key", "<impl [T]>::sort_by_key", "<impl [T]>::sort_by_cached_key",
         "<impl [T]>::sort_unstable_by", "<impl [T]>::sort_by"}
QUANT = {"Iterator::position", "Iterator::any", "Iterator::all", "Iterator::find"}


def mentions_chunks(t):
    return any(x == ("param", 1) for x in walk(t))


def direct_use(t):
    """t is the chunk vector or an iterator (chain) over it — not merely something computed from an element."""
    return base_is_chunks(t) or iter_chain(t)[1]


def base_is_chunks(t):
    """t is the chunk vector itself (through refs/derefs/slices)."""
    t = strip(t)
    while t[0] == "call" and short(t[1]) in ("Deref::deref", "DerefMut::deref_mut", "Vec::<T, A>::as_slice",
                                             "Vec::<T, A>::as_mut_slice") and len(t[2]) == 1:
        t = strip(t[2][0])
    return t == ("param", 1)


def iter_chain(t):
    """Decompose an iterator term over chunks into (adapters, base_is_chunks).
    adapters is a list like ["iter", ("take", n), "enumerate"] outermost last."""
    ads = []
    t = strip_mut(t)
    while True:
        if t[0] == "call":
            s = short(t[1])
            if s in ("<impl [T]>::iter", "Vec::<T, A>::iter"):
                ads.append("iter")
                t = strip_mut(t[2][0])
                continue
            if s == "IntoIterator::into_iter":
                ads.append("into_iter")
                t = strip_mut(t[2][0])
                continue
            if s in ("Iterator::enumerate", "Iterator::rev", "Iterator::by_ref"):
                ads.append(s.split("::")[1])
                t = strip_mut(t[2][0])
                continue
            if s in ("Iterator::take", "Iterator::skip"):
                ads.append((s.split("::")[1], t[2][1]))
                t = strip_mut(t[2][0])
                continue
            if s in ("Deref::deref", "DerefMut::deref_mut", "Vec::<T, A>::as_slice"):
                t = strip_mut(t[2][0])
                continue
        break
    ads.reverse()
    return ads, (t == ("param", 1))


def strip_mut(t):
    # like strip but does not look through into_iter (it is recorded as an adapter);
    # iterator temporaries are `mut`-marked (consumed through &mut) - look through the marker
    while t[0] in ("ref", "deref", "mut"):
        t = t[1] if t[0] != "mut" else t[2]
    return t


def elem_pred(k):
    """predicate: term is the closure's element argument (carg k), through refs / tuple field."""
    def p(t):
        return strip(t) == ("carg", k)
    return p


def first_chunk(t):
    """t is chunks[0]"""
    t = strip(t)
    if t[0] == "call" and short(t[1]) == "Index::index" and len(t[2]) == 2:
        return base_is_chunks(t[2][0]) and t[2][1][0] == "const" and t[2][1][1] == 0
    if t[0] == "index" and base_is_chunks(t[1]) and t[2][0] == "const" and t[2][1] == 0:
        return True
    return False


def proj_of(t, root_pred):
    """Return a structural 'projection signature' g such that t = g(root) where root satisfies
    root_pred, or None.  The signature is the list of callee/field steps."""
    steps = []
    t = strip(t)
    while True:
        if root_pred(t):
            return tuple(steps)
        if t[0] == "call" and len(t[2]) == 1:
            steps.append(("call", t[1]))
            t = strip(t[2][0])
            continue
        if t[0] == "field":
            steps.append(("field", t[2]))
            t = strip(t[1])
            continue
        return None


def run(prog, tier, res):
    body = prog.body(FN)
    an = analysis(prog, body)
    res.functions.add(FN)
    res.explanation = ("Dominance / dataflow-shape rules on the resolved MIR of the chunk reassembly function: every "
                       "order-dependent use of the chunk vector is dominated by a sort keyed on chunk_id, every "
                       "pre-sort use is a permutation-invariant predicate, and the accept path carries the dense-id, "
                       "end-of-message, equal-size and non-empty guards; the payload handed to the byte decoder is "
                       "the in-order concatenation of the chunk payloads.")
    res.trusted = ["slice::sort*_by_key is a deterministic function of its input sequence and sorts by the key",
                   "Iterator::position/enumerate/take/fold have their documented semantics"]
    R1 = res.rule("C04.R1", "order-dependent uses of the chunk vector are dominated by a sort keyed on chunk_id", floor=6)
    R2 = res.rule("C04.R2", "pre-sort uses are permutation-invariant: is_empty / 'all g(c) == g(chunks[0])' for board and chip", floor=3)
    R3 = res.rule("C04.R3", "accept path requires chunk_id_i == i for all i (dense ids, after the sort)", floor=1)
    R4 = res.rule("C04.R4", "accept path requires end-of-message on the last chunk and on no earlier chunk; is_end_of_message() is `flags == 1`", floor=3)
    R5 = res.rule("C04.R5", "accept path requires equal payload size of all non-final chunks (after the sort)", floor=1)
    R6 = res.rule("C04.R6", "empty chunk list is rejected", floor=1)
    R7 = res.rule("C04.R7", "decoded bytes = concatenation of payloads in vector order; result returned unchanged", floor=3)
    R8 = res.rule("C04.R8", "PwbPacket::try_from(Vec<Chunk>) forwards to the V2 reassembly", floor=1)

    chunk_id = field_index(prog, CHUNK, "chunk_id")
    payload_f = field_index(prog, CHUNK, "payload")

    ok_sites = an.ok_sites()
    if not ok_sites:
        raise AnchorMissing("no Ok(..) return in %s" % FN)

    # ---------------------------------------------------------------- find the sort
    sorts = []
    for bb, t in body.calls():
        s = short(cname(t))
        if s in SORTS and base_is_chunks(an.terms.operand(t["args"][0])):
            key_ok = False
            ci = closure_info(prog, an, an.terms.operand(t["args"][1]))
            if ci:
                cb, cap = ci
                rets = [subst_upvars(r, cap) for r in closure_ret(prog, cb)]
                if s.endswith("_by_key") or s.endswith("by_cached_key"):
                    key_ok = len(rets) == 1 and is_field_of(prog, rets[0], elem_pred(0), CHUNK, "chunk_id")
                else:
                    # sort_by(|a, b| a.chunk_id.cmp(&b.chunk_id))
                    if len(rets) == 1 and rets[0][0] == "call" and short(rets[0][1]) in ("Ord::cmp",) and len(rets[0][2]) == 2:
                        a, b = rets[0][2]
                        key_ok = (is_field_of(prog, a, elem_pred(0), CHUNK, "chunk_id")
                                  and is_field_of(prog, b, elem_pred(1), CHUNK, "chunk_id"))
                res.functions.add(cb.path)
            if key_ok:
                sorts.append(bb)
            else:
                res.violate(R1, FN, "sort-key", "the chunk vector is sorted, but not by the chunk_id field of its elements",
                            body.where(bb))
    def after_sort(bb):
        return any(body.dominates(s, bb) and s != bb for s in sorts)

    # ---------------------------------------------------------------- census of uses of `chunks`
    n_sites = 0
    quantified = []   # (bb, kind, adapters, closure-return term, post_sort)
    for bb, t in body.calls():
        args = [an.terms.operand(a) for a in t["args"]]
        if not any(direct_use(a) for a in args):
            continue
        n_sites += 1
        s = short(cname(t))
        site = "%s" % s
        if s in INSENSITIVE and base_is_chunks(args[0]):
            continue
        if s in SORTS:
            continue
        if s in CHAIN:
            continue   # judged at the consumer
        if s == "<impl [T]>::last" and base_is_chunks(args[0]) or (s == "Index::index" and base_is_chunks(args[0])):
            res.hit(R1)
            if not after_sort(bb):
                # allowed pre-sort only inside error construction (value does not affect success/failure):
                if feeds_only_err(an, bb):
                    continue
                res.violate(R1, FN, "elem-access:%s" % site,
                            "element of the chunk vector selected by position before the vector is sorted by chunk_id", body.where(bb))
            continue
        if s in QUANT or s in ("Iterator::fold", "Iterator::for_each", "Iterator::map", "Iterator::collect",
                               "Iterator::try_fold", "Iterator::try_for_each", "Iterator::filter", "Iterator::count"):
            ads, base_ok = iter_chain(args[0])
            ci = closure_info(prog, an, args[-1]) if len(args) >= 2 else None
            rets = None
            if ci:
                cb, cap = ci
                res.functions.add(cb.path)
                rets = [subst_upvars(r, cap) for r in closure_ret(prog, cb)]
            quantified.append((bb, s, ads, rets, after_sort(bb), base_ok, t))
            continue
        # unknown consumer of the chunk vector: treat as order dependent
        res.hit(R1)
        if not after_sort(bb):
            res.violate(R1, FN, "use:%s" % site, "use of the chunk vector by `%s` is not dominated by the chunk_id sort" % s,
                        body.where(bb))
    res.call_sites += n_sites

    # ---------------------------------------------------------------- classify the quantified uses
    found = {"board": None, "chip": None, "dense": None, "eom_none_before": None, "size": None, "fold": None}
    for (bb, s, ads, rets, post, base_ok, t) in quantified:
        kind = None
        if not base_ok:
            res.violate(R1, FN, "iter-base:%s" % s, "iterator consumed by `%s` is not over the chunk vector itself" % s, body.where(bb))
            continue
        if s in ("Iterator::position", "Iterator::any", "Iterator::find") and rets and len(rets) == 1:
            r = rets[0]
            c = as_cmp(r, True)
            plain = [a for a in ads if a in ("iter", "into_iter")]
            takes = [a for a in ads if isinstance(a, tuple) and a[0] == "take"]
            others = [a for a in ads if a not in plain and a not in takes and a != "enumerate"]
            if c and c[0] == "Ne" and not takes and not others and "enumerate" not in ads:
                ga = proj_of(c[1], lambda x: x == ("carg", 0))
                gb = proj_of(c[2], first_chunk)
                if ga is None or gb is None:
                    ga = proj_of(c[2], lambda x: x == ("carg", 0))
                    gb = proj_of(c[1], first_chunk)
                if ga is not None and ga == gb and ga:
                    # all g(c) == g(chunks[0]): permutation invariant
                    g = ga[-1] if ga else None
                    name = g[1] if g and g[0] == "call" else None
                    if name and name.endswith("Chunk::board_id"):
                        kind = "board"
                    elif name and name.endswith("Chunk::after_id"):
                        kind = "chip"
                    elif len(ga) == 2 and ga[0] == ("call", "core::slice::<impl [T]>::len") and str(ga[1][1]).endswith("Chunk::payload"):
                        kind = "size_all"
                    else:
                        kind = "allsame"
                    res.hit(R2)
            if kind is None and c and "enumerate" in ads and not takes and not others:
                # (i, c): usize::from(c.chunk_id) != i
                def idx(x):
                    x = strip(x)
                    return x == ("field", ("carg", 0), 0)
                def cid(x):
                    x = strip(x)
                    while x[0] == "cast":
                        x = strip(x[2])
                    return is_field_of(prog, x, lambda y: strip(y) == ("field", ("carg", 0), 1), CHUNK, "chunk_id")
                if c[0] == "Ne" and ((idx(c[1]) and cid(c[2])) or (idx(c[2]) and cid(c[1]))):
                    kind = "dense"
            if kind is None and takes and not others and "enumerate" not in ads:
                tk = takes[0][1]
                len_minus_1 = (tk[0] == "bin" and tk[1] == "Sub" and tk[3][0] == "const" and tk[3][1] == 1
                               and tk[2][0] == "call" and short(tk[2][1]) in ("Vec::<T, A>::len", "<impl [T]>::len")
                               and base_is_chunks(tk[2][2][0]))
                if len_minus_1:
                    rr = strip(r)
                    if rr[0] == "call" and rr[1].endswith("Chunk::is_end_of_message") and strip(rr[2][0]) == ("carg", 0):
                        kind = "eom_none_before"
                    elif c and c[0] == "Ne":
                        sig_a = proj_of(c[1], lambda x: x == ("carg", 0))
                        sig_b = proj_of(c[2], first_chunk)
                        if sig_a is None or sig_b is None:
                            sig_a = proj_of(c[2], lambda x: x == ("carg", 0))
                            sig_b = proj_of(c[1], first_chunk)
                        if sig_a and sig_a == sig_b and len(sig_a) == 2 and short(sig_a[0][1]) == "<impl [T]>::len" \
                                and payload_sig(prog, sig_a[1], payload_f):
                            kind = "size"
        if s == "Iterator::fold":
            kind = "fold"
        if kind in ("board", "chip", "allsame", "size_all"):
            found[kind] = bb
            continue
        res.hit(R1)
        if kind is None:
            if not post:
                res.violate(R1, FN, "quantified:%s" % s,
                            "`%s` over the chunk vector is neither dominated by the chunk_id sort nor a recognised permutation-invariant predicate" % s,
                            body.where(bb))
            continue
        if not post:
            res.violate(R1, FN, "presort:%s" % kind, "order-dependent check `%s` runs before the chunk vector is sorted by chunk_id" % kind, body.where(bb))
        found[kind] = (bb, t, ads, rets)

    # ---------------------------------------------------------------- R2: both homogeneity predicates must guard the Ok path
    for kind in ("board", "chip"):
        bb = found[kind]
        if bb is None:
            res.violate(R2, FN, "missing:%s" % kind, "no 'all chunks have the same %s as chunks[0]' predicate found" % kind, body.where())
            continue
        if not none_edge_dominates(an, bb, ok_sites):
            res.violate(R2, FN, "unguarded:%s" % kind, "the %s homogeneity predicate does not guard the Ok path (Some(..) does not lead to Err)" % kind, body.where(bb))

    # ---------------------------------------------------------------- R6 non-empty
    ok6 = False
    for okbb, _ in ok_sites:
        for (d, tr) in an.bool_atoms_at(okbb):
            if tr is False and d[0] == "call" and short(d[1]) in ("Vec::<T, A>::is_empty", "<impl [T]>::is_empty") and base_is_chunks(d[2][0]):
                ok6 = True
    if ok6:
        res.hit(R2)
        res.hit(R6)
    else:
        res.violate(R6, FN, "is_empty", "the Ok path is not guarded by `!chunks.is_empty()`", body.where())

    # ---------------------------------------------------------------- R3 dense ids
    d = found["dense"]
    if d is None:
        res.violate(R3, FN, "dense-ids", "no `enumerate().position(|(i, c)| usize::from(c.chunk_id) != i)` check found", body.where())
    else:
        if none_edge_dominates(an, d[0], ok_sites):
            res.hit(R3)
        else:
            res.violate(R3, FN, "dense-ids-unguarded", "dense chunk-id check does not guard the Ok path", body.where(d[0]))

    # ---------------------------------------------------------------- R4 end of message
    eom_last = False
    for okbb, _ in ok_sites:
        for (dt, tr) in an.bool_atoms_at(okbb):
            x = dt
            if tr is True and x[0] == "call" and x[1].endswith("Chunk::is_end_of_message"):
                a = strip(x[2][0])
                # Option::unwrap(last(chunks))
                if a[0] == "call" and short(a[1]) in ("Option::<T>::unwrap", "Option::<T>::expect"):
                    a = strip(a[2][0])
                if a[0] == "call" and short(a[1]) == "<impl [T]>::last" and base_is_chunks(a[2][0]):
                    # the `last` call must be after the sort
                    eom_last = after_sort(a[3])
                    if not eom_last:
                        res.violate(R4, FN, "eom-last-presort", "`last()` is taken before the sort", body.where(a[3]))
    if eom_last:
        res.hit(R4)
    else:
        res.violate(R4, FN, "eom-last", "the Ok path is not guarded by `chunks.last().is_end_of_message()` after the sort", body.where())
    e = found["eom_none_before"]
    if e is None:
        res.violate(R4, FN, "eom-earlier", "no check that no chunk before the last carries end-of-message (take(len-1).position(is_end_of_message))", body.where())
    elif none_edge_dominates(an, e[0], ok_sites):
        res.hit(R4)
    else:
        res.violate(R4, FN, "eom-earlier-unguarded", "misplaced end-of-message check does not guard the Ok path", body.where(e[0]))

    # the accessor the two checks rely on: true exactly when the stored flags byte is 1 (flags is 0 or 1 by C03)
    EOM = "alpha_g_detector::padwing::Chunk::is_end_of_message"
    eb = prog.bodies.get(EOM)
    eom_sem = None
    if eb is not None:
        from .. import bitsem
        from ..guards import closure_ret as _closure_ret
        res.functions.add(EOM)
        fi = field_index(prog, "alpha_g_detector::padwing::Chunk", "flags")
        rets = _closure_ret(prog, eb)

        def is_flags(x):
            while x[0] in ("ref", "deref"):
                x = x[1]
            return x[0] == "field" and x[2] == fi and strip(x[1]) == ("param", 1)
        if len(rets) == 1 and fi is not None:
            try:
                eom_sem = (bitsem.ev(strip(rets[0]), is_flags, 0), bitsem.ev(strip(rets[0]), is_flags, 1))
            except bitsem.Outside:
                eom_sem = None
    if eom_sem == (False, True):
        res.hit(R4)
    else:
        res.violate(R4, EOM, "accessor", "Chunk::is_end_of_message() is not `flags == 1` on the decoder's flag values {0, 1} (evaluates to %s for flags 0 / 1)" % (eom_sem,),
                    eb.where() if eb is not None else "")

    # ---------------------------------------------------------------- R5 equal size
    z = found["size"]
    if z is None and found.get("size_all") is not None:
        # comparing *all* chunks (including the last) would reject valid messages; not the property's clause
        z = None
    if z is None:
        res.violate(R5, FN, "equal-size", "no `take(len-1).position(|c| c.payload().len() != chunks[0].payload().len())` check found", body.where())
    elif none_edge_dominates(an, z[0], ok_sites):
        res.hit(R5)
    else:
        res.violate(R5, FN, "equal-size-unguarded", "payload size check does not guard the Ok path", body.where(z[0]))

    # ---------------------------------------------------------------- R7 concatenation and pass-through
    f = found["fold"]
    if f is None:
        res.violate(R7, FN, "concat", "payload is not built by a fold over the chunk vector", body.where())
    else:
        bb, t, ads, rets = f
        ok = ads in (["into_iter"], ["iter"])
        if not ok:
            res.violate(R7, FN, "concat-order", "payload fold does not iterate the sorted vector front to back (adapters: %s)" % (ads,), body.where(bb))
        ci = closure_info(prog, an, an.terms.operand(t["args"][-1]))
        cb = ci[0] if ci else None
        good = False
        if cb is not None:
            can = analysis(prog, cb)
            rts = closure_ret(prog, cb)
            exts = [(b2, t2) for b2, t2 in cb.calls() if short(cname(t2)) in ("Vec::<T, A>::extend_from_slice", "Extend::extend", "Vec::<T, A>::extend")]
            if len(rts) == 1 and strip(rts[0]) == ("param", 2) and len(exts) == 1:
                b2, t2 = exts[0]
                a0 = strip(can.terms.operand(t2["args"][0]))
                a1 = strip(can.terms.operand(t2["args"][1]))
                if a0 == ("param", 2) and (is_field_of(prog, a1, lambda y: strip(y) == ("param", 3), CHUNK, "payload")):
                    good = True
        if good and ok:
            res.hit(R7)
        elif not good:
            res.violate(R7, FN, "concat-closure", "fold closure is not `acc.extend_from_slice(&item.payload); acc`", body.where(bb))
        # the byte decoder is called on the fold result, whole
        dec = [(b3, t3) for b3, t3 in body.calls() if cname(t3) == FN_SLICE]
        if len(dec) != 1:
            res.violate(R7, FN, "decode-call", "expected exactly one call of PwbV2Packet::try_from(&[u8]), found %d" % len(dec), body.where())
        else:
            b3, t3 = dec[0]
            a = strip(an.terms.operand(t3["args"][0]))
            whole = False
            if a[0] == "call" and short(a[1]) == "Index::index" and len(a[2]) == 2 and a[2][1] == ("aggr", "adt:std::ops::RangeFull::RangeFull", ()):
                a = strip(a[2][0])
                whole = True
            elif a[0] == "call" and short(a[1]) in ("Deref::deref", "Vec::<T, A>::as_slice"):
                a = strip(a[2][0])
                whole = True
            if whole and a[0] == "call" and short(a[1]) == "Iterator::fold" and a[3] == bb:
                res.hit(R7)
            else:
                res.violate(R7, FN, "decode-arg", "the bytes decoded are not the whole concatenated payload: %s" % show(a), body.where(b3))
            # Ok value is the decoder's result, unchanged
            passthru = all(len(t4[2]) == 1 and strip_try(t4[2][0]) is not None and strip_try(t4[2][0])[0] == "call"
                           and strip_try(t4[2][0])[1] == FN_SLICE for _, t4 in ok_sites)
            if passthru:
                res.hit(R7)
            else:
                res.violate(R7, FN, "result", "Ok value is not the byte decoder's result", body.where(ok_sites[0][0]))

    # ---------------------------------------------------------------- R8 wrapper forwards
    wb = prog.body(WRAP)
    wan = analysis(prog, wb)
    res.functions.add(WRAP)
    wcalls = [(b5, t5) for b5, t5 in wb.calls() if cname(t5) == FN]
    if len(wcalls) == 1 and strip(wan.terms.operand(wcalls[0][1]["args"][0])) == ("param", 1):
        res.hit(R8)
    else:
        res.violate(R8, WRAP, "forward", "PwbPacket::try_from(Vec<Chunk>) does not forward its argument to PwbV2Packet::try_from", wb.where())

    res.sample({"rule": "C04.R1", "sort_blocks": sorts, "uses_of_chunk_vector": n_sites})
    res.sample({"rule": "C04.R3", "dense_closure": show(found["dense"][3][0]) if found["dense"] else None})
    res.undecided = ["none beyond the trusted determinism of sort_unstable_by_key"]


def strip_try(t):
    t = strip(t)
    if t[0] == "try":
        return strip(t[1])
    return t


def payload_sig(prog, step, payload_f):
    if step[0] == "field":
        return step[1] == payload_f
    if step[0] == "call":
        return accessor_field(prog, step[1]) == payload_f
    return False


def none_edge_dominates(an, call_bb, ok_sites):
    """The Ok sites are dominated by the `None` edge of the discriminant switch on the
    Option returned by the call in block call_bb (i.e. Some(..) leaves the accept path)."""
    body = an.body
    for okbb, _ in ok_sites:
        hit = False
        for (d, rel, vals) in an.atoms_at(okbb):
            if d[0] == "discr" and d[1][0] == "call" and d[1][3] == call_bb:
                # Option: None = 0, Some = 1
                if (rel == "in" and vals == frozenset([0])) or (rel == "notin" and vals == frozenset([1])):
                    hit = True
            # `.is_none()` / `.is_some()` forms
            if d[0] == "call" and short(d[1]) in ("Option::<T>::is_none", "Option::<T>::is_some"):
                inner = strip(d[2][0])
                if inner[0] == "call" and inner[3] == call_bb:
                    tr = truth_of(rel, vals)
                    if (short(d[1]).endswith("is_none") and tr is True) or (short(d[1]).endswith("is_some") and tr is False):
                        hit = True
        if not hit:
            return False
    return True


def feeds_only_err(an, bb):
    """The value produced by the call in block bb flows only into an Err(..) construction:
    every path from bb reaches a return without crossing an Ok site."""
    body = an.body
    oks = {b for b, _ in an.ok_sites()}
    reach = body.reach_from(bb)
    return not (reach & oks)
