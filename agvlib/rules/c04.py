"""C04 — PWB packet reassembly is arrival-order independent and loss/duplication safe.

Structural rules over the resolved MIR of `<PwbV2Packet as TryFrom<Vec<Chunk>>>::try_from`
(and its forwarding sibling on `PwbPacket`).  See DESIGN.md §5 C04.
"""
from ..facts import AnchorMissing
from ..guards import (analysis, as_cmp, closure_info, closure_ret, subst_upvars, is_field_of, accessor_field,
                      field_index, truth_of)
from ..terms import strip, short, same, walk, show, cname
from ..sym import atom_str as atom_str_

LEVEL = "other"
CHUNK = "alpha_g_detector::padwing::Chunk"
V2 = "alpha_g_detector::padwing::PwbV2Packet"
FN = "<%s as std::convert::TryFrom<std::vec::Vec<%s>>>::try_from" % (V2, CHUNK)
FN_SLICE = "<%s as std::convert::TryFrom<&[u8]>>::try_from" % V2
WRAP = "<alpha_g_detector::padwing::PwbPacket as std::convert::TryFrom<std::vec::Vec<%s>>>::try_from" % CHUNK

INSENSITIVE = {"Vec::<T, A>::is_empty", "Vec::<T, A>::len", "<impl [T]>::len", "<impl [T]>::is_empty"}
CHAIN = {"Deref::deref", "DerefMut::deref_mut", "<impl [T]>::iter", "IntoIterator::into_iter",
         "Iterator::enumerate", "Iterator::take", "Iterator::skip", "Iterator::rev", "Iterator::by_ref",
         "Vec::<T, A>::iter", "<impl [T]>::iter_mut", "Vec::<T, A>::as_slice", "Vec::<T, A>::as_mut_slice",
         "Iterator::map", "Iterator::filter", "Iterator::copied", "Iterator::cloned"}
SORTS = {"<impl [T]>::sort_unstable_by_key", "<impl [T]>::sort_by_key", "<impl [T]>::sort_by_cached_key",
         "<impl [T]>::sort_unstable_by", "<impl [T]>::sort_by"}
QUANT = {"Iterator::position", "Iterator::any", "Iterator::all", "Iterator::find"}


def mentions_chunks(t):
    return any(x == ("param", 1) for x in walk(t))


def direct_use(t):
    """t is the chunk vector or an iterator (chain) over it — not merely something computed from an element."""
    return base_is_chunks(t) or iter_chain(t)[1]


def base_is_chunks(t):
    """t is the chunk vector itself (through refs/derefs/slices)."""
    t = strip(t)
    while t[0] == "call" and short(t[1]) in ("Deref::deref", "DerefMut::deref_mut", "Vec::<T, A>::as_slice",
                                             "Vec::<T, A>::as_mut_slice") and len(t[2]) == 1:
        t = strip(t[2][0])
    return t == ("param", 1)


def iter_chain(t):
    """Decompose an iterator term over chunks into (adapters, base_is_chunks).
    adapters is a list like ["iter", ("take", n), "enumerate"] outermost last."""
    ads = []
    t = strip_mut(t)
    while True:
        if t[0] == "call":
            s = short(t[1])
            if s in ("<impl [T]>::iter", "Vec::<T, A>::iter"):
                ads.append("iter")
                t = strip_mut(t[2][0])
                continue
            if s == "IntoIterator::into_iter":
                ads.append("into_iter")
                t = strip_mut(t[2][0])
                continue
            if s in ("Iterator::enumerate", "Iterator::rev", "Iterator::by_ref"):
                ads.append(s.split("::")[1])
                t = strip_mut(t[2][0])
                continue
            if s in ("Iterator::take", "Iterator::skip"):
                ads.append((s.split("::")[1], t[2][1]))
                t = strip_mut(t[2][0])
                continue
            if s in ("Iterator::map", "Iterator::filter", "Iterator::copied", "Iterator::cloned") and t[2]:
                # lazy adapters: the order only matters at the consumer
                ads.append(s.split("::")[1])
                t = strip_mut(t[2][0])
                continue
            if s in ("Index::index",) and len(t[2]) == 2 and strip(t[2][1])[0] == "aggr" and "::Range" in strip(t[2][1])[1]:
                ads.append(("slice", t[2][1]))
                t = strip_mut(t[2][0])
                continue
            if s in ("Deref::deref", "DerefMut::deref_mut", "Vec::<T, A>::as_slice"):
                t = strip_mut(t[2][0])
                continue
        break
    ads.reverse()
    return ads, (t == ("param", 1))


def strip_mut(t):
    # like strip but does not look through into_iter (it is recorded as an adapter);
    # iterator temporaries are `mut`-marked (consumed through &mut) - look through the marker
    while t[0] in ("ref", "deref", "mut"):
        t = t[1] if t[0] != "mut" else t[2]
    return t


def elem_pred(k):
    """predicate: term is the closure's element argument (carg k), through refs / tuple field."""
    def p(t):
        return strip(t) == ("carg", k)
    return p


def first_chunk(t):
    """t is chunks[0]"""
    t = strip(t)
    if t[0] == "call" and short(t[1]) == "Index::index" and len(t[2]) == 2:
        return base_is_chunks(t[2][0]) and t[2][1][0] == "const" and t[2][1][1] == 0
    if t[0] == "index" and base_is_chunks(t[1]) and t[2][0] == "const" and t[2][1] == 0:
        return True
    return False


def proj_of(t, root_pred):
    """Return a structural 'projection signature' g such that t = g(root) where root satisfies
    root_pred, or None.  The signature is the list of callee/field steps."""
    steps = []
    t = strip(t)
    while True:
        if root_pred(t):
            return tuple(steps)
        if t[0] == "call" and len(t[2]) == 1:
            steps.append(("call", t[1]))
            t = strip(t[2][0])
            continue
        if t[0] == "field":
            steps.append(("field", t[2]))
            t = strip(t[1])
            continue
        return None


def run(prog, tier, res):
    body = prog.body(FN)
    an = analysis(prog, body)
    res.functions.add(FN)
    res.explanation = ("Dominance / dataflow-shape rules on the resolved MIR of the chunk reassembly function: every "
                       "order-dependent use of the chunk vector is dominated by a sort keyed on chunk_id, every "
                       "pre-sort use is a permutation-invariant predicate, and the accept path carries the dense-id, "
                       "end-of-message, equal-size and non-empty guards; the payload handed to the byte decoder is "
                       "the in-order concatenation of the chunk payloads.")
    res.trusted = ["slice::sort*_by_key is a deterministic function of its input sequence and sorts by the key",
                   "Iterator::position/enumerate/take/fold have their documented semantics"]
    R1 = res.rule("C04.R1", "order-dependent uses of the chunk vector are dominated by a sort keyed on chunk_id", floor=4)
    R2 = res.rule("C04.R2", "pre-sort uses are permutation-invariant: is_empty / 'all g(c) == g(chunks[0])' for board and chip", floor=3)
    R3 = res.rule("C04.R3", "accept path requires chunk_id_i == i for all i (dense ids, after the sort)", floor=1)
    R4 = res.rule("C04.R4", "accept path requires end-of-message on the last chunk and on no earlier chunk; is_end_of_message() is `flags == 1`", floor=3)
    R5 = res.rule("C04.R5", "accept path requires equal payload size of all non-final chunks (after the sort)", floor=1)
    R6 = res.rule("C04.R6", "empty chunk list is rejected", floor=1)
    R7 = res.rule("C04.R7", "decoded bytes = concatenation of payloads in vector order; result returned unchanged", floor=3)
    R8 = res.rule("C04.R8", "PwbPacket::try_from(Vec<Chunk>) forwards to the V2 reassembly", floor=1)
    from .common import check_try_from_wrapper as _ctw
    _ctw(prog, res, R8, '<alpha_g_detector::padwing::PwbPacket as std::convert::TryFrom<std::vec::Vec<alpha_g_detector::padwing::Chunk>>>::try_from', '<alpha_g_detector::padwing::PwbV2Packet as std::convert::TryFrom<std::vec::Vec<alpha_g_detector::padwing::Chunk>>>::try_from', 'V2', 'arg1')

    chunk_id = field_index(prog, CHUNK, "chunk_id")
    payload_f = field_index(prog, CHUNK, "payload")

    ok_sites = an.ok_sites()
    if not ok_sites:
        # `PwbV2Packet::try_from(&payload[..]).map_err(Self::Error::BadPayload)` as the tail expression: the decoder's
        # result is passed through (`Ok(x?)` in one call); the accept site is where that value is produced
        for bb_, t_ in an.ret_assignments():
            x_ = strip(t_)
            if x_[0] == "call" and short(x_[1]) == "Result::<T, E>::map_err" and x_[2]:
                inner_ = strip(x_[2][0])
                if inner_[0] == "call" and inner_[1] == FN_SLICE:
                    ok_sites.append((bb_, ("aggr", "adt:std::result::Result::Ok", (("try", x_[2][0]),))))
    if not ok_sites:
        raise AnchorMissing("no Ok(..) return in %s" % FN)

    # ---------------------------------------------------------------- find the sort
    sorts = []
    for bb, t in body.calls():
        s = short(cname(t))
        if s in SORTS and base_is_chunks(an.terms.operand(t["args"][0])):
            key_ok = False
            karg = strip(an.terms.operand(t["args"][1]))
            if karg[0] == "fn" and karg[1] in prog.bodies and s.endswith(("_by_key", "by_cached_key")):
                # `sort_by_key(Chunk::chunk_id)`: the key is an accessor of the chunk_id field
                key_ok = accessor_field(prog, karg[1]) == chunk_id
            ci = closure_info(prog, an, an.terms.operand(t["args"][1]))
            if ci:
                cb, cap = ci
                rets = [subst_upvars(r, cap) for r in closure_ret(prog, cb)]
                if s.endswith("_by_key") or s.endswith("by_cached_key"):
                    key_ok = key_ok or (len(rets) == 1 and is_field_of(prog, rets[0], elem_pred(0), CHUNK, "chunk_id"))
                else:
                    # sort_by(|a, b| a.chunk_id.cmp(&b.chunk_id))
                    if len(rets) == 1 and rets[0][0] == "call" and short(rets[0][1]) in ("Ord::cmp",) and len(rets[0][2]) == 2:
                        a, b = rets[0][2]
                        key_ok = (is_field_of(prog, a, elem_pred(0), CHUNK, "chunk_id")
                                  and is_field_of(prog, b, elem_pred(1), CHUNK, "chunk_id"))
                res.functions.add(cb.path)
            if key_ok:
                sorts.append(bb)
            else:
                res.violate(R1, FN, "sort-key", "the chunk vector is sorted, but not by the chunk_id field of its elements",
                            body.where(bb))
    def after_sort(bb):
        return any(body.dominates(s, bb) and s != bb for s in sorts)

    # ---------------------------------------------------------------- the checks over the chunk vector, in normal form
    from .. import quant
    from ..sym import Sym
    sy = Sym(prog, an, slice_param=99)
    okbb0 = ok_sites[0][0]
    facts_ = quant.forall_facts(prog, an, sy, okbb0)
    for okbb, _ in ok_sites[1:]:
        other = {(f.seq, f.enum, f.atoms) for f in quant.forall_facts(prog, an, sy, okbb)}
        facts_ = [f for f in facts_ if (f.seq, f.enum, f.atoms) in other]
    CH = "arg1"
    LM1 = "len(arg1) - 1"
    ACC = "alpha_g_detector::padwing::Chunk::"
    FIRST = "Index::index(arg1,0)"

    FIRSTS = (FIRST, "arg1[0]")        # Vec indexing (a call) or slice indexing (a place projection)

    def same_of_first(g):
        """atom `g(x) == g(chunks[0])` in either operand order of the canonical difference"""
        out_ = set()
        for F_ in FIRSTS:
            out_ |= {"%s(%s) - %s(x) == 0" % (g, F_, g), "%s(x) - %s(%s) == 0" % (g, g, F_),
                     "cmp Eq %s(%s) %s(x)" % (g, F_, g), "cmp Eq %s(x) %s(%s)" % (g, g, F_)}
        return out_
    PAY = ["len(%spayload(%%s))" % ACC, "len(%%s.%d)" % payload_f]

    def kind_of(f):
        whole = f.seq == (CH, "0", None)
        butlast = f.seq == (CH, "0", LM1)
        if whole and not f.enum and len(f.atoms) == 1:
            a = next(iter(f.atoms))
            if a in same_of_first(ACC + "board_id"):
                return "board"
            if a in same_of_first(ACC + "after_id"):
                return "chip"
        if whole and f.enum and f.atoms in ({"i - x.%d == 0" % chunk_id}, {"-i + x.%d == 0" % chunk_id}):
            return "dense"
        if butlast and f.atoms == {"pred %sis_end_of_message(x) False" % ACC}:          # (with or without an unused enumerate index)
            return "eom_none_before"
        if butlast and not f.enum and len(f.atoms) == 1:
            a = next(iter(f.atoms))
            for pa in PAY:
                for pb in PAY:
                    if any(a in ("%s - %s == 0" % (pa % F_, pb % "x"), "%s - %s == 0" % (pb % "x", pa % F_)) for F_ in FIRSTS):
                        return "size"
        if whole and not f.enum and len(f.atoms) == 1:
            a = next(iter(f.atoms))
            for pa in PAY:
                for pb in PAY:
                    if any(a in ("%s - %s == 0" % (pa % F_, pb % "x"), "%s - %s == 0" % (pb % "x", pa % F_)) for F_ in FIRSTS):
                        return "size_all"
        return None
    found = {"board": None, "chip": None, "dense": None, "eom_none_before": None, "size": None, "size_all": None}
    fact_sites = {}
    for f in facts_:
        k = kind_of(f)
        fact_sites.setdefault(f.site, []).append((k, f))
        if k and found.get(k) is None:
            found[k] = f
    for k in ("board", "chip"):
        if found[k] is not None:
            res.hit(R2)
    res.sample({"rule": "C04.R2-R5", "facts": [repr(f)[:220] for f in facts_]})

    # ---------------------------------------------------------------- census of uses of `chunks` (order dependence)
    n_sites = 0
    fold_site = None

    def first_chunk_ok(bb):
        """a pre-sort `chunks[0]` is fine when its value only feeds an accessor g for which `all g(x) == g(chunks[0])`
        guards the Ok path (then g(chunks[0]) is the common value, whatever the order), or only an Err payload"""
        consumers = []
        for b2, t2 in body.calls():
            for a in t2["args"]:
                x = strip(an.terms.operand(a))
                if x[0] == "field" and x[2] == 0 and strip(x[1])[0] == "downcast" and strip(x[1])[2] == "Some":
                    x = strip(strip(x[1])[1])            # payload of `chunks.first()`
                if x[0] == "call" and x[3] == bb and short(x[1]) in ("Index::index", "<impl [T]>::first"):
                    consumers.append(cname(t2))
        if not consumers:
            return False
        for c in consumers:
            g = c.rsplit("::", 1)[-1]
            if not (c.startswith(ACC) and ((g == "board_id" and found["board"]) or (g == "after_id" and found["chip"]))):
                return False
        return True
    for bb, t in body.calls():
        args = [an.terms.operand(a) for a in t["args"]]
        if not any(direct_use(a) for a in args):
            continue
        n_sites += 1
        s = short(cname(t))
        site = "%s" % s
        if s in INSENSITIVE and base_is_chunks(args[0]):
            continue
        # the only thing that may modify the vector is the sort: any other `&mut` use (dedup, retain, truncate, remove,
        # drain, reverse, swap, iter_mut ...) drops, duplicates or reorders chunks behind the checks' back
        a0 = t["args"][0] if t["args"] else None
        mut_ref = False
        if a0 is not None and a0.get("k") in ("move", "copy") and not a0["p"]["pr"]:
            lty = body.locals[a0["p"]["l"]]["ty"]
            mut_ref = lty.get("k") == "ref" and bool(lty.get("m"))
        if mut_ref and s not in SORTS and s not in ("DerefMut::deref_mut", "Vec::<T, A>::as_mut_slice") and base_is_chunks(args[0]):
            res.violate(R1, FN, "mutation:%s" % s, "the chunk vector is modified by `%s`: only the sort by chunk_id may touch it (a chunk dropped or moved here is "
                        "invisible to the duplicate / missing / end-of-message checks)" % s, body.where(bb))
            continue
        if s in SORTS or s in CHAIN:
            continue   # adapters are judged at the consumer
        if (s in ("<impl [T]>::last", "<impl [T]>::first", "<impl [T]>::split_last", "<impl [T]>::split_first") and base_is_chunks(args[0])) or \
                (s == "Index::index" and base_is_chunks(args[0])):
            res.hit(R1)
            if not after_sort(bb):
                is_first = (s == "Index::index" and strip(args[1]) == ("const", 0, "usize")) or s == "<impl [T]>::first"
                if feeds_only_err(an, bb) or (is_first and first_chunk_ok(bb)):
                    continue
                res.violate(R1, FN, "elem-access:%s" % site,
                            "element of the chunk vector selected by position before the vector is sorted by chunk_id", body.where(bb))
            continue
        if s == "Iterator::fold":
            fold_site = (bb, t, iter_chain(args[0])[0])
        kinds = [k for k, f in fact_sites.get(bb, [])]
        if kinds and all(k in ("board", "chip") for k in kinds):
            continue            # permutation-invariant predicate: allowed before the sort
        # every other consumer (recognised order-dependent check, loop, fold, unknown): after the sort
        res.hit(R1)
        if not after_sort(bb):
            what = ("order-dependent check `%s`" % kinds[0]) if kinds and kinds[0] else "`%s` over the chunk vector" % s
            res.violate(R1, FN, ("presort:%s" % kinds[0]) if kinds and kinds[0] else "quantified:%s" % s,
                        "%s runs before the chunk vector is sorted by chunk_id and is not a recognised permutation-invariant predicate" % what, body.where(bb))
    # loop-form facts: the loop header must be after the sort as well
    for f in facts_:
        if f.how == "for-loop" and kind_of(f) not in ("board", "chip") and not after_sort(f.site):
            res.violate(R1, FN, "presort-loop:%s" % kind_of(f), "a loop over the chunk vector checks positions before the vector is sorted by chunk_id", body.where(f.site))
    res.call_sites += n_sites

    # ---------------------------------------------------------------- R2: both homogeneity predicates guard the Ok path
    for kind in ("board", "chip"):
        if found[kind] is None:
            res.violate(R2, FN, "missing:%s" % kind, "no 'every chunk has the same %s as chunks[0]' check guards the Ok path" % kind, body.where())

    # ---------------------------------------------------------------- R6 non-empty
    ok6 = False
    for okbb, _ in ok_sites:
        for (d, tr) in an.bool_atoms_at(okbb):
            if tr is False and d[0] == "call" and short(d[1]) in ("Vec::<T, A>::is_empty", "<impl [T]>::is_empty") and base_is_chunks(d[2][0]):
                ok6 = True
        ats6 = []
        for (d, rel, vals) in an.atoms_at(okbb):
            ats6 += [atom_str_(a) for a in sy.atoms(d, rel, vals, is_bool=True)]
        from .. import accept as _accept
        if "pred is_empty(arg1) False" in ats6 or "len(arg1) - 1 >= 0" in ats6:
            ok6 = True
    if ok6:
        res.hit(R2)
        res.hit(R6)
    else:
        res.violate(R6, FN, "is_empty", "the Ok path is not guarded by `!chunks.is_empty()`", body.where())

    # ---------------------------------------------------------------- R3 dense ids
    d = found["dense"]
    if d is None:
        res.violate(R3, FN, "dense-ids", "no check that chunk i carries chunk id i for every position i guards the Ok path", body.where())
    elif not after_sort(d.site):
        res.violate(R3, FN, "dense-ids-presort", "the dense chunk-id check runs before the sort", body.where(d.site))
    else:
        res.hit(R3)

    # ---------------------------------------------------------------- R4 end of message
    LAST = {"Option::<T>::unwrap(<impl [T]>::last(arg1))", "Index::index(arg1,len(arg1) - 1)", "Option::<T>::unwrap(<impl [T]>::split_last(arg1)).0",
            "Option::<T>::expect(<impl [T]>::last(arg1))"}
    eom_last = False
    for okbb, _ in ok_sites:
        for (dt, tr) in an.bool_atoms_at(okbb):
            x = strip(dt)
            if tr is True and x[0] == "call" and x[1].endswith("Chunk::is_end_of_message") and len(x[2]) == 1:
                if sy.name(x[2][0]) in LAST:
                    # the element must be taken after the sort
                    sel = [y for y in walk(x[2][0]) if y[0] == "call" and short(y[1]) in ("<impl [T]>::last", "Index::index", "<impl [T]>::split_last")]
                    if sel and all(after_sort(y[3]) for y in sel if isinstance(y[3], int)):
                        eom_last = True
                    else:
                        res.violate(R4, FN, "eom-last-presort", "the last chunk is selected before the sort", body.where())
    if eom_last:
        res.hit(R4)
    else:
        res.violate(R4, FN, "eom-last", "the Ok path is not guarded by `the last chunk (after the sort) is end-of-message`", body.where())
    e = found["eom_none_before"]
    if e is None:
        res.violate(R4, FN, "eom-earlier", "no check that no chunk before the last carries end-of-message guards the Ok path", body.where())
    elif not after_sort(e.site):
        res.violate(R4, FN, "eom-earlier-presort", "the misplaced end-of-message check runs before the sort", body.where(e.site))
    else:
        res.hit(R4)

    # the accessor the two checks rely on: true exactly when the stored flags byte is 1 (flags is 0 or 1 by C03)
    EOM = "alpha_g_detector::padwing::Chunk::is_end_of_message"
    eb = prog.bodies.get(EOM)
    eom_sem = None
    if eb is not None:
        from .. import bitsem
        from ..guards import closure_ret as _closure_ret
        res.functions.add(EOM)
        fi = field_index(prog, "alpha_g_detector::padwing::Chunk", "flags")
        rets = _closure_ret(prog, eb)

        def is_flags(x):
            while x[0] in ("ref", "deref"):
                x = x[1]
            return x[0] == "field" and x[2] == fi and strip(x[1]) == ("param", 1)
        if len(rets) == 1 and fi is not None:
            try:
                eom_sem = (bitsem.ev(strip(rets[0]), is_flags, 0), bitsem.ev(strip(rets[0]), is_flags, 1))
            except bitsem.Outside:
                eom_sem = None
    if eom_sem == (False, True):
        res.hit(R4)
    else:
        res.violate(R4, EOM, "accessor", "Chunk::is_end_of_message() is not `flags == 1` on the decoder's flag values {0, 1} (evaluates to %s for flags 0 / 1)" % (eom_sem,),
                    eb.where() if eb is not None else "")

    # ---------------------------------------------------------------- R5 equal size
    z = found["size"]
    if z is None:
        # comparing *all* chunks (including the last) would reject valid messages; not the property's clause
        res.violate(R5, FN, "equal-size", "no check that every chunk before the last has the payload size of chunks[0] guards the Ok path%s" % (
            " (the check also covers the last chunk)" if found["size_all"] else ""), body.where())
    elif not after_sort(z.site):
        res.violate(R5, FN, "equal-size-presort", "payload size check runs before the sort", body.where(z.site))
    else:
        res.hit(R5)

    # ---------------------------------------------------------------- R7 concatenation and pass-through
    dec = [(b3, t3) for b3, t3 in body.calls() if cname(t3) == FN_SLICE]
    if len(dec) != 1:
        res.violate(R7, FN, "decode-call", "expected exactly one call of PwbV2Packet::try_from(&[u8]), found %d" % len(dec), body.where())
    else:
        b3, t3 = dec[0]
        a = strip(an.terms.operand(t3["args"][0]))
        whole = False
        if a[0] == "call" and short(a[1]) == "Index::index" and len(a[2]) == 2 and a[2][1] == ("aggr", "adt:std::ops::RangeFull::RangeFull", ()):
            a = strip(a[2][0])
            whole = True
        elif a[0] == "call" and short(a[1]) in ("Deref::deref", "Vec::<T, A>::as_slice"):
            a = strip(a[2][0])
            whole = True
        elif a[0] in ("mut", "call"):
            whole = True            # &Vec<u8> coerced to &[u8]
        concat_ok = False
        why7 = "the decoded bytes are not built by appending each chunk's payload in vector order"
        if a[0] == "call" and short(a[1]) == "Iterator::fold" and fold_site is not None and a[3] == fold_site[0]:
            bb, t, ads = fold_site
            okads = ads in (["into_iter"], ["iter"])
            ci = closure_info(prog, an, an.terms.operand(t["args"][-1]))
            cb = ci[0] if ci else None
            good = False
            if cb is not None:
                can = analysis(prog, cb)
                rts = closure_ret(prog, cb)
                exts = [(b2, t2) for b2, t2 in cb.calls() if short(cname(t2)) in ("Vec::<T, A>::extend_from_slice", "Extend::extend", "Vec::<T, A>::extend")]
                if len(rts) == 1 and strip(rts[0]) == ("param", 2) and len(exts) == 1:
                    b2, t2 = exts[0]
                    a0 = strip(can.terms.operand(t2["args"][0]))
                    a1 = strip(can.terms.operand(t2["args"][1]))
                    if a0 == ("param", 2) and (is_field_of(prog, a1, lambda y: strip(y) == ("param", 3), CHUNK, "payload")):
                        good = True
            concat_ok = good and okads
            if not okads:
                why7 = "payload fold does not iterate the sorted vector front to back (adapters: %s)" % (ads,)
            elif not good:
                why7 = "fold closure is not `acc.extend_from_slice(&item.payload); acc`"
        else:
            # loop form: `for chunk in &chunks { payload.extend_from_slice(chunk.payload()) }`
            nm = sy.name(a)
            ELEM_ = "(Iterator::next(mut(arg1)) as Some).0"
            forms = {"vec[extend_from_slice %spayload(%s)]" % (ACC, ELEM_), "vec[extend_from_slice %s.%d]" % (ELEM_, payload_f),
                     "vec[extend %spayload(%s)]" % (ACC, ELEM_), "vec[extend %s.%d]" % (ELEM_, payload_f)}
            if nm in forms:
                # one append on every iteration of a loop over the whole vector, front to back, after the sort
                exts = [(b2, t2) for b2, t2 in body.calls() if short(cname(t2)) in ("Vec::<T, A>::extend_from_slice", "Extend::extend", "Vec::<T, A>::extend")]
                loops_ = [(tl, hd) for (tl, hd) in body.back_edges() if exts and exts[0][0] in body.natural_loop(tl, hd)]
                if len(exts) == 1 and len(loops_) == 1:
                    tl, hd = loops_[0]
                    every = body.dominates(exts[0][0], tl)
                    nx = [(b2, t2) for b2, t2 in body.calls() if b2 in body.natural_loop(tl, hd) and short(cname(t2)) == "Iterator::next"]
                    fwd = False
                    if len(nx) == 1:
                        an.terms._pos = (nx[0][0], "t")
                        ps_ = quant.parse_seq(prog, an, sy, an.terms.operand(nx[0][1]["args"][0]))
                        ads_ = iter_chain(an.terms.operand(nx[0][1]["args"][0]))[0]
                        fwd = ps_ is not None and sy.name(ps_[0]) == CH and str(ps_[1]) == "0" and ps_[2] is None and not ps_[4] and "rev" not in ads_
                    concat_ok = every and fwd and after_sort(hd)
                    if not fwd:
                        why7 = "the payload loop does not walk the whole sorted vector front to back"
                    elif not every:
                        why7 = "the payload loop can skip a chunk"
        if concat_ok:
            res.hit(R7)
        else:
            res.violate(R7, FN, "concat", why7, body.where(b3))
        if whole and concat_ok:
            res.hit(R7)
        elif concat_ok:
            res.violate(R7, FN, "decode-arg", "the bytes decoded are not the whole concatenated payload: %s" % show(a)[:160], body.where(b3))
        # Ok value is the decoder's result, unchanged
        passthru = all(len(t4[2]) == 1 and strip_try(t4[2][0]) is not None and strip_try(t4[2][0])[0] == "call"
                       and strip_try(t4[2][0])[1] == FN_SLICE for _, t4 in ok_sites)
        if passthru:
            res.hit(R7)
        else:
            res.violate(R7, FN, "result", "Ok value is not the byte decoder's result", body.where(ok_sites[0][0]))

    # ---------------------------------------------------------------- R8 wrapper forwards
    wb = prog.body(WRAP)
    wan = analysis(prog, wb)
    res.functions.add(WRAP)
    wcalls = [(b5, t5) for b5, t5 in wb.calls() if cname(t5) == FN]
    if len(wcalls) == 1 and strip(wan.terms.operand(wcalls[0][1]["args"][0])) == ("param", 1):
        res.hit(R8)
    else:
        res.violate(R8, WRAP, "forward", "PwbPacket::try_from(Vec<Chunk>) does not forward its argument to PwbV2Packet::try_from", wb.where())

    res.sample({"rule": "C04.R1", "sort_blocks": sorts, "uses_of_chunk_vector": n_sites})
    res.undecided = ["none beyond the trusted determinism of sort_unstable_by_key"]


def strip_try(t):
    t = strip(t)
    if t[0] == "try":
        return strip(t[1])
    if t[0] == "field" and t[2] == 0 and strip(t[1])[0] == "downcast" and strip(t[1])[2] == "Ok":
        return strip(strip(t[1])[1])          # the `Ok(v) => Ok(v)` arm of an explicit match: the same payload as `x?`
    return t


def payload_sig(prog, step, payload_f):
    if step[0] == "field":
        return step[1] == payload_f
    if step[0] == "call":
        return accessor_field(prog, step[1]) == payload_f
    return False


def none_edge_dominates(an, call_bb, ok_sites):
    """The Ok sites are dominated by the `None` edge of the discriminant switch on the
    Option returned by the call in block call_bb (i.e. Some(..) leaves the accept path)."""
    body = an.body
    for okbb, _ in ok_sites:
        hit = False
        for (d, rel, vals) in an.atoms_at(okbb):
            if d[0] == "discr" and d[1][0] == "call" and d[1][3] == call_bb:
                # Option: None = 0, Some = 1
                if (rel == "in" and vals == frozenset([0])) or (rel == "notin" and vals == frozenset([1])):
                    hit = True
            # `.is_none()` / `.is_some()` forms
            if d[0] == "call" and short(d[1]) in ("Option::<T>::is_none", "Option::<T>::is_some"):
                inner = strip(d[2][0])
                if inner[0] == "call" and inner[3] == call_bb:
                    tr = truth_of(rel, vals)
                    if (short(d[1]).endswith("is_none") and tr is True) or (short(d[1]).endswith("is_some") and tr is False):
                        hit = True
        if not hit:
            return False
    return True


def feeds_only_err(an, bb):
    """The value produced by the call in block bb flows only into an Err(..) construction:
    every path from bb reaches a return without crossing an Ok site."""
    body = an.body
    oks = {b for b, _ in an.ok_sites()}
    reach = body.reach_from(bb)
    return not (reach & oks)
