"""C02 — ADC packet decoding is exact: accepted iff well-formed, fields read faithfully."""
import re

from .. import accept
from ..facts import AnchorMissing
from ..guards import analysis
from ..sym import Sym
from ..terms import strip, cname
from .common import check_accessors, int_conversion_ranges, ranges_of, check_lookup

LEVEL = "other"
V3 = "alpha_g_detector::alpha16::AdcV3Packet"
FN = "<%s as std::convert::TryFrom<&[u8]>>::try_from" % V3
WRAP = "alpha_g_detector::alpha16::AdcPacket"
WRAP_FN = "<%s as std::convert::TryFrom<&[u8]>>::try_from" % WRAP


def run(prog, tier, res):
    spec = accept.load_spec("c02.json")
    alias = [tuple(a) for a in spec["alias"]]
    res.explanation = ("Accept tables of AdcV3Packet::try_from (every accept path as a set of canonical guard atoms over "
                       "big-endian input fields) compared with the property's decision table; provenance of every "
                       "stored field vs the documented offsets; byte/bit coverage of the input by stored + forced + "
                       "unused-footer bits; exact acceptance ranges of the id conversions; accessor pass-through.")
    res.trusted = ["spec table tables/spec/c02.json transcribed from the property statement and the struct's doc table",
                   "std summaries: from_be_bytes, try_into of an N-byte slice, chunks_exact/map/collect/sum"]
    R1 = res.rule("C02.R1", "every input bit is stored, forced or one of the two unused footer bits (both packet forms)", 2)
    R2 = res.rule("C02.R2", "every field is the big-endian value at its documented offset (both Ok sites)", 26)
    R3 = res.rule("C02.R3", "accept predicate equals the decision table (short form: 2 cases; full form: 12 cases)", 14)
    R4 = res.rule("C02.R4", "accessors return their field; AdcPacket wrappers forward", 30)
    R5 = res.rule("C02.R5", "id conversions accept exactly module 0..=7, A16 0..=15, A32 0..=31 and store the value; MAC lookup compares the whole 6-byte address against the board table", 4)
    from .common import check_try_from_wrapper as _ctw
    _ctw(prog, res, R4, '<alpha_g_detector::alpha16::AdcPacket as std::convert::TryFrom<&[u8]>>::try_from', '<alpha_g_detector::alpha16::AdcV3Packet as std::convert::TryFrom<&[u8]>>::try_from', 'V3', '[0..L)')

    tabs, an, sy = accept.accept_tables(prog, FN, alias=alias)
    body = an.body
    res.functions.add(FN)
    if len(tabs) != 2:
        raise AnchorMissing("expected two Ok sites (16-byte form and full form) in %s, found %d" % (FN, len(tabs)))
    # identify the short form by its `L - 16 == 0` atom
    short_tb = [tb for tb in tabs if "L - 16 == 0" in tb.common()]
    full_tb = [tb for tb in tabs if tb not in short_tb]
    if len(short_tb) != 1 or len(full_tb) != 1:
        res.violate(R3, FN, "forms", "cannot identify the 16-byte accept site (no `len == 16` guard dominates exactly one Ok site)", body.where())
        return
    accept.compare(res, R3, FN, body.where(short_tb[0].site), short_tb[0].paths, accept.expand_spec(spec["short"]), "16-byte-form accept path")
    accept.compare(res, R3, FN, body.where(full_tb[0].site), full_tb[0].paths, accept.expand_spec(spec["full"]), "full-form accept path")
    res.sample({"full_form_case": sorted(sorted(full_tb[0].paths, key=sorted)[0])})
    res.sample({"short_form_case": sorted(sorted(short_tb[0].paths, key=sorted)[0])})

    # ---------------------------------------------------------------- fields
    adt = prog.adts.get(V3)
    names = [f["name"] for f in adt["variants"][0]["fields"]]
    site_fields = {}
    for (bb, t) in an.ok_sites():
        st = strip(t[2][0])
        if st[0] != "aggr":
            raise AnchorMissing("Ok value is not a struct aggregate")
        which = "fields_short" if bb == short_tb[0].site else "fields_full"
        got = {}
        for n, op in zip(names, st[2]):
            p = sy.poly(op)
            s = str(p) if p is not None else sy.name(op)
            for a, b in alias:
                s = s.replace(a, b)
            got[n] = s
        site_fields[which] = got
        for n, w in spec[which].items():
            if got.get(n) == w:
                res.hit(R2)
                res.oblige(True, "field-provenance")
            else:
                res.oblige(False)
                res.violate(R2, FN, "%s:%s" % (which, n), "field `%s` is decoded as %s; the documented layout says %s" % (n, got.get(n), w), body.where(bb))
        # channel_id: A16(try(u8@5)) | A32(try(u8@5 - 128))
        ci = names.index("channel_id")
        t_ch = strip(st[2][ci])
        chans = {}
        if t_ch[0] == "var":
            for d in sy.var_defs(t_ch[1]) or []:
                d = strip(d)
                if d[0] == "aggr" and len(d[2]) == 1:
                    chans[d[1].split("::")[-1]] = sy.name(d[2][0])
        if chans == spec["channel_id"]:
            res.hit(R2)
        else:
            res.violate(R2, FN, "%s:channel_id" % which, "channel_id is built as %s, expected %s" % (chans, spec["channel_id"]), body.where(bb))
        for n in names:
            if n not in spec[which] and n != "channel_id":
                res.violate(R2, FN, "field-extra:%s" % n, "struct field `%s` is not in the spec" % n, body.where(bb))

    # ---------------------------------------------------------------- coverage
    for which, tb, Lval in (("fields_short", short_tb[0], 16), ("fields_full", full_tb[0], None)):
        cov = {}      # byte-position string -> bitmask
        regions = []
        items = list(site_fields.get(which, {}).values()) + [spec["channel_id"]["A16"]]
        for p in tb.paths:
            items += list(p)
        for it in items:
            for (pos, mask) in cover_of(it):
                cov[pos] = cov.get(pos, 0) | mask
            for m in re.finditer(r"chunks_exact\(\[(\d+)\.\.(L[-+]\d+)\)", it):
                regions.append((int(m.group(1)), m.group(2)))
        for ub in spec["unused_footer_bits"]:
            pos, bit = ub.rsplit(".", 1)
            cov[pos] = cov.get(pos, 0) | (1 << int(bit))
        missing = []
        if Lval is not None:
            def norm(pos):
                m = re.match(r"^L([-+]\d+)?$", pos)
                return str(Lval + int(m.group(1) or 0)) if m else pos
            c2 = {}
            for k, v in cov.items():
                c2[norm(k)] = c2.get(norm(k), 0) | v
            for b in range(Lval):
                if c2.get(str(b), 0) != 255:
                    missing.append("byte %d (mask %02x)" % (b, c2.get(str(b), 0)))
        else:
            for b in range(32):
                if cov.get(str(b), 0) != 255:
                    missing.append("byte %d (mask %02x)" % (b, cov.get(str(b), 0)))
            if (32, "L-4") not in regions:
                missing.append("sample region [32..L-4)")
            for k in ("L-4", "L-3", "L-2", "L-1"):
                if cov.get(k, 0) != 255:
                    missing.append("byte %s (mask %02x)" % (k, cov.get(k, 0)))
        if missing:
            res.violate(R1, FN, "coverage:%s" % which, "input bits neither stored, forced nor declared unused: %s" % ", ".join(missing), body.where(tb.site))
        else:
            res.hit(R1)

    # ---------------------------------------------------------------- id conversions
    for fn, want in spec["id_ranges"].items():
        allowed, stored, unknown = int_conversion_ranges(prog, fn)
        res.functions.add(fn)
        got = ranges_of(allowed)
        ok = got == want and not unknown and all(s == "arg1" for s in stored)
        res.oblige(ok, "finite-domain")
        if ok:
            res.hit(R5)
        else:
            res.violate(R5, fn, "range", "conversion accepts %s (stores %s), spec says %s%s" % (got, stored, want, "; unrecognised guards %s" % unknown[:2] if unknown else ""), prog.bodies[fn].where())

    check_lookup(prog, res, R5, "<alpha_g_detector::alpha16::BoardId as std::convert::TryFrom<[u8; 6]>>::try_from",
                 "alpha_g_detector::alpha16::ALPHA16BOARDS", 1, 2)
    # ---------------------------------------------------------------- accessors
    check_accessors(prog, res, R4, V3, WRAP, names,
                    accessor_of={"suppression_enabled": "is_suppression_enabled"},
                    consts={"packet_type": 1, "packet_version": 3})
    wb = prog.body(WRAP_FN)
    if len([1 for _, t in wb.calls() if cname(t) == FN]) != 1:
        res.violate(R4, WRAP_FN, "forward", "AdcPacket::try_from does not call AdcV3Packet::try_from exactly once", wb.where())
    res.functions.add(WRAP_FN)
    res.undecided = ["accept table comparison is exact-form after normalisation: a semantically equal rewrite that merges/splits accept paths differently needs the spec table updated"]


def cover_of(s):
    """(byte-position string, bitmask) pairs for every input field name occurring in a canonical string"""
    out = []
    for m in re.finditer(r"(u8|le16|be16|le32|be32|le64|be64)@(L[-+]\d+|\d+|L)(\[(\d+)\.\.(\d+)\])?", s):
        kind, pos = m.group(1), m.group(2)
        nbytes = 1 if kind == "u8" else int(kind[2:]) // 8
        lo = int(m.group(4)) if m.group(3) else 0
        hi = int(m.group(5)) if m.group(3) else nbytes * 8
        mm = re.match(r"^(L)?([-+]?\d+)?$", pos)
        base_L = bool(mm.group(1))
        base = int(mm.group(2) or 0)
        for j in range(lo, hi):
            bo = (j // 8) if (kind.startswith("le") or kind == "u8") else (nbytes - 1 - j // 8)
            k = base + bo
            key = ("L%+d" % k if k else "L") if base_L else str(k)
            out.append((key, 1 << (j % 8)))
    for m in re.finditer(r"bit (L[-+]\d+|\d+)\.(\d) = ", s):
        out.append((m.group(1), 1 << int(m.group(2))))
    for m in re.finditer(r"(?<![\w@\]])\[(\d+)\.\.(\d+)\)", s):        # a constant region of the input, used whole
        for k in range(int(m.group(1)), int(m.group(2))):
            out.append((str(k), 255))
    return out
