"""Shared driver of the panic-freedom packs (C01, C09): scope -> obligations -> verdicts -> report."""
import collections
import re

from . import oblig, audited
from .terms import short, cname

# ---------------------------------------------------------------------------------------------------------
# External callees (std / winnow / crc32c) with *no* panic path for any argument value, by reading their
# documentation/source.  Allocation failure (abort on OOM) is outside the property.  A callee that is neither here
# nor covered by an obligation rule (oblig.CALL_RULES) is reported as unmodelled (fail closed).
TOTAL = {
    # `?` glue and conversions that return Result/Option
    "Try::branch": "glue", "FromResidual::from_residual": "glue", "TryInto::try_into": "returns Result",
    "TryFrom::try_from": "returns Result", "Into::into": "infallible conversion", "From::from": "infallible conversion",
    "Option::<T>::ok_or": "pure", "Option::<T>::ok_or_else": "pure", "Option::<&T>::copied": "pure", "Option::<T>::ok": "pure",
    "Result::<T, E>::ok": "pure", "Option::<T>::map": "pure (closure analysed as its own body)", "Result::<T, E>::map_err": "pure (closure analysed)",
    "Option::<T>::is_some": "pure", "Option::<T>::is_none": "pure", "Result::<T, E>::is_ok": "pure", "Result::<T, E>::is_err": "pure",
    "Option::<T>::map_or": "pure (closure analysed)", "Option::<T>::and_then": "pure (closure analysed)", "Result::<T, E>::map": "pure (closure analysed)",
    "Option::<T>::unwrap_or": "pure", "Option::<T>::filter": "pure (closure analysed)", "Option::<T>::take": "pure",
    "Option::<T>::as_ref": "pure", "Option::<T>::as_mut": "pure", "Option::<&T>::cloned": "pure", "Option::<T>::zip": "pure",
    "Option::<T>::unwrap_or_default": "pure", "Option::<T>::ok_or_else": "pure (closure analysed)", "Option::<T>::is_some_and": "pure (closure analysed)",
    "Option::<T>::unwrap_or_else": "pure (closure analysed)", "Result::<T, E>::unwrap_or": "pure", "Option::<T>::or": "pure",
    # slices, strings, vectors: observers and allocation-only operations
    "<impl [T]>::len": "pure", "<impl str>::len": "pure", "Vec::<T, A>::len": "pure", "<impl [T]>::iter": "pure", "<impl [T]>::iter_mut": "pure",
    "IntoIterator::into_iter": "pure", "Deref::deref": "pure (Vec/String/lazy_static deref; lazy initialisers are census-only, see DESIGN)",
    "DerefMut::deref_mut": "pure", "<impl str>::chars": "pure", "<impl str>::bytes": "pure", "<impl str>::starts_with": "pure",
    "<impl str>::as_bytes": "pure", "<impl str>::strip_prefix": "pure", "<impl str>::is_empty": "pure", "<impl [T]>::is_empty": "pure",
    "<impl [T]>::to_vec": "alloc only", "<impl [T]>::concat": "alloc only", "<impl [T]>::last": "pure", "<impl [T]>::first": "pure", "<impl [T]>::split_last": "pure", "<impl [T]>::split_first": "pure",
    "<impl [T]>::get": "returns Option", "<impl [T]>::contains": "pure", "<impl [T]>::iter().rev": "pure",
    "Vec::<T>::new": "pure", "Vec::<T, A>::push": "alloc only", "Vec::<T, A>::is_empty": "pure", "Vec::<T, A>::extend_from_slice": "alloc only",
    "Vec::<T, A>::append": "alloc only", "Vec::<T, A>::pop": "pure", "Vec::<T, A>::clear": "pure", "Vec::<T, A>::as_slice": "pure",
    "Vec::<T, A>::retain": "pure (closure analysed)", "Vec::<T, A>::iter": "pure", "Vec::<T, A>::sort": "total order of derived Ord", "Vec::<T, A>::extend": "alloc only", "Extend::extend": "alloc only (the consumed iterator's adapters are listed separately; closures are analysed)",
    "<impl [T]>::sort_unstable_by_key": "panics only if the key's Ord is not total; keys are integers / derived Ord",
    "<impl [T]>::sort_by_key": "same as sort_unstable_by_key", "<impl [T]>::sort_unstable": "derived Ord", "<impl [T]>::sort": "derived Ord",
    "ToString::to_string": "alloc + Display of str/integers", "Clone::clone": "derived/std clone", "ToOwned::to_owned": "alloc only",
    "String::new": "pure", "<impl str>::to_string": "alloc only", "String::push_str": "alloc only", "String::push": "alloc only",
    "Default::default": "derived/std default",
    # integers and chars
    "<impl u16>::from_le_bytes": "pure", "<impl u32>::from_le_bytes": "pure", "<impl u64>::from_le_bytes": "pure", "<impl u128>::from_le_bytes": "pure",
    "<impl i16>::from_le_bytes": "pure", "<impl i32>::from_le_bytes": "pure", "<impl u16>::from_be_bytes": "pure", "<impl u32>::from_be_bytes": "pure",
    "<impl u64>::from_be_bytes": "pure", "<impl i16>::from_be_bytes": "pure", "<impl i32>::from_be_bytes": "pure",
    "<impl u8>::to_le_bytes": "pure", "<impl u16>::to_le_bytes": "pure", "<impl u32>::to_le_bytes": "pure",
    "<impl u128>::leading_zeros": "pure", "<impl usize>::saturating_sub": "pure", "<impl usize>::wrapping_sub": "pure",
    "<impl i16>::checked_sub": "returns Option", "<impl i32>::checked_sub": "returns Option", "<impl u32>::checked_sub": "returns Option",
    "<impl usize>::checked_sub": "returns Option", "<impl u32>::wrapping_sub": "pure", "<impl u32>::wrapping_add": "pure",
    "<impl usize>::min": "pure", "<impl usize>::max": "pure", "Ord::min": "pure", "Ord::max": "pure", "Ord::cmp": "derived/primitive Ord",
    "<impl u8>::is_ascii_digit": "pure", "<impl u32>::count_ones": "pure", "<impl u16>::count_ones": "pure", "<impl u128>::count_ones": "pure",
    "<impl char>::is_ascii_alphanumeric": "pure", "<impl char>::is_ascii_lowercase": "pure", "<impl char>::is_ascii_digit": "pure",
    "<impl char>::is_ascii_uppercase": "pure",
    "PartialEq::eq": "derived/primitive", "PartialEq::ne": "derived/primitive", "PartialOrd::lt": "primitive", "PartialOrd::le": "primitive",
    "PartialOrd::gt": "primitive", "PartialOrd::ge": "primitive", "PartialOrd::partial_cmp": "primitive/derived",
    "RangeInclusive::<Idx>::new": "pure", "RangeInclusive::<Idx>::contains": "pure", "Range::<Idx>::contains": "pure",
    "BitXor::bitxor": "bit operation on primitives (operator overloads of workspace types resolve to workspace bodies)",
    "BitAnd::bitand": "bit operation on primitives", "BitOr::bitor": "bit operation on primitives", "Not::not": "bit operation on primitives",
    "mem::size_of": "const", "mem::swap": "pure", "mem::take": "pure", "mem::replace": "pure",
    # iterator adapters: lazy constructors; consumers run the closures (analysed as their own bodies) and finite sources
    "Iterator::next": "advances a std iterator", "Iterator::chain": "lazy", "Iterator::map": "lazy", "Iterator::collect": "alloc only",
    "Iterator::position": "index count bounded by the in-memory length", "Iterator::enumerate": "lazy", "Iterator::take": "lazy",
    "Iterator::rev": "lazy", "Iterator::all": "consumer", "Iterator::any": "consumer", "Iterator::find": "consumer", "Iterator::fold": "consumer",
    "Iterator::filter": "lazy", "Iterator::filter_map": "lazy", "Iterator::flatten": "lazy", "Iterator::flat_map": "lazy", "Iterator::zip": "lazy",
    "Iterator::skip": "lazy", "Iterator::copied": "lazy", "Iterator::cloned": "lazy", "Iterator::count": "bounded by the in-memory length",
    "Iterator::max": "consumer", "Iterator::min": "consumer", "Iterator::last": "consumer", "Iterator::for_each": "consumer", "Iterator::peekable": "lazy",
    "Iterator::max_by_key": "consumer", "Iterator::min_by_key": "consumer", "Iterator::unzip": "alloc only", "Iterator::skip_while": "lazy",
    "Iterator::take_while": "lazy", "Iterator::by_ref": "pure", "Iterator::try_fold": "consumer", "Iterator::find_map": "consumer",
    "Iterator::inspect": "lazy", "DoubleEndedIterator::next_back": "advances a std iterator", "iter::repeat": "lazy", "iter::zip": "lazy",
    "iter::once": "lazy", "iter::empty": "lazy", "ExactSizeIterator::len": "pure", "Iterator::nth": "consumer", "Iterator::sum": None,  # rule
    # maps
    "HashMap::<K, V>::new": "pure", "HashMap::<K, V, S, A>::insert": "alloc only", "HashMap::<K, V, S, A>::get": "returns Option",
    "HashMap::<K, V, S, A>::contains_key": "pure", "HashMap::<K, V, S, A>::entry": "alloc only", "HashMap::<K, V, S, A>::into_values": "pure",
    "HashMap::<K, V, S, A>::remove": "returns Option", "HashMap::<K, V, S, A>::len": "pure", "HashMap::<K, V, S, A>::is_empty": "pure",
    "HashMap::<K, V, S, A>::iter": "pure", "HashMap::<K, V, S, A>::values": "pure", "HashMap::<K, V, S, A>::keys": "pure",
    "HashMap::<K, V, S, A>::get_mut": "returns Option", "HashMap::<K, V, S, A>::into_iter": "pure",
    "Entry::<'a, K, V>::or_default": "alloc only", "Entry::<'a, K, V>::or_insert_with": "alloc only (closure analysed)",
    "<impl [T; N]>::map": "pure (closure analysed as its own body)",
    "hash_map::Entry::<'a, K, V, A>::or_default": "alloc only", "hash_map::Entry::<'a, K, V, A>::or_insert_with": "alloc only (closure analysed)",
    "hash_map::Entry::<'a, K, V, A>::or_insert": "alloc only", "hash_map::Entry::<'a, K, V>::or_default": "alloc only",
    "BTreeMap::<K, V>::new": "pure", "BTreeMap::<K, V, A>::insert": "alloc only; key Ord is derived", "BTreeMap::<K, V, A>::get": "returns Option",
    "BTreeMap::<K, V, A>::entry": "alloc only", "BTreeMap::<K, V, A>::into_values": "pure", "BTreeMap::<K, V, A>::values": "pure",
    "BTreeMap::<K, V, A>::into_iter": "pure", "BTreeMap::<K, V, A>::iter": "pure", "BTreeMap::<K, V, A>::len": "pure",
    "HashSet::<T>::new": "pure", "HashSet::<T, S, A>::insert": "alloc only", "HashSet::<T, S, A>::contains": "pure",
    "BTreeSet::<T>::new": "pure", "BTreeSet::<T, A>::insert": "alloc only", "BTreeSet::<T, A>::contains": "pure",
    # external crates
    "crc32c::crc32c": "total on any slice (table-driven / hardware CRC; external crate, trusted)",
    "crc32c::crc32c_append": "total on any slice (continues a CRC; external crate, trusted)",
    # winnow: constructors are pure; running a parser is governed by the C07 grammar premises
    "Parser::parse_next": "winnow combinators report failure as Err; the one debug assertion (repeat without progress) is excluded by C07.R3 (every element consumes >= 4 bytes)",
    "Parser::value": "constructor", "Parser::map": "constructor", "Parser::void": "constructor", "Parser::verify": "constructor",
    "Parser::try_map": "constructor", "combinator::trace": "constructor", "combinator::repeat": "constructor", "combinator::separated_foldl1": "constructor",
    "combinator::alt": "constructor", "token::take": "constructor", "token::literal": "constructor", "token::tag": "constructor", "combinator::preceded": "constructor", "combinator::terminated": "constructor",
    "binary::le_u32": "constructor", "binary::u32": "constructor", "Parser::by_ref": "constructor", "Parser::take": "constructor",
}
del TOTAL["Iterator::sum"]


# integer methods that cannot panic for any argument (wrapping/saturating/checked/overflowing families, bit counting, byte
# conversions, comparisons); `pow`, `abs`, `neg`, `div_euclid`, `rem_euclid`, `next_power_of_two` are NOT here
TOTAL_RE = re.compile(r"^<impl (?:u|i)(?:8|16|32|64|128|size)>::(?:saturating_\w+|wrapping_(?:add|sub|mul|neg|shl|shr)|checked_\w+|overflowing_\w+|"
                      r"count_ones|count_zeros|leading_zeros|trailing_zeros|leading_ones|trailing_ones|swap_bytes|reverse_bits|rotate_left|rotate_right|"
                      r"to_[lbn]e_bytes|from_[lbn]e_bytes|to_le|to_be|from_le|from_be|min|max|clamp|abs_diff|is_power_of_two|signum|is_positive|is_negative|"
                      r"unsigned_abs|cast_signed|cast_unsigned)$|^<impl f(?:32|64)>::\w+$|^uom::")


class Scope:
    def __init__(self, prog, bodies, census_only):
        self.prog = prog
        self.bodies = bodies            # list of def paths analysed
        self.census_only = census_only  # list of def paths excluded as input-independent


def is_derive_or_fmt(b):
    p = b.path
    if b.kind == "Closure" and b.j.get("parent") in b.prog.bodies and b.j.get("parent") != p:
        if is_derive_or_fmt(b.prog.bodies[b.j["parent"]]):
            return True
    tr = b.j.get("impl_trait") or ""
    if tr.startswith(("std::fmt", "std::clone", "std::cmp", "std::hash", "std::error", "std::default", "std::marker")):
        return True
    if "serde" in p or "_::" in p or "::tests::" in p:
        return True
    return False


def run_scope(prog, res, scope, rules, audited_rules=(), prefix="C01", undecided_fns=()):
    """Collect and discharge the obligations of every body in scope; report through `rules`:
    rules = dict(assert=RID, call=RID, panic=RID, loop=RID, callee=RID)"""
    classes = collections.Counter()
    loops = collections.Counter()
    callees = collections.Counter()
    unmodelled = {}
    used = {}
    opens = []
    per_fn_ord = collections.Counter()
    for p in scope.bodies:
        b = prog.bodies[p]
        res.functions.add(p)
        ctx = oblig.Ctx(prog, b)
        obs = oblig.collect(ctx)
        obs.sort(key=lambda o: (o.kind, o.desc, _line(o.where), o.bb))
        for o in obs:
            oblig.discharge(ctx, o, audited=audited_rules)
            per_fn_ord[(p, o.kind, o.desc if o.kind != "loop" else "loop")] += 1
            o.ordinal = per_fn_ord[(p, o.kind, o.desc if o.kind != "loop" else "loop")]
            ok = o.verdict != "OPEN"
            cls = _cls(o)
            res.oblige(ok, cls)
            rid = rules[o.kind]
            res.hit(rid)
            if o.kind == "loop" and ok:
                loops[o.how.split(":")[0][:60]] += 1
            if ok:
                classes[cls] += 1
                if o.verdict == "BY-AUDITED-IMPLICATION":
                    used.setdefault(o.how.split(":")[0], set()).add("%s %s" % (short(p), o.desc))
            else:
                opens.append(o)
                site = "%s:%s#%d" % (o.kind, o.desc if o.kind != "loop" else "loop", o.ordinal)
                res.violate(rid, p, site, "%s `%s` in %s is not discharged: %s" % (
                    {"assert": "MIR assert", "call": "panicking call", "panic": "explicit panic", "loop": "loop"}[o.kind], o.desc, short(p), o.how[:300]), o.where)
        for k, v in ctx.used_audited.items():
            used.setdefault(k, set()).update(v)
        # callee census
        for bb, t in b.calls():
            r = t.get("resolved") or t.get("callee") or "<indirect>"
            if r in prog.bodies or (t.get("callee") in prog.bodies):
                continue
            s = short(cname(t))
            res.call_sites += 1
            callees[s] += 1
            if s in oblig.CALL_RULES or oblig.INT_OP_CALL.match(t.get("resolved") or ""):
                continue
            callee = t.get("resolved") or t.get("callee") or ""
            if "core::panicking" in callee or "std::rt::begin_panic" in callee:
                continue
            if callee.startswith(("core::fmt::", "std::fmt::", "alloc::fmt::")) or s.startswith(("fmt::", "Arguments::")) or s == "fmt::format":
                continue
            if s in TOTAL or TOTAL_RE.match(s):
                continue
            if r.startswith(("alpha_g_", "<alpha_g_")):
                # workspace item without MIR in the facts (trait method resolved to a derive etc.)
                if any(x in r for x in ("as std::clone::Clone", "as std::cmp::", "as std::fmt::", "as std::hash::", "as std::default::Default")):
                    continue
            unmodelled.setdefault(s, []).append((p, b.where(bb)))
    rid = rules["callee"]
    for s, sites in sorted(unmodelled.items()):
        res.violate(rid, sites[0][0], "callee:%s" % s, "external callee `%s` (%d site(s), first in %s) has neither a panic rule nor an audited-total entry" % (
            s, len(sites), short(sites[0][0])), sites[0][1], kind="unmodelled")
    res.hit(rid, len(callees) - len(unmodelled))
    res.extra["discharge_classes"] = dict(classes)
    res.extra["loop_classes"] = dict(loops)
    res.extra["external_callees"] = {"distinct": len(callees), "call_sites": sum(callees.values()),
                                     "with_panic_rule": sorted(s for s in callees if s in oblig.CALL_RULES or s.startswith("int-op")),
                                     "audited_total": len([s for s in callees if s in TOTAL])}
    res.extra["audited_implications_used"] = {k: sorted(v)[:12] for k, v in sorted(used.items())}
    res.extra["census_only_bodies"] = sorted(scope.census_only)
    return opens, used


def _line(where):
    m = re.search(r":(\d+)$", where or "")
    return int(m.group(1)) if m else 0


def _cls(o):
    h = o.how or ""
    if o.verdict == "BY-AUDITED-IMPLICATION":
        return "audited:" + h.split(":")[0]
    if o.kind == "loop":
        return "loop:" + h.split(":")[0].split(" ")[0][:40]
    h = h.split("(")[0].split(":")[0].strip()
    return "%s/%s" % (o.kind, h[:40] or "auto")
