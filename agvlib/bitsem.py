"""Semantic signatures of small bit-level expressions over ONE integer variable.

`x & 0x80 == 0x80`, `x & 0x80 != 0`, `x >= 0x80` (x: u8) are the same predicate; `t & 0xFFFFFE` and
`(t >> 1 << 1) & 0xFFFFFF` the same value.  Instead of comparing spellings, the expression is evaluated exactly over the
variable bits it can depend on (a per-bit dependency analysis bounds that set; at most 16 bits are enumerated) and
rendered canonically:
  * boolean:  `b{7}=1`            (essential bits, satisfying values of the tuple of those bits)
  * integer:  `sel{1..23<-1..23}` (every result bit is a constant or a copy of a variable bit), else a table digest
Returns None when the expression is outside the fragment or depends on more than 16 bits.
"""
import hashlib

from .terms import strip, short

MAX_BITS = 16
CMP = {"Eq": lambda a, b: a == b, "Ne": lambda a, b: a != b, "Lt": lambda a, b: a < b, "Le": lambda a, b: a <= b,
       "Gt": lambda a, b: a > b, "Ge": lambda a, b: a >= b}
TYW = {"u8": 8, "u16": 16, "u32": 32, "u64": 64, "usize": 64, "u128": 128, "i8": 8, "i16": 16, "i32": 32, "i64": 64, "isize": 64, "bool": 1}


class Outside(Exception):
    pass


def _norm(t):
    """look through value-preserving wrappers but keep casts (they truncate)"""
    while True:
        if t[0] in ("ref", "deref"):
            t = t[1]
            continue
        if t[0] == "call" and len(t[2]) == 1 and short(t[1]) in ("From::from", "Into::into", "Clone::clone"):
            t = t[2][0]
            continue
        return t


def deps(t, is_var, width, depth=0):
    """per result bit: frozenset of variable bits it may depend on (empty = constant); list of length W"""
    t = _norm(t)
    if depth > 24:
        raise Outside()
    if is_var(t):
        return [frozenset([i]) for i in range(width)]
    k = t[0]
    if k == "const" and isinstance(t[1], (int, bool)):
        return [frozenset()] * 128
    if k == "cast":
        d = deps(t[2], is_var, width, depth + 1)
        w = TYW.get(t[3])
        if w is None:
            raise Outside()
        return (d + [frozenset()] * 128)[:w]
    if k == "un" and t[1] == "Not":
        return deps(t[2], is_var, width, depth + 1)
    if k == "bin" and len(t) == 4:
        op = t[1]
        a, b = _norm(t[2]), _norm(t[3])
        if op in ("BitAnd", "BitOr", "BitXor"):
            da, db = deps(a, is_var, width, depth + 1), deps(b, is_var, width, depth + 1)
            n = max(len(da), len(db))
            da, db = da + [frozenset()] * (n - len(da)), db + [frozenset()] * (n - len(db))
            out = [x | y for x, y in zip(da, db)]
            if op == "BitAnd":
                for side, other in ((a, db), (b, da)):
                    if side[0] == "const" and isinstance(side[1], int):
                        out = [other[i] if (side[1] >> i) & 1 else frozenset() for i in range(n)]
            return out
        if op in ("Shl", "Shr", "ShlUnchecked", "ShrUnchecked"):
            if not (b[0] == "const" and isinstance(b[1], int)):
                raise Outside()
            da = deps(a, is_var, width, depth + 1)
            s = b[1]
            if op.startswith("Shl"):
                return [frozenset()] * s + da
            return da[s:] + [frozenset()] * s
        if op in CMP:
            da, db = deps(a, is_var, width, depth + 1), deps(b, is_var, width, depth + 1)
            u = frozenset().union(*da) | frozenset().union(*db)
            return [u]
        if op in ("Add", "Sub", "AddUnchecked", "SubUnchecked", "AddWithOverflow", "SubWithOverflow"):
            da, db = deps(a, is_var, width, depth + 1), deps(b, is_var, width, depth + 1)
            n = max(len(da), len(db))
            da, db = da + [frozenset()] * (n - len(da)), db + [frozenset()] * (n - len(db))
            out, acc = [], frozenset()
            for x, y in zip(da, db):
                acc = acc | x | y
                out.append(acc)
            return out
    if k == "field" and t[2] == 0 and strip(t[1])[0] == "bin" and strip(t[1])[1].endswith("WithOverflow"):
        return deps(strip(t[1]), is_var, width, depth + 1)
    raise Outside()


def ev(t, is_var, v, depth=0):
    t = _norm(t)
    if depth > 24:
        raise Outside()
    if is_var(t):
        return v
    k = t[0]
    if k == "const" and isinstance(t[1], (int, bool)):
        return int(t[1])
    if k == "cast":
        w = TYW.get(t[3])
        if w is None:
            raise Outside()
        return ev(t[2], is_var, v, depth + 1) & ((1 << w) - 1)
    if k == "un" and t[1] == "Not":
        x = ev(t[2], is_var, v, depth + 1)
        if isinstance(x, bool):
            return not x
        raise Outside()
    if k == "bin" and len(t) == 4:
        op = t[1]
        a, b = ev(t[2], is_var, v, depth + 1), ev(t[3], is_var, v, depth + 1)
        if op in CMP:
            return bool(CMP[op](int(a), int(b)))
        a, b = int(a), int(b)
        if op == "BitAnd":
            return a & b
        if op == "BitOr":
            return a | b
        if op == "BitXor":
            return a ^ b
        if op.startswith("Shl"):
            return (a << b) & ((1 << 128) - 1)
        if op.startswith("Shr"):
            return a >> b
        if op.startswith("Add"):
            return a + b
        if op.startswith("Sub"):
            if a < b:
                raise Outside()
            return a - b
    if k == "field" and t[2] == 0 and strip(t[1])[0] == "bin" and strip(t[1])[1].endswith("WithOverflow"):
        return ev(strip(t[1]), is_var, v, depth + 1)
    raise Outside()


def slice_bits(t, is_var, width, depth=0):
    """exact per-bit description for the bit-sliced fragment (and/or/xor with constants, shifts, casts):
    list of 0 | 1 | ("v", j) | ("n", j); raises Outside otherwise"""
    t = _norm(t)
    if depth > 24:
        raise Outside()
    if is_var(t):
        return [("v", i) for i in range(width)]
    k = t[0]
    if k == "const" and isinstance(t[1], int) and not isinstance(t[1], bool):
        return [(t[1] >> i) & 1 for i in range(max(t[1].bit_length(), 1))]
    if k == "cast":
        w = TYW.get(t[3])
        if w is None:
            raise Outside()
        return slice_bits(t[2], is_var, width, depth + 1)[:w]
    if k == "bin" and len(t) == 4:
        op = t[1]
        a, b = _norm(t[2]), _norm(t[3])
        if op in ("BitAnd", "BitOr", "BitXor"):
            sa, sb = slice_bits(a, is_var, width, depth + 1), slice_bits(b, is_var, width, depth + 1)
            n = max(len(sa), len(sb))
            sa, sb = sa + [0] * (n - len(sa)), sb + [0] * (n - len(sb))
            out = []
            for x, y in zip(sa, sb):
                if isinstance(x, int) and isinstance(y, int):
                    out.append({"BitAnd": x & y, "BitOr": x | y, "BitXor": x ^ y}[op])
                    continue
                if isinstance(y, int):
                    x, y = y, x
                if not isinstance(x, int):
                    if x == y and op in ("BitAnd", "BitOr"):
                        out.append(x)
                        continue
                    raise Outside()
                # x const, y symbolic
                if op == "BitAnd":
                    out.append(y if x else 0)
                elif op == "BitOr":
                    out.append(1 if x else y)
                else:
                    out.append((("n" if y[0] == "v" else "v"), y[1]) if x else y)
            return out
        if op in ("Shl", "Shr", "ShlUnchecked", "ShrUnchecked") and b[0] == "const" and isinstance(b[1], int):
            sa = slice_bits(a, is_var, width, depth + 1)
            return ([0] * b[1] + sa) if op.startswith("Shl") else sa[b[1]:]
    raise Outside()


def _sel(bits):
    copies, neg, ones = {}, {}, []
    for i, x in enumerate(bits):
        if x == 1:
            ones.append(i)
        elif isinstance(x, tuple):
            (copies if x[0] == "v" else neg)[i] = x[1]
    parts = []
    for tag, mp in (("", copies), ("~", neg)):
        by_shift = {}
        for i, src in mp.items():
            by_shift.setdefault(i - src, []).append(i)
        for sh in sorted(by_shift):
            parts.append("%s%s<-%s" % (tag, _ranges(by_shift[sh]), _ranges([i - sh for i in by_shift[sh]])))
    if ones:
        parts.append("1@%s" % _ranges(ones))
    return "sel{%s}" % ";".join(parts) if parts else "0"


def _sliced_signature(t, is_var, width):
    t = _norm(t)
    neg = False
    while t[0] == "un" and t[1] == "Not":
        t = _norm(t[2])
        neg = not neg
    if t[0] == "bin" and len(t) == 4 and t[1] in ("Eq", "Ne"):
        a, b = _norm(t[2]), _norm(t[3])
        if a[0] == "const":
            a, b = b, a
        if b[0] == "const" and isinstance(b[1], int):
            sa = slice_bits(a, is_var, width)
            want = b[1]
            eq = (t[1] == "Eq") != neg
            pos, val, k = [], 0, 0
            n = max(len(sa), want.bit_length())
            sa = sa + [0] * (n - len(sa))
            for i, x in enumerate(sa):
                wb = (want >> i) & 1
                if isinstance(x, int):
                    if x != wb:
                        return "false" if eq else "true"
                    continue
                src, need = x[1], (wb if x[0] == "v" else 1 - wb)
                if src in pos:
                    j = pos.index(src)
                    if ((val >> j) & 1) != need:
                        return "false" if eq else "true"
                    continue
                pos.append(src)
                val |= need << (len(pos) - 1)
            if not pos:
                return "true" if eq else "false"
            # canonical bit order
            order = sorted(range(len(pos)), key=lambda j: pos[j])
            v2 = sum(((val >> j) & 1) << i for i, j in enumerate(order))
            bits = [pos[j] for j in order]
            if eq:
                return "b{%s}=%d" % (",".join(map(str, bits)), v2)
            if len(bits) == 1:
                return "b{%d}=%d" % (bits[0], 1 - v2)
            return "b{%s}!=%d" % (",".join(map(str, bits)), v2)
        raise Outside()
    if neg:
        raise Outside()
    return _sel(slice_bits(t, is_var, width))


def _ranges(xs):
    xs = sorted(xs)
    out = []
    for x in xs:
        if out and out[-1][1] == x - 1:
            out[-1][1] = x
        else:
            out.append([x, x])
    return ",".join("%d" % a if a == b else "%d..%d" % (a, b) for a, b in out)


def signature(t, is_var, width):
    """canonical semantic rendering of t as a function of the variable, or None"""
    try:
        return _sliced_signature(t, is_var, width)
    except Outside:
        pass
    try:
        d = deps(t, is_var, width)
        support = sorted(frozenset().union(*d)) if d else []
        if len(support) > MAX_BITS:
            return None
        table = []
        for m in range(1 << len(support)):
            v = 0
            for j, bpos in enumerate(support):
                if (m >> j) & 1:
                    v |= 1 << bpos
            table.append(ev(t, is_var, v))
    except Outside:
        return None
    if not table:
        return None
    # essential bits
    ess = []
    for j in range(len(support)):
        if any(table[m] != table[m ^ (1 << j)] for m in range(len(table))):
            ess.append(j)

    def project(m):
        return sum(((m >> j) & 1) << i for i, j in enumerate(ess))
    if all(isinstance(x, bool) for x in table):
        if not ess:
            return "true" if table[0] else "false"
        sat = sorted(set(project(m) for m in range(len(table)) if table[m]))
        return "b{%s}=%s" % (",".join(str(support[j]) for j in ess), _ranges(sat))
    # integer: constant bits / copies of variable bits
    nb = max(int(x).bit_length() for x in table)
    copies, ones = {}, []
    for i in range(nb):
        col = [(int(x) >> i) & 1 for x in table]
        if all(c == 0 for c in col):
            continue
        if all(c == 1 for c in col):
            ones.append(i)
            continue
        src = None
        for j in range(len(support)):
            if all(col[m] == ((m >> j) & 1) for m in range(len(table))):
                src = support[j]
                break
        if src is None:
            h = hashlib.sha1(repr([(support[j]) for j in ess]).encode() + repr([int(x) for x in table]).encode()).hexdigest()[:12]
            return "fn{bits %s}#%s" % (_ranges([support[j] for j in ess]), h)
        copies[i] = src
    parts = []
    # group copies with equal shift into ranges
    by_shift = {}
    for i, s in copies.items():
        by_shift.setdefault(i - s, []).append(i)
    for sh in sorted(by_shift):
        rs = _ranges(by_shift[sh])
        parts.append("%s<-%s" % (rs, _ranges([i - sh for i in by_shift[sh]])))
    if ones:
        parts.append("1@%s" % _ranges(ones))
    return "sel{%s}" % ";".join(parts) if parts else "0"
