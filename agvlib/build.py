"""Layer 0 orchestration: build the rustc_private driver and extract facts from
/repo's *current working tree* (keyed by a content hash of the tree)."""
import fcntl
import hashlib
import json
import os
import shutil
import subprocess
import sys
import time

VERIF = os.path.dirname(os.path.dirname(os.path.abspath(__file__)))
REPO = os.environ.get("AGV_REPO", "/repo")
CACHE = os.path.join(VERIF, ".cache")
DRIVER_SRC = os.path.join(VERIF, "tools", "driver")
DRIVER_TGT = os.path.join(CACHE, "driver-target")
DRIVER_BIN = os.path.join(DRIVER_TGT, "debug", "agv-driver")
SHIM = os.path.join(VERIF, "tools", "shim", "rustc")

WORKSPACE_CRATES = [
    "alpha_g_detector", "alpha_g_physics", "alpha_g_analysis",
    "alpha_g_vertices", "alpha_g_trg_scalers", "alpha_g_chronobox_timestamps",
    "alpha_g_odb", "alpha_g_sequencer",
]


def _run(cmd, env=None, cwd=None, quiet=True):
    e = dict(os.environ)
    e["CARGO_NET_OFFLINE"] = "true"
    if env:
        e.update(env)
    p = subprocess.run(cmd, cwd=cwd, env=e, stdout=subprocess.PIPE, stderr=subprocess.STDOUT, text=True)
    if p.returncode != 0 or not quiet:
        sys.stderr.write(p.stdout[-6000:])
    return p.returncode, p.stdout


def nightly_sysroot():
    rc, out = _run(["rustc", "+nightly", "--print", "sysroot"])
    return out.strip().splitlines()[-1]


def driver_src_hash():
    h = hashlib.sha1()
    for f in ("Cargo.toml", "rust-toolchain.toml", "src/main.rs"):
        with open(os.path.join(DRIVER_SRC, f), "rb") as fh:
            h.update(fh.read())
    return h.hexdigest()[:16]


def build_driver():
    os.makedirs(CACHE, exist_ok=True)
    stamp = os.path.join(CACHE, "driver.stamp")
    want = driver_src_hash()
    if os.path.exists(DRIVER_BIN) and os.path.exists(stamp) and open(stamp).read().strip() == want:
        return
    with open(os.path.join(CACHE, "driver.lock"), "w") as lk:
        fcntl.flock(lk, fcntl.LOCK_EX)
        if os.path.exists(DRIVER_BIN) and os.path.exists(stamp) and open(stamp).read().strip() == want:
            return
        rc, out = _run(["cargo", "build", "--offline"], env={"CARGO_TARGET_DIR": DRIVER_TGT}, cwd=DRIVER_SRC)
        if rc != 0:
            raise SystemExit("agv: driver build failed")
        with open(stamp, "w") as fh:
            fh.write(want)


def tree_hash(repo=None):
    repo = repo or REPO
    h = hashlib.sha1()
    for root, dirs, files in os.walk(repo):
        dirs[:] = sorted(d for d in dirs if d not in ("target", ".git"))
        for f in sorted(files):
            p = os.path.join(root, f)
            rel = os.path.relpath(p, repo)
            h.update(rel.encode())
            h.update(b"\0")
            try:
                with open(p, "rb") as fh:
                    h.update(hashlib.sha1(fh.read()).digest())
            except OSError:
                h.update(b"?")
    h.update(driver_src_hash().encode())
    return h.hexdigest()[:20]


def facts_dir(repo=None):
    """Return the directory holding the fact files for the current tree of
    `repo`, building them if needed."""
    repo = repo or REPO
    build_driver()
    th = tree_hash(repo)
    fdir = os.path.join(CACHE, "facts", th)
    done = os.path.join(fdir, "DONE")
    if os.path.exists(done):
        return fdir
    os.makedirs(os.path.join(CACHE, "facts"), exist_ok=True)
    with open(os.path.join(CACHE, "facts.lock"), "w") as lk:
        fcntl.flock(lk, fcntl.LOCK_EX)
        if os.path.exists(done):
            return fdir
        t0 = time.time()
        tmp = fdir + ".tmp%d" % os.getpid()
        shutil.rmtree(tmp, ignore_errors=True)
        os.makedirs(tmp)
        # Persistent dependency cache, but the workspace members are always
        # re-analysed: cargo's freshness cache would otherwise skip the wrapper.
        tgt = os.path.join(CACHE, "target")
        fp = os.path.join(tgt, "debug", ".fingerprint")
        if os.path.isdir(fp):
            for d in os.listdir(fp):
                if d.startswith("alpha_g") or d.startswith("alpha-g"):
                    shutil.rmtree(os.path.join(fp, d), ignore_errors=True)
        env = {
            "LD_LIBRARY_PATH": nightly_sysroot() + "/lib",
            "RUSTC": SHIM,
            "RUSTFLAGS": "-Zmir-opt-level=0 -Awarnings -Zallow-features=",
            "RUSTC_WORKSPACE_WRAPPER": DRIVER_BIN,
            "AGV_FACTS_DIR": tmp,
            "CARGO_TARGET_DIR": tgt,
        }
        rc, out = _run(["cargo", "+nightly", "check", "--offline", "--workspace", "--lib", "--bins"], env=env, cwd=repo)
        if rc != 0:
            # A tree that does not compile cannot be analysed: fail closed.
            shutil.rmtree(tmp, ignore_errors=True)
            raise SystemExit("agv: cargo check of %s failed; no facts" % repo)
        got = sorted(os.listdir(tmp))
        crates = set(f.rsplit("-", 1)[0] for f in got)
        missing = [c for c in WORKSPACE_CRATES if c not in crates]
        if missing:
            shutil.rmtree(tmp, ignore_errors=True)
            raise SystemExit("agv: fact files missing for crates %s (driver skipped?)" % missing)
        # normalise names: <crate>.json
        for f in got:
            c = f.rsplit("-", 1)[0]
            os.replace(os.path.join(tmp, f), os.path.join(tmp, c + ".json"))
        with open(os.path.join(tmp, "DONE"), "w") as fh:
            json.dump({"tree": th, "wall_s": round(time.time() - t0, 2), "repo": repo}, fh)
        shutil.rmtree(fdir, ignore_errors=True)
        os.replace(tmp, fdir)
        # prune old fact sets (keep the 24 newest: parallel selftest workers each hold one)
        base = os.path.join(CACHE, "facts")
        ds = sorted((os.path.getmtime(os.path.join(base, d)), d) for d in os.listdir(base) if os.path.isdir(os.path.join(base, d)))
        for _, d in ds[:-24]:
            shutil.rmtree(os.path.join(base, d), ignore_errors=True)
    return fdir
