"""Byte-level description of a buffer that a function assembles (writer side of a codec).

`a.to_le_bytes().into_iter().chain(b.to_le_bytes()).collect::<Vec<u8>>()` and
`let mut h = [0; 6]; h[0..4].copy_from_slice(&a.to_le_bytes()); h[4..6].copy_from_slice(&b.to_le_bytes());`
describe the same six bytes.  `bytes_of` returns, for a term that denotes a `[u8]` / `Vec<u8>` / `[u8; N]`, the list
of its bytes as (value name, byte index within the little-endian representation) or ("const", v) — or None when the
buffer is built in a way it does not model (fail closed in the caller)."""
import re

from .terms import strip, unmut, short, cname


def bytes_of(prog, an, sy, t, depth=0):
    if depth > 24:
        return None
    x = t
    while True:
        if x[0] in ("ref", "deref"):
            x = x[1]
            continue
        if x[0] == "cast":
            x = x[2]
            continue
        break
    if x[0] == "call":
        s = short(x[1])
        a = x[2]
        if s in ("Index::index", "IndexMut::index_mut") and len(a) == 2 and strip(a[1])[0] == "aggr" and strip(a[1])[1].endswith("RangeFull::RangeFull"):
            return bytes_of(prog, an, sy, a[0], depth + 1)
        if s in ("Iterator::collect", "IntoIterator::into_iter", "Deref::deref", "Vec::<T, A>::as_slice", "<impl [T]>::iter", "Iterator::copied",
                 "Iterator::cloned", "<impl [T]>::to_vec", "Clone::clone", "AsRef::as_ref", "Borrow::borrow") and len(a) == 1:
            return bytes_of(prog, an, sy, a[0], depth + 1)
        if s == "Iterator::chain" and len(a) == 2:
            l, r = bytes_of(prog, an, sy, a[0], depth + 1), bytes_of(prog, an, sy, a[1], depth + 1)
            return None if l is None or r is None else l + r
        m = re.match(r"^<impl ([ui])(\d+|size)>::to_(le|be|ne)_bytes$", s)
        if m and len(a) == 1 and m.group(3) != "ne":
            w = 8 if m.group(2) == "size" else int(m.group(2)) // 8
            nm = sy.arg_name(a[0])
            idx = list(range(w))
            if m.group(3) == "be":
                idx.reverse()
            return [(nm, i) for i in idx]
        return None
    if x[0] == "aggr" and x[1] == "array":
        out = []
        for e in x[2]:
            e0 = strip(e)
            if e0[0] == "const" and isinstance(e0[1], int):
                out.append(("const", e0[1]))
            else:
                out.append((sy.arg_name(e), 0))
        return out
    if x[0] == "repeat" and len(x) >= 3:
        e0 = strip(x[1])
        n = x[2]
        if e0[0] == "const" and isinstance(n, int):
            return [("const", e0[1])] * n
        return None
    if x[0] in ("var", "mut"):
        r = local_bytes(prog, an, sy, x[1], depth + 1)
        if r is None and x[0] == "mut":
            r = vec_bytes(prog, an, sy, x[1], x[2], depth + 1)
        return r
    return None


def vec_bytes(prog, an, sy, l, init, depth=0):
    """bytes of a local `Vec<u8>` that starts empty (`Vec::new()` / `with_capacity(n)`) and is filled by a straight-line
    sequence of `extend_from_slice(src)` / `push(v)` / `extend(iter)`"""
    body = an.body
    i0 = strip(init)
    if not (i0[0] == "call" and short(i0[1]) in ("Vec::<T>::new", "Vec::<T>::with_capacity")):
        return None
    reach = body.reachable()
    if any(body.blocks[b]["t"]["k"] == "switch" for b in reach if not body.blocks[b].get("cleanup")) or body.back_edges():
        return None
    cur = []
    for b in body.rpo():
        if b not in reach or body.blocks[b].get("cleanup"):
            continue
        t = body.blocks[b]["t"]
        if t["k"] != "call" or not t["args"]:
            continue
        an.terms._pos = (b, "t")
        args = [an.terms.operand(a) for a in t["args"]]
        recv = args[0]
        is_mut_ref = False
        while recv[0] in ("ref", "deref"):
            is_mut_ref = True
            recv = recv[1]
        touches = [k for k, a_ in enumerate(args) if any(y[0] == "mut" and y[1] == l for y in _walk(a_))]
        if not touches:
            continue
        s = short(cname(t))
        if touches != [0] or not (recv[0] == "mut" and recv[1] == l):
            if s in ("crc32c::crc32c", "Deref::deref", "Vec::<T, A>::as_slice", "Index::index", "Vec::<T, A>::len", "AsRef::as_ref"):
                continue
            return None
        if s in ("Deref::deref", "Vec::<T, A>::as_slice", "Index::index", "Vec::<T, A>::len", "AsRef::as_ref", "crc32c::crc32c"):
            continue
        if s == "Vec::<T, A>::extend_from_slice" and len(args) == 2:
            src = bytes_of(prog, an, sy, args[1], depth + 1)
        elif s == "Vec::<T, A>::push" and len(args) == 2:
            o = strip(args[1])
            src = [("const", o[1])] if o[0] == "const" and isinstance(o[1], int) else [(sy.arg_name(args[1]), 0)]
        elif s in ("Extend::extend", "Vec::<T, A>::extend") and len(args) == 2:
            src = bytes_of(prog, an, sy, args[1], depth + 1)
        else:
            return None
        if src is None:
            return None
        cur += src
    return cur


def local_bytes(prog, an, sy, l, depth=0):
    """bytes of a local `[u8; N]` array after the straight-line writes to it: whole assignment, `a[i] = v`,
    `a[i..j].copy_from_slice(src)`"""
    body = an.body
    ty = body.locals[l]["ty"]
    if not (ty.get("k") == "array" and ty.get("t", {}).get("k") == "int" and ty["t"].get("w") == 8):
        return None
    # the function must be straight-line (no branch decides what is written)
    reach = body.reachable()
    if any(body.blocks[b]["t"]["k"] == "switch" for b in reach if not body.blocks[b].get("cleanup")) or body.back_edges():
        return None
    cur = None
    # references to sub-slices of the array: local -> (lo, hi)
    subs = {}
    whole_refs = set()
    for b in body.rpo():
        if b not in reach or body.blocks[b].get("cleanup"):
            continue
        for si, st in enumerate(body.blocks[b]["s"]):
            if st["k"] != "assign":
                continue
            pl, rv = st["p"], st["rv"]
            an.terms._pos = (b, si)
            if pl["l"] == l and not pl["pr"]:
                v = an.terms.rvalue(rv)
                cur = bytes_of(prog, an, sy, v, depth + 1) if v[0] in ("repeat", "aggr") else None
                if cur is None:
                    return None
                continue
            if pl["l"] == l and len(pl["pr"]) == 1 and pl["pr"][0].get("k") in ("constindex", "index"):
                e = pl["pr"][0]
                if e["k"] == "constindex":
                    i = e.get("off") if not e.get("end") else None
                else:
                    it = strip(an.terms.operand({"k": "copy", "p": {"l": e["l"], "pr": []}}))
                    i = it[1] if it[0] == "const" else None
                if cur is None or i is None or not (0 <= i < len(cur)) or rv["k"] != "use":
                    return None
                o = strip(an.terms.operand(rv["o"]))
                cur[i] = ("const", o[1]) if o[0] == "const" and isinstance(o[1], int) else (sy.arg_name(an.terms.operand(rv["o"])), 0)
                continue
            if rv["k"] == "ref" and rv["p"]["l"] == l and not rv["p"]["pr"] and not pl["pr"]:
                whole_refs.add(pl["l"])
        t = body.blocks[b]["t"]
        if t["k"] == "call":
            s = short(cname(t))
            an.terms._pos = (b, "t")
            args = [an.terms.operand(a) for a in t["args"]]
            if s == "<impl [T]>::copy_from_slice" and len(args) == 2:
                d = unmut(args[0])
                if d[0] == "call" and short(d[1]) in ("IndexMut::index_mut", "Index::index") and len(d[2]) == 2:
                    basel = unmut(d[2][0])
                    r = strip(d[2][1])
                    if basel[0] in ("var", "mut") and basel[1] == l and r[0] == "aggr" and r[1].endswith("Range::Range") and len(r[2]) == 2:
                        lo, hi = sy.poly(r[2][0]), sy.poly(r[2][1])
                        src = bytes_of(prog, an, sy, args[1], depth + 1)
                        if cur is None or lo is None or hi is None or not lo.is_const() or not hi.is_const() or src is None:
                            return None
                        lo, hi = int(lo.const_value()), int(hi.const_value())
                        if not (0 <= lo <= hi <= len(cur)) or len(src) != hi - lo:
                            return None
                        cur[lo:hi] = src
                        continue
                if any(y[0] in ("var", "mut") and y[1] == l for y in _walk(d)):
                    return None
            elif any(any(y[0] == "mut" and y[1] == l for y in _walk(a_)) for a_ in args) and s not in ("crc32c::crc32c", "IndexMut::index_mut", "Index::index"):
                return None        # some other call gets the array mutably
    return cur


def _walk(t):
    from .terms import walk
    return walk(t)


def render(bs):
    """`le32(x)|u8(y)|00` — maximal runs of consecutive little-endian bytes of one value are grouped"""
    out = []
    i = 0
    while i < len(bs):
        nm, k = bs[i]
        if nm == "const":
            out.append("%02x" % k)
            i += 1
            continue
        j = i
        while j + 1 < len(bs) and bs[j + 1][0] == nm and bs[j + 1][1] == bs[j][1] + 1:
            j += 1
        n = j - i + 1
        if k == 0:
            out.append(("u8(%s)" % nm) if n == 1 else "le%d(%s)" % (8 * n, nm))
        else:
            out.append("bytes%d..%d(%s)" % (k, k + n, nm))
        i = j + 1
    return "|".join(out)
