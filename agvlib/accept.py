"""Accept tables: the set of accept paths of a decoder, each as a set of canonical atoms
(see sym.py), simplified and compared with a spec table."""
import itertools
import json
import os
from fractions import Fraction

from . import build
from .guards import analysis
from .sym import Sym, Poly, forward_paths, path_atoms, atom_key, atom_str, rel_atom, loop_iteration_paths


def split_const(p):
    """p = sign * (q) + c with q's leading coefficient positive; returns (q_key, q, sign, c)"""
    c = p.m.get((), Fraction(0))
    q = Poly({k: v for k, v in p.m.items() if k != ()})
    if not q.m:
        return None
    lead = sorted(q.m, key=lambda k: (-len(k), k))[0]
    sign = 1
    if q.m[lead] < 0:
        q = -q
        sign = -1
    return (str(q), q, sign, c)


def simplify(atoms, box=None):
    """Drop implied linear atoms; canonical order. atoms: list of atom tuples (rel atoms carry Poly).
    With `box` (symbol -> (lo, hi)) bounds that hold by the type/width of the symbols are dropped as tautologies and
    paths contradicting them are infeasible (`match x { 0..=127 => .. }` on a u8 compiles to `0 <= x && x <= 127`)."""
    groups = {}
    rest = []
    false = False
    for a in atoms:
        if a[0] == "false":
            false = True
            continue
        if a[0] != "rel":
            rest.append(a)
            continue
        p, op = a[2], a[3]
        sc = split_const(p)
        if sc is None:
            # constant atom
            c = p.m.get((), Fraction(0))
            ok = (op == ">=" and c >= 0) or (op == "==" and c == 0) or (op == "!=" and c != 0)
            if not ok:
                false = True
            continue
        key, q, sign, c = sc
        g = groups.setdefault(key, {"q": q, "lo": None, "hi": None, "eq": None, "ne": set(), "bad": False})
        # sign*q + c  op 0
        if op == ">=":
            if sign > 0:      # q >= -c
                v = -c
                g["lo"] = v if g["lo"] is None else max(g["lo"], v)
            else:             # -q + c >= 0  ->  q <= c
                g["hi"] = c if g["hi"] is None else min(g["hi"], c)
        elif op == "==":
            v = -c if sign > 0 else c
            if g["eq"] is not None and g["eq"] != v:
                g["bad"] = True
            g["eq"] = v
        else:
            v = -c if sign > 0 else c
            g["ne"].add(v)
    out = []
    for key in sorted(groups):
        g = groups[key]
        q = g["q"]
        if g["bad"]:
            false = True
        lenq = None
        if len(q.m) == 1 and list(q.m.values())[0] == 1 and len(list(q.m)[0]) == 1 and list(q.m)[0][0].startswith("len(") and list(q.m)[0][0].endswith(")"):
            lenq = list(q.m)[0][0][4:-1]
        if g["eq"] is not None:
            e = g["eq"]
            if (g["lo"] is not None and e < g["lo"]) or (g["hi"] is not None and e > g["hi"]) or e in g["ne"]:
                false = True
            if lenq is not None and e == 0:
                rest.append(("pred", "is_empty(%s)" % lenq, True))      # len(X) == 0
            else:
                out.append(rel_atom(q - Poly.const(e), "=="))
            continue
        if lenq is not None and g["hi"] is None and ((g["lo"] == 1 and not g["ne"]) or (g["lo"] in (None, 0) and g["ne"] == {0})):
            rest.append(("pred", "is_empty(%s)" % lenq, False))         # len(X) >= 1 / len(X) != 0
            continue
        if lenq is not None and g["hi"] == 0 and g["lo"] in (None, 0) and not g["ne"]:
            rest.append(("pred", "is_empty(%s)" % lenq, True))          # len(X) <= 0
            continue
        lo, hi = g["lo"], g["hi"]
        if box is not None:
            from .prover import poly_interval
            qlo, qhi = poly_interval(q, {s_: box.get(s_, (None, None)) for s_ in q.syms()})
            if lo is not None and qhi is not None and lo > qhi:
                false = True
            if hi is not None and qlo is not None and hi < qlo:
                false = True
            if lo is not None and qlo is not None and lo <= qlo:
                lo = None
            if hi is not None and qhi is not None and hi >= qhi:
                hi = None
            if lo is None and qlo is not None:
                g["ne"] = set(d for d in g["ne"] if d >= qlo)
            if hi is None and qhi is not None:
                g["ne"] = set(d for d in g["ne"] if d <= qhi)
        if box is not None and g["ne"]:
            # integer symbol ranges: `x != a` over a two-value range {a, b} is `x == b`
            from .prover import poly_interval
            qlo2, qhi2 = poly_interval(q, {s_: box.get(s_, (None, None)) for s_ in q.syms()})
            elo = qlo2 if lo is None else (lo if qlo2 is None else max(lo, qlo2))
            ehi = qhi2 if hi is None else (hi if qhi2 is None else min(hi, qhi2))
            if elo is not None and ehi is not None and 0 <= ehi - elo <= 3 and elo == int(elo) and ehi == int(ehi):
                left = [v for v in range(int(elo), int(ehi) + 1) if v not in g["ne"]]
                if not left:
                    false = True
                elif len(left) == 1:
                    lo = hi = Fraction(left[0])
                    g["ne"] = set()
        if lo is not None and hi is not None and lo > hi:
            false = True
        if lo is not None and hi is not None and lo == hi:
            out.append(rel_atom(q - Poly.const(lo), "=="))
            continue
        if box is not None and (lo is not None or hi is not None or g["ne"]) and len(q.m) == 1:
            # a constrained integer symbol with at most four values left: the value set, the same spelling that two
            # paths `x == a`, `x == b` get when merged (`flags > 1` rejected  ==  `flags != 0 && flags != 1` rejected)
            (mono, coef), = q.m.items()
            if coef == 1 and len(mono) == 1 and " " not in mono[0]:
                from .prover import poly_interval
                qlo3, qhi3 = poly_interval(q, {s_: box.get(s_, (None, None)) for s_ in q.syms()})
                elo = qlo3 if lo is None else (lo if qlo3 is None else max(lo, qlo3))
                ehi = qhi3 if hi is None else (hi if qhi3 is None else min(hi, qhi3))
                if elo is not None and ehi is not None and 1 <= ehi - elo <= 3 and elo == int(elo) and ehi == int(ehi):
                    left = [v for v in range(int(elo), int(ehi) + 1) if v not in g["ne"]]
                    if len(left) >= 2:
                        rest.append(("switch", mono[0], "in", tuple(left)))
                        continue
        if lo is not None:
            out.append(rel_atom(q - Poly.const(lo), ">="))
        if hi is not None:
            out.append(rel_atom(Poly.const(hi) - q, ">="))
        for d in sorted(g["ne"]):
            if (lo is not None and d < lo) or (hi is not None and d > hi):
                continue
            out.append(rel_atom(q - Poly.const(d), "!="))
    # character-class constraints on the same region: one atom with the intersection
    within = {}
    rest2 = []
    for a in rest:
        if a[0] == "quant" and a[1] == "within" and len(a) == 5:
            within.setdefault(a[2].rsplit(".chars", 1)[0].rsplit(".bytes", 1)[0] if a[2].endswith((".chars", ".bytes")) else a[2], []).append(a)
        else:
            rest2.append(a)
    for reg, lst in sorted(within.items()):
        if len(lst) == 1:
            rest2.append(lst[0])
            continue
        from .funeval import parse_class, class_str
        parsed = [parse_class(a[3]) for a in lst]
        if any(p_ is None for p_ in parsed) or not any(p_[2] is False or p_[0] == "elems" for p_ in parsed):
            rest2 += lst
            continue
        # at least one member is ASCII-only, so the intersection is ASCII-only and unit-free
        vals = None
        for unit, cs, na in parsed:
            cs = frozenset(v for v in cs if v < 128)
            vals = cs if vals is None else vals & cs
        rest2.append(("quant", "within", reg, "elems%s" % class_str(vals), True))
    rest = rest2
    tags = {}
    for a in rest:
        if a[0] in ("some", "none", "ok", "err"):
            tags.setdefault(a[1], set()).add(a[0])
    for nm_, tg in tags.items():
        if {"some", "none"} <= tg or {"ok", "err"} <= tg:
            false = True
    if false:
        return None
    seen = set()
    res = []
    for a in out + rest:
        k = atom_key(a)
        if k not in seen:
            seen.add(k)
            res.append(a)
    # first character of a string: `s.chars().next() == Some(c)` is `s.starts_with(c)`; with the first character known,
    # `!s.starts_with(d)` for another character says nothing more
    import re as _re
    strs = {atom_str(a): a for a in res}
    for sa, a in list(strs.items()):
        m = _re.match(r"^\((Iterator::next\(mut\(<impl str>::chars\((.*)\)\)\)) as Some\)\.0 - (\d+) == 0$", sa)
        if m and ("%s is Some" % m.group(1)) in strs:
            res = [x for x in res if x is not a and x is not strs["%s is Some" % m.group(1)]]
            res.append(("pred", "<impl str>::starts_with(%s,%s)" % (m.group(2), m.group(3)), True))
    firsts = {}
    for a in res:
        if a[0] == "pred" and a[2] is True:
            m = _re.match(r"^<impl str>::starts_with\((.*),(\d+)\)$", str(a[1]))
            if m:
                firsts[m.group(1)] = m.group(2)
    if firsts:
        keep = []
        for a in res:
            if a[0] == "pred" and a[2] is False:
                m = _re.match(r"^<impl str>::starts_with\((.*),(\d+)\)$", str(a[1]))
                if m and m.group(1) in firsts and firsts[m.group(1)] != m.group(2):
                    continue
            keep.append(a)
        res = keep
    # emptiness of `W.iter().skip(D).map(f).collect()` (however it was tested: is_empty(), len() > 0, on an iterator
    # chain or on the vector a push loop filled) is the length relation `len(W) <= D`
    res2 = []
    for a in res:
        if a[0] == "pred" and isinstance(a[1], str) and a[1].startswith("is_empty(") and a[2] in (True, False):
            ea = emptiness_atom(a[1][len("is_empty("):-1], a[2])
            if ea is not None:
                res2.append(ea)
                continue
        res2.append(a)
    return res2


def emptiness_atom(name, tr):
    """rel atom for `is_empty(name) == tr` when name is `collect(map(skip(iter(W),D),f))`, else None"""
    import re as _re
    pre = "Iterator::collect(Iterator::map(Iterator::skip(<impl [T]>::iter("
    if not name.startswith(pre):
        return None
    i_ = len(pre)
    dep_, k_ = 0, i_
    while k_ < len(name):
        if name[k_] == "(":
            dep_ += 1
        elif name[k_] == ")":
            if dep_ == 0:
                break
            dep_ -= 1
        k_ += 1
    w_ = name[i_:k_]
    rest_ = name[k_ + 1:]
    if not rest_.startswith(","):
        return None
    dep_, j_ = 0, 1
    while j_ < len(rest_):
        if rest_[j_] == "(":
            dep_ += 1
        elif rest_[j_] == ")":
            if dep_ == 0:
                break
            dep_ -= 1
        j_ += 1
    d_ = rest_[1:j_]
    if not rest_[j_ + 1:].startswith(",|x| "):
        return None
    pd_ = Poly.const(int(d_)) if _re.match(r"^\d+$", d_) else Poly.sym(d_)
    ln_ = Poly.sym("len(%s)" % w_)
    return rel_atom(pd_ - ln_, ">=") if tr else rel_atom(ln_ - pd_ - Poly.const(1), ">=")


def _case_symbols(sy, atoms, extra_strs=()):
    """symbols to case-split on: a branch-defined value phi(p|q), an `unwrap_or` default, or a small remainder
    rem(P,k) that occurs inside another expression (not merely as the atom `rem == c`)"""
    import re as _re
    strs = [atom_str(a) for a in atoms] + list(extra_strs)
    cands = []
    uw = [n for n in list(sy.sym_terms) if n.startswith(("Option::<T>::unwrap_or(", "Option::<T>::map_or(", "Option::<T>::unwrap(Iterator::find(", "Option::<T>::unwrap(Iterator::position(",
                                                         "Option::<T>::expect(Iterator::find(", "Option::<T>::expect(Iterator::position(")) and unwrap_or_cases(sy, n)]
    names = list(sy.phi_defs) + [n for n, (kind, P, k) in sy.divrem.items() if kind == "rem" and k <= 4] + uw + list(sy.b2i)
    for n in names:
        occ = [x for x in strs if n in x]
        if not occ:
            continue
        bare = _re.compile(r"^%s( - \d+)? (==|!=) 0$" % _re.escape(n))
        if n in sy.phi_defs or n in uw or n in sy.b2i or any(not bare.match(x) for x in occ):
            cands.append(n)
    # a candidate nested in another candidate's name is expanded through the outer one first
    cands = [n for n in cands if not any(n != m and n in m for m in cands)]
    return sorted(cands)[:3]


def unwrap_or_cases(sy, n):
    """`X.unwrap_or(D)` as a two-case value: (X is Some -> payload), (X is None -> D)"""
    t = sy.sym_terms.get(n)
    if t is None:
        return None
    from .terms import unmut, short as _short
    t = unmut(t)
    t_orig = t
    if t[0] == "call" and _short(t[1]) in ("Option::<T>::unwrap", "Option::<T>::expect") and t[2]:
        # `it.find(P).unwrap()` / `it.position(P).unwrap()`: the found element / index, or the panic of `None.unwrap()`
        # — two cases, like the loop that returns from inside or falls through
        F = unmut(t[2][0])
        if F[0] == "call" and _short(F[1]) in ("Iterator::find", "Iterator::position") and len(F[2]) == 2:
            from .terms import strip as _st
            fn_ = sy.name(F)
            pay = ("field", ("downcast", F, "Some"), 0)
            pp_ = sy.poly(pay)
            payload = pp_ if pp_ is not None else Poly.sym(sy.name(pay))
            return [(_st(t), payload, [("some", fn_)]), (_st(t), Poly.sym("Option::<T>::unwrap(None{})"), [("none", fn_)])]
        return None
    if t[0] == "call" and _short(t[1]) == "Option::<T>::map_or" and len(t[2]) == 3:
        # X.map_or(d, f) is X.map(f).unwrap_or(d)
        t = ("call", "core::option::Option::<T>::unwrap_or", (("call", "core::option::Option::<T>::map", (t[2][0], t[2][2]), t[3]), t[2][1]), t[3])
    if not (t[0] == "call" and _short(t[1]) == "Option::<T>::unwrap_or" and len(t[2]) == 2):
        return None
    X, D = t[2]
    pd = sy.poly(D)
    if pd is None:
        return None
    Xo = unmut(X)
    if Xo[0] == "call" and _short(Xo[1]) == "Option::<T>::or" and len(Xo[2]) == 2:
        # A.or(B).unwrap_or(d): A's payload, else B's payload, else d
        A, B = Xo[2]
        from .terms import strip as _strip0
        key0 = _strip0(unmut(sy.sym_terms.get(n)))
        pa = sy.poly(("field", ("downcast", unmut(A), "Some"), 0))
        pb = sy.poly(("field", ("downcast", unmut(B), "Some"), 0))
        if pa is not None and pb is not None:
            def _recv(x_):
                # `opt.map(f)` has the variant of `opt`
                x_ = unmut(x_)
                while x_[0] == "call" and _short(x_[1]) == "Option::<T>::map" and len(x_[2]) == 2:
                    x_ = unmut(x_[2][0])
                return x_
            an_, bn_ = sy.name(_recv(A)), sy.name(_recv(B))
            return [(key0, pa, [("some", an_)]), (key0, pb, [("none", an_), ("some", bn_)]), (key0, pd, [("none", an_), ("none", bn_)])]
    # X = Y.map(f): Some exactly when Y is Some, payload f(payload of Y)
    from .guards import closure_info, closure_ret, subst_upvars
    wrap = []
    Xs = unmut(X)
    while Xs[0] == "call" and _short(Xs[1]) == "Option::<T>::map" and len(Xs[2]) == 2:
        ci = closure_info(sy.prog, sy.an, unmut(Xs[2][1]))
        if not ci:
            break
        rets = closure_ret(sy.prog, ci[0])
        if len(rets) != 1:
            break
        wrap.append(subst_upvars(rets[0], ci[1]))
        Xs = unmut(Xs[2][0])
    pt = ("field", ("downcast", Xs, "Some"), 0)
    for body_ in reversed(wrap):
        pt = _subst_carg(body_, pt)
    X = Xs
    pp_ = sy.poly(pt)
    payload = pp_ if pp_ is not None else Poly.sym(sy.name(pt))
    xn = sy.name(X)
    from .terms import strip as _strip
    key = _strip(t_orig)       # keyed by the call term: canonical names change while nested cases are substituted
    return [(key, payload, [("some", xn)]), (key, pd, [("none", xn)])]


def _subst_carg(t, arg):
    if not isinstance(t, tuple) or not t or not isinstance(t[0], str):
        return t
    if t == ("carg", 0):
        return arg
    out = [t[0]]
    for x in t[1:]:
        if isinstance(x, tuple) and x and isinstance(x[0], str):
            out.append(_subst_carg(x, arg))
        elif isinstance(x, tuple):
            out.append(tuple(_subst_carg(y, arg) if isinstance(y, tuple) else y for y in x))
        else:
            out.append(x)
    return tuple(out)


def case_envs(sy, path, value_of=None, env=None, depth=0):
    """[(env, extra_atoms)]: the cases of the branch-defined values / small remainders / unwrap_or defaults that occur
    on this path or in the value `value_of()` computed on it (one empty case if there are none).  Nested cases
    (`a.unwrap_or(b.unwrap_or(c))`) are expanded outermost first, recursively."""
    env = dict(env or {})
    if env:
        sy.set_cases(env)
    try:
        atoms0 = path_atoms(sy, path)
        syms = _case_symbols(sy, atoms0, value_of() if value_of else ())
    finally:
        if env:
            sy.set_cases(None)
    def _done(n):
        if n in env:
            return True
        uc_ = unwrap_or_cases(sy, n) if n not in sy.phi_defs and n not in sy.divrem else None
        return bool(uc_) and uc_[0][0] in env
    syms = [n for n in syms if not _done(n)]
    if not syms or depth >= 6:
        return [(env, [])]
    choices = []
    for n in syms:
        if n in sy.phi_defs:
            defs = sy.phi_defs[n]
            guard_sets = []
            for bi, _ in defs:
                g = []
                for (d, rel, vals) in sy.an.atoms_at(bi):
                    g += sy.atoms(d, rel, vals, is_bool=True)
                guard_sets.append(g)
            keys = [set(atom_key(a) for a in g) for g in guard_sets]
            common = set.intersection(*keys) if keys else set()
            choices.append([(n, q, [a for a in g if atom_key(a) not in common]) for (bi, q), g in zip(defs, guard_sets)])
        elif n in sy.divrem:
            kind, P, k = sy.divrem[n]
            choices.append([(n, c, [rel_atom(Poly.sym(n) - Poly.const(c), "==")]) for c in range(k)])
        elif n in sy.b2i:
            # a comparison used as a number: the two truth values as cases, each with the comparison as its guard
            from .sym import cmp_to_rel
            op, pa, pb = sy.b2i[n]
            neg = {"Lt": "Ge", "Le": "Gt", "Gt": "Le", "Ge": "Lt", "Eq": "Ne", "Ne": "Eq"}[op]
            choices.append([(n, 1, [cmp_to_rel(op, pa, pb)]), (n, 0, [cmp_to_rel(neg, pa, pb)])])
        else:
            uc = unwrap_or_cases(sy, n)
            if uc:
                choices.append(uc)
    out = []
    for combo in itertools.product(*choices):
        env2 = dict(env)
        extra = []
        for n, v, e in combo:
            env2[n] = v
            extra += e
        for env3, extra3 in case_envs(sy, path, value_of, env2, depth + 1):
            out.append((env3, extra + extra3))
    return out


def case_paths(sy, path):
    """atom lists of one CFG path, split into the cases of its branch-defined values / small remainders so that
    `if n % 2 == 0 {4 + 2n} else {6 + 2n}` and `4 + 2n + 2 * (n % 2)` give the same cases"""
    out = []
    for env, extra in case_envs(sy, path):
        if env:
            sy.set_cases(env)
        try:
            ats = path_atoms(sy, path)
        finally:
            if env:
                sy.set_cases(None)
        out.append(ats + extra)
    return out


def merge_value_sets(paths):
    """Merge paths that differ only in one `q == c` atom on the same q into one path with a set atom
    `q in {c1,c2}`.  paths: list of frozenset(atom strings). Returns list of frozensets."""
    import re
    changed = True
    paths = list(set(paths))
    while changed:
        changed = False
        for i in range(len(paths)):
            for j in range(i + 1, len(paths)):
                a, b = paths[i], paths[j]
                da, db = a - b, b - a
                if len(da) == 1 and len(db) == 1:
                    x, y = next(iter(da)), next(iter(db))
                    mx = _eq_or_in(x)
                    my = _eq_or_in(y)
                    if mx and my and mx[0] == my[0]:
                        vals = sorted(set(mx[1]) | set(my[1]))
                        merged = (a & b) | {"%s in {%s}" % (mx[0], ",".join(str(v) for v in vals))}
                        paths = [p for k, p in enumerate(paths) if k not in (i, j)] + [frozenset(merged)]
                        changed = True
                        break
            if changed:
                break
    return paths


def _eq_or_in(s):
    import re
    m = re.match(r"^(\S+) in \{([-0-9,]+)\}$", s)
    if m:
        return m.group(1), [int(v) for v in m.group(2).split(",")]
    m = re.match(r"^(\S+) - (\d+) == 0$", s)
    if m:
        return m.group(1), [int(m.group(2))]
    m = re.match(r"^(\S+) \+ (\d+) == 0$", s)
    if m:
        return m.group(1), [-int(m.group(2))]
    m = re.match(r"^(\S+) == 0$", s)
    if m:
        return m.group(1), [0]
    return None


class Table:
    def __init__(self, fn, site, paths, raw_count):
        self.fn = fn
        self.site = site
        self.paths = paths          # list of frozenset(str)
        self.raw_count = raw_count

    def common(self):
        c = None
        for p in self.paths:
            c = set(p) if c is None else c & p
        return c or set()


def accept_tables(prog, fn_path, sites="ok", alias=None, limit=20000):
    """One Table per accept site (Ok(..) / Some(..) assignment to the return place)."""
    body = prog.body(fn_path)
    an = analysis(prog, body)
    sp = 1 if body.argc >= 1 and body.locals[1]["ty"].get("k") == "ref" and body.locals[1]["ty"]["t"].get("k") in ("slice", "str") else 99
    sy = Sym(prog, an, slice_param=sp)
    targets = an.ok_sites() if sites == "ok" else an.some_sites()
    out = []
    for bb, t in targets:
        ps = forward_paths(an, bb, limit=limit)
        if ps is None:
            raise RuntimeError("too many accept paths in %s" % fn_path)
        sets = []
        for path in ps:
            for case in case_paths(sy, path):
                ats = simplify(case, sy.sym_box)
                if ats is None:
                    continue   # infeasible path
                strs = frozenset(apply_alias(atom_str(a), alias) for a in ats)
                sets.append(strs)
        merged = merge_value_sets(sets)
        out.append(Table(fn_path, bb, merged, len(ps)))
    return out, an, sy


def loop_tables(prog, an, sy, header, alias=None):
    ps = loop_iteration_paths(an, header)
    sets = []
    for path in ps or []:
        for case in case_paths(sy, path):
            ats = simplify(case, sy.sym_box)
            if ats is None:
                continue
            sets.append(frozenset(apply_alias(atom_str(a), alias) for a in ats))
    return merge_value_sets(sets)


def apply_alias(s, alias):
    if not alias:
        return s
    for long, short_ in alias:
        if long.startswith("re:"):
            import re as _re
            s = _re.sub(long[3:], short_, s)
        else:
            s = s.replace(long, short_)
    return s


def expand_spec(spec):
    """spec: {"common": [...], "dims": [[alt, alt, ...], ...]} where alt is a list of atom strings.
    Returns list of frozensets."""
    common = list(spec.get("common", []))
    dims = spec.get("dims", [])
    out = []
    for combo in itertools.product(*dims) if dims else [()]:
        s = set(common)
        for alt in combo:
            s |= set(alt)
        out.append(frozenset(s))
    return out


def complement(a):
    """the atom string that holds exactly when `a` does not (integer / boolean atoms of the canonical vocabulary)"""
    import re
    m = re.match(r"^bit (.*) = ([01])$", a)
    if m:
        return "bit %s = %d" % (m.group(1), 1 - int(m.group(2)))
    for p_, q_ in ((" is Some", " is None"), (" is None", " is Some"), (" is Ok", " is Err"), (" is Err", " is Ok")):
        if a.endswith(p_):
            return a[:-len(p_)] + q_
    m = re.match(r"^pred (.*) (True|False)$", a)
    if m:
        return "pred %s %s" % (m.group(1), "False" if m.group(2) == "True" else "True")
    if a.endswith(" == 0"):
        return a[:-5] + " != 0"
    if a.endswith(" != 0"):
        return a[:-5] + " == 0"
    if a.endswith(" >= 0"):
        # integers: not (P >= 0)  <=>  -P - 1 >= 0
        q = _parse_lin(a[:-5])
        if q is not None:
            return "%s >= 0" % str((Poly.const(-1) - q).normalised_int() if False else (Poly.const(-1) - q))
    return None


def _parse_lin(txt):
    """a polynomial printed by Poly.__str__ read back (monomials as opaque symbols), or None"""
    terms, depth, cur, sign = [], 0, "", 1
    i = 0
    txt = txt.strip()
    if txt.startswith("-"):
        sign, txt = -1, txt[1:]
    signs = [sign]
    while i < len(txt):
        ch = txt[i]
        if ch in "([{<":
            depth += 1
        elif ch in ")]}>":
            depth -= 1
        if depth == 0 and txt[i:i + 3] in (" + ", " - "):
            terms.append(cur)
            signs.append(1 if txt[i:i + 3] == " + " else -1)
            cur = ""
            i += 3
            continue
        cur += ch
        i += 1
    terms.append(cur)
    out = Poly()
    for sg, tm_ in zip(signs, terms):
        tm_ = tm_.strip()
        if not tm_:
            return None
        # split the monomial on '*' at depth 0
        fs, d2, c2 = [], 0, ""
        for ch in tm_:
            if ch in "([{<":
                d2 += 1
            elif ch in ")]}>":
                d2 -= 1
            if ch == "*" and d2 == 0:
                fs.append(c2)
                c2 = ""
            else:
                c2 += ch
        fs.append(c2)
        coef = Fraction(sg)
        mono = Poly.const(1)
        for f_ in fs:
            try:
                coef *= Fraction(f_)
            except (ValueError, ZeroDivisionError):
                mono = mono * Poly.sym(f_)
        out = out + mono.scale(coef)
    return out


def prop_equivalent(got, want, limit=4000):
    """are two disjunctions of conjunctions (sets of atom-string sets) equivalent as PROPOSITIONAL formulas over their
    atoms (an atom and its `complement` being one variable)?  Equivalence as propositional formulas implies equivalence
    for every input, whatever the atoms mean, so `True` is a proof; `False` only means "not shown"."""
    def lit(a):
        c = complement(a)
        if c is not None and c < a:
            return (c, False)
        return (a, True)

    def norm(paths):
        out = set()
        for p_ in paths:
            ls = frozenset(lit(a) for a in p_)
            if any((v, not b) in ls for (v, b) in ls):
                continue                       # contradictory conjunction
            out.add(ls)
        # absorption: a conjunction that contains another one adds nothing
        return frozenset(r for r in out if not any(o < r for o in out))
    budget = [limit]
    memo = {}

    def eq(A, B):
        if A == B:
            return True
        key = (A, B)
        if key in memo:
            return memo[key]
        budget[0] -= 1
        if budget[0] < 0:
            return False
        tA, tB = frozenset() in A, frozenset() in B
        if tA and tB:
            return True
        vs = sorted(set(v for r in (A | B) for (v, _) in r))
        if not vs:
            return bool(A) == bool(B)
        # split on the variable that occurs most often
        cnt = {}
        for r in (A | B):
            for (v, _) in r:
                cnt[v] = cnt.get(v, 0) + 1
        v0 = max(vs, key=lambda v: (cnt[v], v))
        ok = True
        for val in (True, False):
            A2 = norm_l(frozenset(r - {(v0, val)} for r in A if (v0, not val) not in r))
            B2 = norm_l(frozenset(r - {(v0, val)} for r in B if (v0, not val) not in r))
            if not eq(A2, B2):
                ok = False
                break
        memo[key] = ok
        return ok

    def norm_l(rows):
        if frozenset() in rows:
            return frozenset([frozenset()])
        return frozenset(r for r in rows if not any(o < r for o in rows))
    return eq(norm(got), norm(want))


def merge_complementary(paths):
    """a set of conjunctions (paths) as a disjunction: two paths that differ in exactly one atom and its complement are
    one path without it (the test does not matter) — applied to a fixpoint, so that the way a decision tree is nested
    (which test comes first, whether two identical outcomes are reached separately) does not change the set"""
    paths = list(set(frozenset(p) for p in paths))
    changed = True
    while changed:
        changed = False
        for i in range(len(paths)):
            for j in range(i + 1, len(paths)):
                a, b = paths[i], paths[j]
                da, db = a - b, b - a
                if len(da) == 1 and len(db) == 1 and complement(next(iter(da))) == next(iter(db)):
                    paths = [p for k, p in enumerate(paths) if k not in (i, j)] + [a & b]
                    paths = list(set(paths))
                    changed = True
                    break
            if changed:
                break
    return paths


def compare(res, rule, fn, where, got, want, what="accept path"):
    """Exact comparison of path sets; reports atoms missing / extra relative to the closest spec case."""
    got = set(merge_complementary(got))
    want = set(merge_complementary(want))
    if got != want and prop_equivalent(got, want):
        # the same predicate as a propositional formula over the same atoms (a decision ladder nested differently, shared
        # tests factored out): equal for every input
        got = set(want)
    n_ok = len(got & want)
    for _ in range(n_ok):
        res.hit(rule)
        res.oblige(True, "accept-table")
    extra = got - want
    missing = want - got
    for g in sorted(extra, key=sorted):
        res.oblige(False)
        # closest spec case
        best = min(want, key=lambda w: len(w ^ g)) if want else frozenset()
        lack = sorted(best - g)
        more = sorted(g - best)
        parts = []
        if lack:
            parts.append("lacks the guard(s) {%s}" % "; ".join(lack))
        if more:
            parts.append("has the unexpected guard(s) {%s}" % "; ".join(more))
        site = "path:" + ("-" + "|".join(lack) if lack else "") + ("+" + "|".join(more) if more else "")
        res.violate(rule, fn, site[:300], "%s differs from the spec: it %s" % (what, " and ".join(parts) or "is not in the spec"), where,
                    detail={"got": sorted(g), "closest_spec_case": sorted(best)})
    for w in sorted(missing, key=sorted):
        if extra:
            continue   # already explained by the closest-case report
        res.oblige(False)
        res.violate(rule, fn, "missing-case:" + "|".join(sorted(w - (set.intersection(*map(set, want)) if want else set())))[:300],
                    "spec %s {%s} has no counterpart in the code (well-formed input rejected or case not handled)" % (what, "; ".join(sorted(w))), where)


def load_spec(name):
    with open(os.path.join(build.VERIF, "tables", "spec", name)) as fh:
        return json.load(fh)


def value_poly(sy, d):
    """polynomial of a returned value; a returned integer comparison is its 0/1 flag (so that `a == b` as the tail
    expression and `if a == b { true } else { false }` / `matches!(.. if a == b)` give the same two rows)"""
    p = sy.poly(d)
    if p is None:
        from .terms import strip as _st
        from .guards import as_cmp as _as_cmp
        d0 = _st(d)
        if d0[0] in ("bin", "un") and _as_cmp(d0, True) is not None and not sy.is_float_cmp(d0):
            p = sy.poly(("cast", "IntToInt", d0, "u8"))
    return p


def ret_table(prog, fn, alias=None, slice_param=None, only_ok=False, quantified=False):
    """[(sorted atom strings, return-value name)] over all feasible return paths of fn.  With `quantified`, the outcome
    atoms of checking loops and of find / position / any / all are rewritten into `forall` / witness form
    (agvlib.quant), so that a loop with an early return and the equivalent iterator chain give the same rows."""
    from .guards import analysis as _an
    body = prog.body(fn)
    an = _an(prog, body)
    if slice_param is None:
        slice_param = 1 if body.argc >= 1 and body.locals[1]["ty"].get("k") == "ref" and body.locals[1]["ty"]["t"].get("k") in ("slice", "str") else 99
    sy = Sym(prog, an, slice_param=slice_param)
    out = []
    rws = None
    for rb in body.returns():
        ps = forward_paths(an, rb)
        if ps is None:
            raise RuntimeError("too many paths in %s" % fn)
        for path in ps:
            def _vals(path=path):
                sy.set_path(path[1])
                try:
                    out_ = []
                    for d in sy.var_defs(0) or []:
                        p_ = value_poly(sy, d)
                        out_.append(str(p_) if p_ is not None else sy.name(d))
                    return out_
                finally:
                    sy.set_path(None)
            for env, extra in case_envs(sy, path, _vals):
                if env:
                    sy.set_cases(env)
                try:
                    ats = simplify(path_atoms(sy, path) + extra, sy.sym_box)
                    if ats is None:
                        continue
                    sy.set_path(path[1])
                    defs = sy.var_defs(0) or []
                    vals = []
                    split_map = None
                    for d in defs:
                        p = value_poly(sy, d)
                        vals.append(str(p) if p is not None else sy.name(d))
                        # `return x.map(f)` / `x.map_err(g)` with x a Result whose variant this path does not know: the two
                        # rows `x is Err => Err(e)` and `x is Ok => Ok(f(v))` of the `match` / `?` form
                        from .terms import strip as _strip2, short as _short2, apply_closure as _apply2
                        ds_ = _strip2(d)
                        if len(defs) == 1 and ds_[0] == "call" and _short2(ds_[1]) == "Result::<T, E>::map" and len(ds_[2]) == 2 and sy.known_result(ds_[2][0]) is None \
                                and not sy.name(ds_[2][0]).startswith(("Err{", "Ok{")):
                            cl_ = _strip2(ds_[2][1])
                            pay_ = ("field", ("downcast", ds_[2][0], "Ok"), 0)
                            ap_ = _apply2(prog, cl_, (pay_,)) if cl_[0] == "aggr" else None
                            okv_ = sy.arg_name(ap_) if ap_ is not None else None
                            if cl_[0] == "fn" and "::" in cl_[1]:
                                # `.map(Enum::Variant)`: the tuple-variant constructor as a function
                                par_, var_ = cl_[1].rsplit("::", 1)
                                adt_ = prog.adts.get(par_)
                                if adt_ and any(v_.get("name") == var_ for v_ in adt_.get("variants", [])):
                                    okv_ = "%s{%s}" % (var_, sy.arg_name(pay_))
                            if okv_ is not None:
                                xn_ = sy.name(ds_[2][0])
                                split_map = [("%s is Err" % xn_, "Err{(%s as Err).0}" % xn_), ("%s is Ok" % xn_, "Ok{%s}" % okv_)]
                    sy.set_path(None)
                finally:
                    if env:
                        sy.set_cases(None)
                val0 = "|".join(sorted(vals))
                ats0 = [atom_str(a) for a in ats]
                rows_ = [(ats0, val0)]
                if split_map is not None:
                    rows_ = [(ats0 + [a_], v_) for a_, v_ in split_map]
                if quantified:
                    from . import quant as _quant
                    if rws is None:
                        rws = _quant.row_rewrites(prog, an, sy)
                    rows_ = [r2 for (a0_, v0_) in rows_ for r2 in _quant.rewrite_rows(rws, a0_, v0_)]
                for ats1, val1 in rows_:
                    val = apply_alias(val1, alias)
                    if only_ok and not val.startswith("Ok{"):
                        continue
                    out.append((sorted(apply_alias(a, alias) for a in ats1), val))
    if quantified:
        return [(list(a), v) for a, v in sorted(set((tuple(a), v) for a, v in out))]
    return sorted(out)


def _quant_rewrite(rws, ats, val):
    from . import quant as _quant
    return _quant.rewrite_row(rws, ats, val)
