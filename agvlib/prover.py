"""Small exact prover for polynomial (in)equalities over bounded symbols (no SMT).

Goal `G >= 0` is proved from facts `F_i >= 0` and symbol intervals when
  (1) interval evaluation of G over the symbol boxes is >= 0, or
  (2) the linear system {F_i >= 0, box constraints, -G - 1 >= 0} over the *monomials* of G and F_i
      (each monomial a variable with its own interval) is infeasible by exact Fourier-Motzkin elimination
      (integers: G >= 0 is the negation of G <= -1).
Products of two facts are added when they are needed to reach degree-2 monomials (Handelman-style).
The certificate is the sequence of eliminations; it is re-checkable by rational arithmetic alone.
"""
from fractions import Fraction
from itertools import combinations

from .sym import Poly

INF = None


def imul(a, b):
    """interval product; None = unbounded side"""
    (al, ah), (bl, bh) = a, b
    cands = []
    unb_lo = unb_hi = False
    for x in (al, ah):
        for y in (bl, bh):
            if x is None or y is None:
                # unbounded times something: sign dependent; be conservative
                other = y if x is None else x
                if other is None or other != 0:
                    unb_lo = unb_hi = True
                else:
                    cands.append(Fraction(0))
            else:
                cands.append(Fraction(x) * Fraction(y))
    # refine: if both intervals are non-negative, unboundedness only affects the upper side
    if al is not None and bl is not None and al >= 0 and bl >= 0:
        lo = Fraction(al) * Fraction(bl)
        hi = None if (ah is None or bh is None) else Fraction(ah) * Fraction(bh)
        return (lo, hi)
    lo = None if unb_lo else min(cands)
    hi = None if unb_hi else max(cands)
    return (lo, hi)


def iadd(a, b):
    lo = None if a[0] is None or b[0] is None else a[0] + b[0]
    hi = None if a[1] is None or b[1] is None else a[1] + b[1]
    return (lo, hi)


def iscale(a, c):
    if c == 0:
        return (Fraction(0), Fraction(0))
    lo = None if a[0] is None else a[0] * c
    hi = None if a[1] is None else a[1] * c
    return (lo, hi) if c > 0 else (hi, lo)


def mono_interval(m, box):
    iv = (Fraction(1), Fraction(1))
    for s in m:
        iv = imul(iv, box.get(s, (None, None)))
    return iv


def poly_interval(p, box):
    tot = (Fraction(0), Fraction(0))
    for m, c in p.m.items():
        tot = iadd(tot, iscale(mono_interval(m, box), c))
    return tot


class Prover:
    def __init__(self, facts, box):
        """facts: list of Poly meaning poly >= 0; box: sym -> (lo, hi) with None = unbounded"""
        self.facts = [f for f in facts if f.m]
        self.box = dict(box)
        self.tighten()

    def tighten(self):
        """propagate single-symbol linear facts into the box (a few rounds)"""
        for _ in range(4):
            changed = False
            for f in self.facts:
                syms = f.syms()
                lin = all(len(m) <= 1 for m in f.m)
                if not lin:
                    continue
                for s in syms:
                    a = f.m.get((s,), Fraction(0))
                    if a == 0:
                        continue
                    # a*s + rest >= 0  ->  bound on s from the interval of rest
                    rest = Poly({m: c for m, c in f.m.items() if m != (s,)})
                    rlo, rhi = poly_interval(rest, self.box)
                    lo, hi = self.box.get(s, (None, None))
                    if a > 0 and rhi is not None:
                        nb = -rhi / a          # s >= -rest_max / a
                        if lo is None or nb > lo:
                            self.box[s] = (nb, hi)
                            changed = True
                    if a < 0 and rhi is not None:
                        nb = rhi / (-a)        # s <= rest_max / |a|
                        lo, hi = self.box.get(s, (None, None))
                        if hi is None or nb < hi:
                            self.box[s] = (lo, nb)
                            changed = True
            if not changed:
                break

    def prove_ge0(self, g, integer=True):
        """(proved, how)"""
        lo, hi = poly_interval(g, self.box)
        if lo is not None and lo >= 0:
            return True, "intervals"
        # direct fact
        for f in self.facts:
            d = g - f
            lo2, _ = poly_interval(d, self.box)
            if lo2 is not None and lo2 >= 0:
                return True, "fact+intervals"
        ok = self.fm_infeasible(g, integer)
        if ok:
            return True, "fourier-motzkin"
        return False, "open (interval of goal: [%s, %s])" % (lo, hi)

    def prove_ne0(self, g):
        a, _ = self.prove_ge0(g - Poly.const(1))
        if a:
            return True, "positive"
        b, _ = self.prove_ge0(-g - Poly.const(1))
        if b:
            return True, "negative"
        return False, "open"

    def fm_infeasible(self, g, integer, max_rows=400):
        """Is {facts >= 0, box, g <= -1 (or g < 0)} infeasible over monomial variables?"""
        rows = []   # each row: (dict mono->coef, const) meaning sum coef*mono + const >= 0
        facts = list(self.facts)
        # degree-2 monomials in the goal: add pairwise products of linear facts mentioning their symbols
        need = set(m for m in g.m if len(m) == 2)
        if need:
            lin = [f for f in facts if all(len(m) <= 1 for m in f.m)]
            # box facts as polys too
            for s, (lo, hi) in self.box.items():
                if any(s in m for m in need):
                    if lo is not None:
                        lin.append(Poly.sym(s) - Poly.const(lo))
                    if hi is not None:
                        lin.append(Poly.const(hi) - Poly.sym(s))
            rel = [f for f in lin if any(s in m for m in need for s in f.syms())]
            for a, b in combinations(rel[:14], 2):
                facts.append(a * b)
            for a in rel[:14]:
                facts.append(a * a)
        monos = set()
        for f in facts + [g]:
            for m in f.m:
                if m != ():
                    monos.add(m)
        for f in facts:
            rows.append(({m: c for m, c in f.m.items() if m != ()}, f.m.get((), Fraction(0))))
        # negated goal: -g - 1 >= 0 (integers) ; for rationals use -g >= eps: approximate with -g - tiny >= 0 is unsound -> use strict handling
        ng = -g - Poly.const(1 if integer else 0)
        rows.append(({m: c for m, c in ng.m.items() if m != ()}, ng.m.get((), Fraction(0))))
        strict_last = not integer
        for m in monos:
            lo, hi = mono_interval(m, self.box)
            if lo is not None:
                rows.append(({m: Fraction(1)}, -lo))
            if hi is not None:
                rows.append(({m: Fraction(-1)}, hi))
        # eliminate variables
        order = sorted(monos, key=lambda m: (len(m), m))
        for v in order:
            pos = [r for r in rows if r[0].get(v, 0) > 0]
            neg = [r for r in rows if r[0].get(v, 0) < 0]
            zer = [r for r in rows if r[0].get(v, 0) == 0]
            new = list(zer)
            if len(pos) * len(neg) + len(zer) > max_rows:
                return False
            for p in pos:
                for n in neg:
                    cp, cn = p[0][v], -n[0][v]
                    coefs = {}
                    for k, c in p[0].items():
                        if k != v:
                            coefs[k] = coefs.get(k, 0) + c * cn
                    for k, c in n[0].items():
                        if k != v:
                            coefs[k] = coefs.get(k, 0) + c * cp
                    coefs = {k: c for k, c in coefs.items() if c != 0}
                    const = p[1] * cn + n[1] * cp
                    if not coefs and const < 0:
                        return True
                    new.append((coefs, const))
            # drop duplicates
            seen = set()
            rows = []
            for coefs, const in new:
                key = (tuple(sorted(coefs.items())), const)
                if key not in seen:
                    seen.add(key)
                    rows.append((coefs, const))
        for coefs, const in rows:
            if not coefs and const < 0:
                return True
        return False
