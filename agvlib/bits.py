"""Layer 2 (bit level): evaluate symbolic terms of a decoder body into bit-vectors whose
bits are constants or *input bits* of the byte-slice parameter.

Input positions are linear in L = len(param): a byte position is (cL, c) meaning cL*L + c
with cL in {0, 1}; an input bit is ("i", cL, byte, bit).  A bit-vector is a list of bits,
LSB first; each bit is 0, 1, an input bit tuple, or None (unknown).
"""
from .terms import strip, short, show

TOP = None


class Region:
    """A contiguous byte region of the input slice: start = (cL, c), length = (cL, c) or None (to end)."""
    __slots__ = ("start", "length")

    def __init__(self, start, length):
        self.start = start
        self.length = length

    def __repr__(self):
        return "Region(%s, %s)" % (fmt_lin(self.start), fmt_lin(self.length) if self.length else "..")

    def end(self):
        if self.length is None:
            return (1, 0)
        return (self.start[0] + self.length[0], self.start[1] + self.length[1])

    def const_len(self):
        if self.length is not None and self.length[0] == 0:
            return self.length[1]
        e = self.end()
        if e[0] == self.start[0]:
            return e[1] - self.start[1]
        return None


def fmt_lin(l):
    if l is None:
        return "?"
    a, b = l
    if a == 0:
        return str(b)
    return ("L" if a == 1 else "%d*L" % a) + (("%+d" % b) if b else "")


class BV:
    __slots__ = ("bits", "signed")

    def __init__(self, bits, signed=False):
        self.bits = list(bits)
        self.signed = signed

    @property
    def width(self):
        return len(self.bits)

    def __repr__(self):
        return "BV(%s)" % fmt_bits(self.bits)

    def const_value(self):
        v = 0
        for i, b in enumerate(self.bits):
            if b in (0, 1):
                v |= b << i
            else:
                return None
        return v

    def input_bits(self):
        return [b for b in self.bits if isinstance(b, tuple)]

    def is_selection(self):
        """every bit is a const or a distinct input bit (value <-> those input bits is a bijection)."""
        ins = self.input_bits()
        return all(b is not None for b in self.bits) and len(ins) == len(set(ins))


def fmt_bits(bits):
    out = []
    for b in reversed(bits):
        if b in (0, 1):
            out.append(str(b))
        elif b is None:
            out.append("?")
        else:
            out.append("i")
    return "".join(out)


def const_bv(v, width, signed=False):
    v &= (1 << width) - 1
    return BV([(v >> i) & 1 for i in range(width)], signed)


INT_W = {"u8": 8, "u16": 16, "u32": 32, "u64": 64, "u128": 128, "usize": 64,
         "i8": 8, "i16": 16, "i32": 32, "i64": 64, "i128": 128, "isize": 64, "bool": 1, "char": 32}


def ty_width(tys):
    return INT_W.get(tys)


def lin_of_term(ev, t):
    """Linear form (cL, c) of a usize term in L = len(param 1), or None."""
    t = strip(t)
    if t[0] == "const" and isinstance(t[1], int):
        return (0, t[1])
    if t[0] == "cdef" and ev.prog is not None:
        try:
            v = ev.prog.const_scalar(t[1])
            if isinstance(v, int):
                return (0, v)
        except Exception:
            return None
    if t[0] == "call" and short(t[1]) in ("<impl [T]>::len",) and len(t[2]) == 1:
        r = ev.region(t[2][0])
        if r is not None:
            if r.length is not None:
                return r.length
            e = r.end()
            return (e[0] - r.start[0], e[1] - r.start[1])
        return None
    if t[0] == "len":
        r = ev.region(t[1])
        if r is not None:
            if r.length is not None:
                return r.length
            e = r.end()
            return (e[0] - r.start[0], e[1] - r.start[1])
        return None
    if t[0] == "bin" and t[1] in ("Add", "Sub"):
        a = lin_of_term(ev, t[2])
        b = lin_of_term(ev, t[3])
        if a is None or b is None:
            return None
        if t[1] == "Add":
            return (a[0] + b[0], a[1] + b[1])
        return (a[0] - b[0], a[1] - b[1])
    if t[0] == "bin" and t[1] == "Mul":
        a = lin_of_term(ev, t[2])
        b = lin_of_term(ev, t[3])
        if a is None or b is None:
            return None
        if a[0] == 0:
            return (a[1] * b[0], a[1] * b[1])
        if b[0] == 0:
            return (b[1] * a[0], b[1] * a[1])
    return None


class Evaluator:
    """Evaluate terms of one body whose parameter 1 is the input byte slice."""

    def __init__(self, prog, an, slice_param=1):
        self.prog = prog
        self.an = an
        self.p = ("param", slice_param)
        self._memo = {}

    # ---------------------------------------------------------------- regions
    def region(self, t):
        t = strip(t)
        if t == self.p:
            return Region((0, 0), None)
        if t[0] == "call" and short(t[1]) == "Index::index" and len(t[2]) == 2:
            base = self.region(t[2][0])
            if base is None:
                return None
            rng = strip(t[2][1])
            if rng[0] == "aggr" and rng[1].startswith("adt:std::ops::Range"):
                kind = rng[1].split("::")[-1]
                ops = [lin_of_term(self, o) for o in rng[2]]
                if any(o is None for o in ops):
                    return None
                if kind == "RangeFull":
                    return base
                if kind == "Range" and rng[1].endswith("Range::Range"):
                    s, e = ops
                    return Region(add(base.start, s), sub(e, s))
                if kind == "RangeTo":
                    return Region(base.start, ops[0])
                if kind == "RangeFrom":
                    s = ops[0]
                    ln = None if base.length is None else sub(base.length, s)
                    return Region(add(base.start, s), ln)
            return None
        return None

    def region_bytes(self, r):
        n = r.const_len()
        if n is None or n > 64:
            return None
        out = []
        for k in range(n):
            pos = (r.start[0], r.start[1] + k)
            out.append([("i", pos[0], pos[1], b) for b in range(8)])
        return out

    # ---------------------------------------------------------------- byte arrays
    def byte_array(self, t):
        """List of bytes (each a list of 8 bits) for a [u8; N] / &[u8] term, or None."""
        t = strip(t)
        # unwrap(try_into(slice)) / try_from(slice).unwrap()
        if t[0] == "call" and short(t[1]) in ("Result::<T, E>::unwrap", "Result::<T, E>::expect"):
            inner = strip(t[2][0])
            if inner[0] == "call" and short(inner[1]) in ("TryInto::try_into", "TryFrom::try_from"):
                return self.byte_array(inner[2][0])
        r = self.region(t)
        if r is not None:
            return self.region_bytes(r)
        if t[0] == "mut":
            return self.mut_array(t)
        if t[0] == "repeat":
            v = self.bv(t[1])
            if v is not None and v.width == 8 and isinstance(t[2], int) and t[2] <= 64:
                return [list(v.bits) for _ in range(t[2])]
            return None
        if t[0] == "mem":
            return [[(v >> b) & 1 for b in range(8)] for v in t[1]]
        if t[0] == "cdef" and self.prog is not None:
            # a named `const X: [u8; N]`: its evaluated bytes
            c = self.prog.consts.get(t[1])
            ty = (c or {}).get("ty") or {}
            mem = ((c or {}).get("val") or {}).get("mem")
            if ty.get("k") == "array" and (ty.get("t") or {}).get("k") == "int" and ty["t"].get("w") == 8 and isinstance(mem, list) \
                    and len(mem) == ty.get("n") and len(mem) <= 64:
                return [[(v >> b) & 1 for b in range(8)] for v in mem]
            return None
        if t[0] == "aggr" and t[1] == "array":
            out = []
            for o in t[2]:
                v = self.bv(o)
                if v is None or v.width != 8:
                    return None
                out.append(v.bits)
            return out
        if t[0] == "cast" and "Unsize" in t[1]:
            return self.byte_array(t[2])
        if t[0] == "call" and short(t[1]) == "<impl [T]>::concat" or (t[0] == "call" and short(t[1]).endswith("::concat")):
            arr = strip(t[2][0])
            while arr[0] == "cast" and "Unsize" in arr[1]:
                arr = strip(arr[2])
            if arr[0] == "aggr" and arr[1] == "array":
                out = []
                for o in arr[2]:
                    b = self.byte_array(o)
                    if b is None:
                        return None
                    out.extend(b)
                return out
        return None

    def mut_array(self, t):
        """A local byte array initialised once and then written only through
        `array[..n].copy_from_slice(src)` views: overlay the writes on the initial value.
        Every `&mut` borrow of the local must be accounted for by such a write."""
        l, init = t[1], t[2]
        base = self.byte_array(init)
        if base is None:
            return None
        body = self.an.body
        tm = self.an.terms
        nborrows = 0
        for bi, si, st in body.stmts():
            if st["k"] == "assign" and st["rv"]["k"] == "ref" and st["rv"].get("m") and st["rv"]["p"]["l"] == l \
                    and not any(e["k"] == "deref" for e in st["rv"]["p"]["pr"]):
                nborrows += 1
        writes = []
        for bb, term in body.calls():
            if short(term.get("callee") or "") != "<impl [T]>::copy_from_slice":
                continue
            dst = tm.operand(term["args"][0])
            d = dst
            while d[0] in ("ref", "deref"):
                d = d[1]
            if d[0] == "call" and short(d[1]) == "IndexMut::index_mut" and len(d[2]) == 2:
                b0 = d[2][0]
                while b0[0] in ("ref", "deref"):
                    b0 = b0[1]
                if b0[0] == "mut" and b0[1] == l:
                    rng = strip(d[2][1])
                    lo, hi = None, None
                    if rng[0] == "aggr" and rng[1].startswith("adt:std::ops::Range"):
                        ops = [lin_of_term(self, o) for o in rng[2]]
                        kind = rng[1].split("::")[-1]
                        if all(o is not None and o[0] == 0 for o in ops):
                            if kind == "RangeTo":
                                lo, hi = 0, ops[0][1]
                            elif kind == "Range":
                                lo, hi = ops[0][1], ops[1][1]
                            elif kind == "RangeFrom":
                                lo, hi = ops[0][1], len(base)
                            elif kind == "RangeFull":
                                lo, hi = 0, len(base)
                    src = self.byte_array(tm.operand(term["args"][1]))
                    if lo is None or src is None or hi - lo != len(src) or hi > len(base):
                        return None
                    writes.append((bb, lo, hi, src))
        if len(writes) != nborrows or not writes:
            return None
        out = [list(b) for b in base]
        for bb, lo, hi, src in sorted(writes, key=lambda w: self.an.body.rpo().index(w[0]) if w[0] in self.an.body.rpo() else 0):
            for k in range(lo, hi):
                out[k] = list(src[k - lo])
        return out

    # ---------------------------------------------------------------- bit-vectors
    def bv(self, t):
        key = id(t)
        t0 = t
        r = self._bv(t)
        return r

    def _bv(self, t):
        # like terms.strip, but a widening `From::from` / `into()` is kept: it changes the width the following shifts
        # and masks work in (`(u64::from(hi) << 32) | u64::from(lo)`)
        from .terms import TRANSPARENT_CALLS
        while True:
            if t[0] in ("ref", "deref"):
                t = t[1]
                continue
            if t[0] == "call" and len(t[2]) == 1 and short(t[1]) in TRANSPARENT_CALLS and short(t[1]) not in ("From::from", "Into::into"):
                t = t[2][0]
                continue
            break
        k = t[0]
        if k == "const":
            w = ty_width(t[2])
            if w is None:
                return None
            v = t[1]
            if isinstance(v, bool):
                v = int(v)
            if not isinstance(v, int):
                return None
            return const_bv(v, w, t[2].startswith("i"))
        if k == "cdef" and self.prog is not None:
            c = self.prog.consts.get(t[1])
            if c and "v" in c.get("val", {}):
                from . import pp
                tys = pp.ty(c["ty"])
                w = ty_width(tys)
                if w:
                    return const_bv(int(c["val"]["v"]), w, tys.startswith("i"))
            return None
        if k == "index":
            # slice[const]
            base = self.region(t[1])
            idx = lin_of_term(self, t[2])
            if base is not None and idx is not None:
                pos = add(base.start, idx)
                return BV([("i", pos[0], pos[1], b) for b in range(8)])
            return None
        if k == "call":
            s = short(t[1])
            if s.endswith("::from_le_bytes") or s.endswith("::from_be_bytes"):
                arr = self.byte_array(t[2][0])
                if arr is None:
                    return None
                if s.endswith("from_be_bytes"):
                    arr = list(reversed(arr))
                bits = [b for byte in arr for b in byte]
                signed = "impl i" in s
                return BV(bits, signed)
            if s in ("From::from", "Into::into") or s.startswith("<impl std::convert::From<") or ("impl std::convert::From<" in t[1]):
                inner = self.bv(t[2][0])
                if inner is None:
                    return None
                w = self._target_width(t)
                if w is None:
                    return None
                return extend(inner, w)
            if s in ("Result::<T, E>::unwrap", "Result::<T, E>::expect"):
                inner = strip(t[2][0])
                if inner[0] == "call" and short(inner[1]) in ("TryInto::try_into", "TryFrom::try_from"):
                    v = self.bv(inner[2][0])
                    if v is None:
                        return None
                    w = self._target_width(inner)
                    if w is None:
                        return None
                    return extend(v, w) if w >= v.width else BV(v.bits[:w], v.signed)
                return None
            if s.endswith("::leading_zeros"):
                return None
            return None
        if k == "cast":
            inner = self.bv(t[2])
            w = ty_width(t[3])
            if inner is None or w is None:
                return None
            if w >= inner.width:
                return extend(inner, w, signed_to=t[3].startswith("i"))
            return BV(inner.bits[:w], t[3].startswith("i"))
        if k == "bin":
            op = t[1]
            a = self.bv(t[2])
            b = self.bv(t[3])
            if op in ("BitAnd", "BitOr", "BitXor") and a is not None and b is not None and a.width == b.width:
                return BV([bitop(op, x, y) for x, y in zip(a.bits, b.bits)], a.signed)
            if op in ("Shr", "Shl") and a is not None and b is not None:
                n = b.const_value()
                if n is None:
                    return None
                if op == "Shr":
                    fill = 0 if not a.signed else a.bits[-1]
                    return BV(a.bits[n:] + [fill] * min(n, a.width), a.signed)
                return BV(([0] * n + a.bits)[:a.width], a.signed)
            if op in ("Ne", "Eq") and a is not None and b is not None:
                # single-bit test: (x & (1<<k)) != 0
                cv = b.const_value()
                if cv == 0:
                    live = [x for x in a.bits if x != 0]
                    if len(live) == 1 and live[0] is not None:
                        bit = live[0]
                        if op == "Ne":
                            return BV([bit])
                        return BV([neg(bit)])
                if cv is not None:
                    live = [(i, x) for i, x in enumerate(a.bits) if x != 0]
                    if len(live) == 1 and live[0][1] is not None and cv == (1 << live[0][0]):
                        bit = live[0][1]
                        return BV([bit]) if op == "Eq" else BV([neg(bit)])
                return None
            return None
        if k == "un" and t[1] == "Not":
            a = self.bv(t[2])
            if a is None:
                return None
            return BV([neg(x) for x in a.bits], a.signed)
        return None

    def _target_width(self, call_term):
        """Width of the integer type produced by a From/Into/TryInto call, from the call-site facts."""
        site = call_term[3]
        blk = self.an.body.blocks[site]["t"]
        d = blk["dest"]
        if d["pr"]:
            return None
        ty = self.an.body.locals[d["l"]]["ty"]
        # Result<T, E> for try_into
        if ty["k"] == "adt" and ty["p"].endswith("Result") and ty["a"]:
            ty = ty["a"][0]
        if ty["k"] == "int":
            return ty["w"]
        if ty["k"] == "char":
            return 32
        return None


def neg(b):
    if b in (0, 1):
        return 1 - b
    if b is None:
        return None
    if b[0] == "n":
        return b[1]
    return ("n", b)


def bitop(op, x, y):
    if op == "BitAnd":
        if x == 0 or y == 0:
            return 0
        if x == 1:
            return y
        if y == 1:
            return x
        return None if x != y else x
    if op == "BitOr":
        if x == 1 or y == 1:
            return 1
        if x == 0:
            return y
        if y == 0:
            return x
        return None if x != y else x
    if op == "BitXor":
        if x == 0:
            return y
        if y == 0:
            return x
        if x == 1:
            return neg(y)
        if y == 1:
            return neg(x)
        return 0 if (x == y and x is not None) else None
    return None


def extend(v, w, signed_to=None):
    if w <= v.width:
        return BV(v.bits[:w], v.signed if signed_to is None else signed_to)
    fill = v.bits[-1] if v.signed else 0
    return BV(v.bits + [fill] * (w - v.width), v.signed if signed_to is None else signed_to)


def add(a, b):
    return (a[0] + b[0], a[1] + b[1])


def sub(a, b):
    return (a[0] - b[0], a[1] - b[1])


# -------------------------------------------------------------------- atoms -> forced / tied bits
def constraints_from_atom(ev, d, rel, vals):
    """Translate a dominating-edge atom into bit constraints.
    Returns list of ("force", inputbit, value) / ("tie", bitA, bitB) / ("other", description)."""
    from .guards import truth_of, as_cmp
    tr = truth_of(rel, vals)
    out = []
    if tr is None:
        return [("other", "switch %s %s %s" % (show(d), rel, sorted(vals)))]
    d0_ = d
    while d0_[0] in ("ref", "deref"):
        d0_ = d0_[1]
    if d0_[0] == "call" and d0_[1].endswith(("RangeInclusive::<Idx>::contains", "Range::<Idx>::contains")) and len(d0_[2]) == 2 and tr is True:
        # (lo..=hi).contains(&x) on the accept path: lo <= x and x <= hi (x < hi for a half-open range)
        rg = d0_[2][0]
        while rg[0] in ("ref", "deref", "mut"):
            rg = rg[1] if rg[0] != "mut" else rg[2]
        lo = hi = None
        if rg[0] == "call" and rg[1].endswith("RangeInclusive::<Idx>::new") and len(rg[2]) == 2:
            lo, hi, hop = rg[2][0], rg[2][1], "Le"
        elif rg[0] == "aggr" and rg[1].endswith("Range::Range") and len(rg[2]) == 2:
            lo, hi, hop = rg[2][0], rg[2][1], "Lt"
        if lo is not None:
            x_ = d0_[2][1]
            return constraints_from_atom(ev, ("bin", "Le", lo, x_), "notin", frozenset([0])) + \
                constraints_from_atom(ev, ("bin", hop, x_, hi), "notin", frozenset([0]))
    c = as_cmp(d, tr)
    if c is None:
        # an integer used as a discriminant (`match x & m { 0 => .., _ => .. }`): "true" means non-zero
        v_int = ev.bv(d)
        if v_int is not None and v_int.width > 1:
            zero = ("const", 0, "u%d" % v_int.width)
            return constraints_from_atom(ev, ("bin", "Ne", d, zero), rel, vals)
    if c is None:
        # bare boolean value
        v = ev.bv(d)
        if v is not None and v.width == 1 and isinstance(v.bits[0], tuple):
            b = v.bits[0]
            if b[0] == "n":
                out.append(("force", b[1], 0 if tr else 1))
            else:
                out.append(("force", b, 1 if tr else 0))
            return out
        return [("other", "%s is %s" % (show(d), tr))]
    op, a, b = c
    if op in ("Eq",):
        va, vb = ev.bv(a), ev.bv(b)
        if va is None and vb is None:
            # slice == const bytes
            ba, bb = ev.byte_array(a), ev.byte_array(b)
            if ba is not None and bb is not None and len(ba) == len(bb):
                va = BV([x for byte in ba for x in byte])
                vb = BV([x for byte in bb for x in byte])
        if va is not None and vb is not None and va.width == vb.width:
            for x, y in zip(va.bits, vb.bits):
                if x is None or y is None:
                    out.append(("other", "unknown bit in equality"))
                elif isinstance(x, tuple) and y in (0, 1):
                    out.append(force(x, y))
                elif isinstance(y, tuple) and x in (0, 1):
                    out.append(force(y, x))
                elif isinstance(x, tuple) and isinstance(y, tuple):
                    out.append(("tie", x, y))
                elif x != y:
                    out.append(("other", "unsatisfiable constant equality"))
            return out
    # x <= 2^k - 1 / x < 2^k (either side): the bits k.. of x are zero, nothing else is constrained
    if op in ("Le", "Lt", "Ge", "Gt"):
        va, vb = ev.bv(a), ev.bv(b)
        x, cst, o2 = None, None, op
        if va is not None and vb is not None:
            if vb.const_value() is not None and va.const_value() is None:
                x, cst = va, vb.const_value()
            elif va.const_value() is not None and vb.const_value() is None:
                x, cst, o2 = vb, va.const_value(), {"Le": "Ge", "Lt": "Gt", "Ge": "Le", "Gt": "Lt"}[op]
        if x is not None and o2 in ("Le", "Lt"):
            bound = cst + 1 if o2 == "Le" else cst         # x < bound
            if bound > 0 and bound & (bound - 1) == 0:
                k = bound.bit_length() - 1
                hi = x.bits[k:]
                if all(bit in (0, 1) or isinstance(bit, tuple) for bit in x.bits):
                    for bit in hi:
                        if isinstance(bit, tuple):
                            out.append(force(bit, 0))
                        elif bit == 1:
                            out.append(("other", "unsatisfiable constant comparison"))
                    return out
    return [("cmp", op, a, b)]


def force(bit, val):
    if bit[0] == "n":
        return ("force", bit[1], 1 - val)
    return ("force", bit, val)
