import importlib
import json
import os
import sys
import time
import traceback

from . import build, facts, pp, report

PROPS = ["C01", "C02", "C03", "C04", "C05", "C06", "C07", "C08", "C09", "C10", "C11", "C13", "C14", "C15", "C16", "C18",
         "C19", "C20"]


def main(argv):
    if not argv:
        print(__doc__ or "usage: agv setup|facts|check|explain|dump|selftest")
        return 2
    cmd = argv[0]
    if cmd == "setup":
        build.build_driver()
        print("agv: driver ready at", build.DRIVER_BIN)
        # warm the dependency cache + facts for the current tree
        d = build.facts_dir()
        print("agv: facts at", d)
        return 0
    if cmd == "facts":
        d = build.facts_dir()
        print(d)
        return 0
    if cmd == "dump":
        prog = facts.load()
        pat = argv[1]
        for p, b in sorted(prog.bodies.items()):
            if pat in p:
                print(pp.body(b, show_cleanup="--cleanup" in argv))
                print()
        return 0
    if cmd == "paths":
        from . import accept
        prog = facts.load()
        tabs, an, sy = accept.accept_tables(prog, argv[1], sites="some" if "--some" in argv else "ok")
        for tb in tabs:
            print("== accept site bb%d: %d raw path(s), %d after simplification/merging" % (tb.site, tb.raw_count, len(tb.paths)))
            common = tb.common()
            for a in sorted(common):
                print("   ALL: %s" % a)
            for i, ats in enumerate(sorted(tb.paths, key=sorted)):
                print("   case %d: %s" % (i, " ; ".join(sorted(ats - common))))
        for (tail, head) in an.body.back_edges():
            print("== loop header bb%d" % head)
            for i, ats in enumerate(accept.loop_tables(prog, an, sy, head)):
                print("   iter-path %d: %s" % (i, " ; ".join(sorted(ats))))
        return 0
    if cmd == "list":
        prog = facts.load()
        pat = argv[1] if len(argv) > 1 else ""
        for p, b in sorted(prog.bodies.items()):
            if pat in p:
                print("%-8s %s  (%s)" % (b.kind, p, b.where()))
        return 0
    if cmd == "explain":
        with open(argv[1]) as fh:
            r = json.load(fh)
        print(json.dumps(r, indent=1))
        prop = r.get("property")
        if prop:
            print("re-running %s (quick) to show whether the report still reproduces:" % prop)
            return run_check(prop, "quick")
        return 0
    if cmd == "check":
        prop = argv[1]
        tier = os.environ.get("VERIF_TIER", "quick")
        if "--tier" in argv:
            tier = argv[argv.index("--tier") + 1]
        return run_check(prop, tier)
    if cmd == "selftest":
        from . import selftest
        return selftest.main(argv[1:])
    if cmd == "controls":
        from . import controls
        return controls.main(argv[1:])
    print("unknown command", cmd)
    return 2


def run_check(prop, tier):
    t0 = time.time()
    checker_cmd = "./agv check %s --tier %s" % (prop, tier)
    try:
        mod = importlib.import_module("agvlib.rules.%s" % prop.lower())
    except ImportError as e:
        print("agv: no rule pack for %s (%s)" % (prop, e))
        return 2
    res = report.Result(prop, getattr(mod, "LEVEL", "other"))
    try:
        prog = facts.load()
        mod.run(prog, tier, res)
    except facts.AnchorMissing as e:
        res.violate("%s.anchor" % prop, "-", str(e), "anchor missing: %s" % e, kind="anchor-missing")
    except SystemExit as e:
        res.violate("%s.build" % prop, "-", "facts", "could not build facts: %s" % e, kind="anchor-missing")
    except Exception as e:  # fail closed, but say why
        traceback.print_exc()
        res.violate("%s.internal" % prop, "-", type(e).__name__, "internal error in rule pack: %r" % e,
                    kind="internal-error")
    return report.finish(res, tier, t0, checker_cmd)
